"""atheris (libFuzzer) target for C07: coverage-guided search over expression strings.

Oracles inside the target (the target never relies on crashes):
  * audit-hook monitor: no exec/compile/import/open/os/... event and no foreign object while pint parses the string (case_noexec);
  * differential: when Python's own grammar reads the string as an arithmetic expression over decimal literals, the names
    {m, s, kg, meter, second} and the operators + - * / // ** with unary signs, pint must give the value/type/error class of that tree
    evaluated with Python operators on the named quantities (case_fuzz in props/c07.py);
  * structure: over the plain expression alphabet a string with unbalanced parentheses or a dangling binary operator never yields a value.
Findings are appended to $VF_FUZZ_OUT (json lines) and the campaign continues; statistics go to $VF_FUZZ_OUT.stats.

usage: python -m vf.fuzz.c07_target <corpus dir> [libFuzzer flags]
"""
import json
import os
import sys


def main():
    import atheris

    from vf.core import Skip, Violation
    from vf.props import c07

    out = os.environ["VF_FUZZ_OUT"]
    stats = {"execs": 0, "in_domain": 0, "in_domain_ok": 0, "structure_checked": 0, "skipped": 0, "findings": 0}
    seen_classes = set()
    distinct = set()
    samples = []

    def flush():
        stats["distinct_in_domain"] = len(distinct)
        stats["samples"] = samples[:12]
        with open(out + ".stats", "w") as fh:
            json.dump(stats, fh)

    def one(data):
        fdp = atheris.FuzzedDataProvider(data)
        s = fdp.ConsumeUnicodeNoSurrogates(64)
        stats["execs"] += 1
        try:
            info = c07.case_fuzz({"s": s}, None)
            if info.get("in_domain"):
                stats["in_domain"] += 1
                if info.get("ok"):
                    stats["in_domain_ok"] += 1
                if len(distinct) < 200000:
                    distinct.add(hash(s))
                if len(samples) < 12 and info.get("ok") and len(s) > 6 and stats["in_domain_ok"] % 37 == 0:
                    samples.append(s)
            if info.get("structure"):
                stats["structure_checked"] += 1
        except Skip:
            stats["skipped"] += 1
        except Violation as v:
            if v.klass not in seen_classes:
                seen_classes.add(v.klass)
                stats["findings"] += 1
                with open(out, "a") as fh:
                    fh.write(json.dumps({"s": s, "klass": v.klass, "msg": v.msg[:400]}) + "\n")
                flush()
        if stats["execs"] % 500 == 0:
            flush()

    with atheris.instrument_imports(include=["pint"]):
        import pint  # noqa: F401

        from vf import env

        env.ureg("float")
    atheris.Setup(sys.argv, one)
    flush()
    atheris.Fuzz()


if __name__ == "__main__":
    main()
