"""Shared machinery: violations, collectors, known findings, Hypothesis driver, enumeration shards."""
from __future__ import annotations

import hashlib
import json
import os
import sys
import time
import traceback
from collections import Counter
from fractions import Fraction
from decimal import Decimal

HOME = os.environ.get("VERIF_HOME", os.path.dirname(os.path.dirname(os.path.abspath(__file__))))
REPO = os.path.realpath(os.environ.get("VERIF_REPO", "/repo"))


class Violation(Exception):
    """The property does not hold on this case.  `klass` is a *narrow* class of the failure
    (relation violated + the input class that matters), used to bucket root causes and to match
    entries of known_findings.json."""

    def __init__(self, klass: str, msg: str, detail=None):
        super().__init__(f"{klass}: {msg}")
        self.klass = klass
        self.msg = msg
        self.detail = detail


class HarnessError(Exception):
    pass


class Skip(Exception):
    """The case is outside the domain of the statement (e.g. float range exceeded); counted, never a verdict."""

    def __init__(self, why: str):
        super().__init__(why)
        self.why = why


# ----------------------------------------------------------------------------- JSON helpers

def enc(x):
    """Encode numbers/containers into JSON-able values that `dec` restores exactly."""
    if isinstance(x, bool) or x is None or isinstance(x, str):
        return x
    if isinstance(x, int):
        return x
    if isinstance(x, Fraction):
        return {"F": f"{x.numerator}/{x.denominator}"}
    if isinstance(x, Decimal):
        return {"D": str(x)}
    if isinstance(x, float):
        return {"f": x.hex()} if x == x and x not in (float("inf"), float("-inf")) else {"f": repr(x)}
    if isinstance(x, (list, tuple)):
        return [enc(v) for v in x]
    if isinstance(x, dict):
        return {"d": [[enc(k), enc(v)] for k, v in x.items()]}
    try:
        import numpy as np

        if isinstance(x, np.ndarray):
            return {"nd": x.tolist(), "dtype": str(x.dtype)}
        if isinstance(x, np.generic):
            return enc(x.item())
    except ImportError:  # pragma: no cover
        pass
    return {"repr": repr(x)}


def dec(x):
    if isinstance(x, list):
        return [dec(v) for v in x]
    if isinstance(x, dict):
        if "F" in x:
            return Fraction(x["F"])
        if "D" in x:
            return Decimal(x["D"])
        if "f" in x:
            s = x["f"]
            return float.fromhex(s) if "x" in s else float(s)
        if "d" in x:
            return {_hashable(dec(k)): dec(v) for k, v in x["d"]}
        if "nd" in x:
            import numpy as np

            return np.array(x["nd"], dtype=x["dtype"])
        if "repr" in x:
            return x["repr"]
    return x


def _hashable(v):
    return tuple(v) if isinstance(v, list) else v


def show(x):
    """Human-readable form of a case for samples (never uses pint's str/repr)."""
    if isinstance(x, Fraction):
        return f"{x.numerator}/{x.denominator}" if x.denominator != 1 else str(x.numerator)
    if isinstance(x, (list, tuple)):
        return [show(v) for v in x]
    if isinstance(x, dict):
        return {str(show(k)): show(v) for k, v in x.items()}
    if isinstance(x, (int, str, bool)) or x is None:
        return x
    if isinstance(x, float):
        return x if x == x and abs(x) != float("inf") else repr(x)
    return repr(x)


def khash(key) -> int:
    h = hashlib.blake2b(repr(key).encode("utf-8", "surrogatepass"), digest_size=8).digest()
    return int.from_bytes(h, "big")


# ----------------------------------------------------------------------------- known findings

def load_known(prop: str):
    path = os.path.join(HOME, "known_findings.json")
    if not os.path.exists(path):
        return []
    with open(path) as fh:
        data = json.load(fh)
    return [e for e in data.get("findings", []) if e.get("property") == prop]


# ----------------------------------------------------------------------------- collector

class Collector:
    """Per-task accumulator; merged by the runner."""

    MAX_SAMPLES = 6

    def __init__(self, prop: str, subcheck: str, known_classes=()):
        self.prop = prop
        self.subcheck = subcheck
        self.known_classes = set(known_classes)
        self.evaluations = 0
        self.nontrivial: set[int] = set()
        self.samples: list = []
        self.counters: Counter = Counter()
        self.violations: list[dict] = []
        self.known_hits: Counter = Counter()
        self.excluded = 0
        self.exhaustive = None
        self.notes: list[str] = []
        self.inconclusive = False

    def case(self, key, nontrivial: bool, sample=None, cls: str | None = None):
        self.evaluations += 1
        if cls:
            self.counters[cls] += 1
        if nontrivial:
            h = khash(key)
            if h not in self.nontrivial:
                self.nontrivial.add(h)
                if sample is not None and len(self.samples) < self.MAX_SAMPLES:
                    self.samples.append(show(sample))

    def count(self, cls: str, n: int = 1):
        self.counters[cls] += n

    def is_known(self, v: Violation) -> bool:
        return v.klass in self.known_classes

    def violation(self, case, v: Violation):
        if self.is_known(v):
            self.known_hits[v.klass] += 1
            return
        # one replay per root-cause bucket
        for old in self.violations:
            if old["klass"] == v.klass:
                old["count"] += 1
                return
        self.violations.append(
            {"subcheck": self.subcheck, "klass": v.klass, "msg": v.msg, "case": enc(case), "count": 1}
        )

    def run_case(self, fn, case):
        """Run fn(case); Violations are recorded, never propagated."""
        try:
            call_checked(fn, case)
        except Skip as sk:
            self.counters["skipped:" + sk.why] += 1
        except Violation as v:
            self.violation(case, v)

    def result(self):
        return {
            "subcheck": self.subcheck,
            "evaluations": self.evaluations,
            "nontrivial": self.nontrivial,
            "samples": self.samples,
            "counters": dict(self.counters),
            "violations": self.violations,
            "known_hits": dict(self.known_hits),
            "excluded": self.excluded,
            "exhaustive": self.exhaustive,
            "notes": self.notes,
            "inconclusive": self.inconclusive,
        }


# ----------------------------------------------------------------------------- guarded calls

def _pint_frame(tb) -> str:
    frames = traceback.extract_tb(tb)
    for fr in reversed(frames):
        fn = fr.filename.replace("\\", "/")
        if "/pint/" in fn and "/vf/" not in fn:
            return f"{os.path.basename(fn)}:{fr.name}"
    return ""


def call_checked(fn, case):
    """Run a case function.  An exception that is *raised inside pint* (innermost frame under the tree under test)
    and not anticipated by the check becomes a Violation bucketed by (type, pint frame); an exception raised by
    harness code propagates (exit 2)."""
    try:
        return fn(case)
    except (Violation, Skip, KeyboardInterrupt, SystemExit, MemoryError, HarnessError):
        raise
    except OverflowError as exc:
        raise Skip("float_range_overflow") from exc
    except RecursionError:
        raise
    except Exception as exc:  # noqa: BLE001
        frames = traceback.extract_tb(exc.__traceback__)
        inner = frames[-1].filename.replace("\\", "/") if frames else ""
        lib_inner = inner.startswith(REPO + "/") or "/fractions.py" in inner or "/decimal.py" in inner or "/numbers.py" in inner
        pf = _pint_frame(exc.__traceback__)
        if pf and lib_inner:
            raise Violation(f"unexpected_exception:{type(exc).__name__}@{pf}", f"{type(exc).__name__}: {exc}") from exc
        raise


def attempt(fn, *args, **kwargs):
    """Call fn; return ('ok', value) or ('err', exception).  Exceptions raised by harness code
    (no pint frame in the traceback at all) are re-raised: they are bugs of the check."""
    try:
        return "ok", fn(*args, **kwargs)
    except (Violation, Skip):
        raise
    except (KeyboardInterrupt, SystemExit, MemoryError):
        raise
    except OverflowError as exc:
        # the float range was exceeded in an intermediate result (e.g. planck_constant ** -12): a numeric-range
        # limit of the magnitude type, outside every listed statement; counted as skipped, never a verdict
        raise Skip("float_range_overflow") from exc
    except BaseException as exc:  # noqa: BLE001 - classification happens in the oracle
        exc._vf_frame = _pint_frame(exc.__traceback__)
        return "err", exc


def exc_class(exc) -> str:
    return f"{type(exc).__name__}@{getattr(exc, '_vf_frame', '')}"


def expect_ok(fn, *args, what="call", **kwargs):
    st, val = attempt(fn, *args, **kwargs)
    if st == "err":
        raise Violation(f"unexpected_exception:{exc_class(val)}", f"{what} raised {type(val).__name__}: {val}")
    return val


# ----------------------------------------------------------------------------- Hypothesis driver

def hyp_search(col: Collector, strategy, check_fn, *, max_examples: int, seed: int, shrink: bool = True,
               shrink_budget_s: float = 40.0, max_buckets: int = 4):
    """Generated-input search.  check_fn(case) raises Violation on failure.  Known findings are
    counted and do not stop the search.  On an unknown failure Hypothesis shrinks (time-boxed) and
    the search is restarted with that bucket muted, so several root causes can be reported."""
    import hypothesis
    from hypothesis import HealthCheck, Phase, given, settings

    muted: set[str] = set()
    rounds = 0
    budget = max_examples
    while rounds < max_buckets:
        rounds += 1
        state = {"best": None, "best_v": None, "t_first": None, "n": 0}

        phases = [Phase.generate, Phase.shrink] if shrink else [Phase.generate]

        @hypothesis.seed(seed + 7919 * (rounds - 1))
        @settings(max_examples=budget, database=None, deadline=None, derandomize=False,
                  report_multiple_bugs=False, print_blob=False, phases=phases,
                  suppress_health_check=[HealthCheck.too_slow, HealthCheck.data_too_large,
                                         HealthCheck.filter_too_much, HealthCheck.large_base_example])
        @given(strategy)
        def prop(case):
            state["n"] += 1
            over = state["t_first"] is not None and time.monotonic() - state["t_first"] > shrink_budget_s
            if over and enc(case) != state["best"]:
                return  # stop shrinking: everything but the best known failure passes
            try:
                call_checked(check_fn, case)
            except Skip as sk:
                col.counters["skipped:" + sk.why] += 1
            except Violation as v:
                if col.is_known(v):
                    col.known_hits[v.klass] += 1
                    return
                if v.klass in muted:
                    return
                if state["t_first"] is None:
                    state["t_first"] = time.monotonic()
                state["best"] = enc(case)
                state["best_case"] = case
                state["best_v"] = v
                raise

        try:
            prop()
        except Violation:
            v = state["best_v"]
            col.violation(state["best_case"], v)
            muted.add(v.klass)
            budget = max(50, max_examples // 4)
            continue
        except hypothesis.errors.Flaky as exc:
            v = state["best_v"]
            if v is None:  # nothing failed first: a non-deterministic generator is a harness bug
                raise HarnessError(f"flaky check in {col.subcheck}: {exc}") from exc
            # A case violated the property and passed when Hypothesis replayed it.  Every oracle here is a pure function of the answers of
            # the (cached, shared) registry, so the difference is state left behind in the library by earlier cases: the violation is real,
            # it needs that history to show.  It is reported with the case that failed; its replay file alone may pass.
            v2 = Violation(v.klass + ":depends_on_earlier_calls", v.msg + "  [the same case passes on a registry without the earlier calls of this run]")
            col.violation(state["best_case"], v2)
            muted.add(v.klass)
            budget = max(50, max_examples // 4)
            continue
        break
    return col


# ----------------------------------------------------------------------------- misc

def shard(seq, i, n):
    return seq[i::n]


def assert_tree():
    import pint

    p = os.path.realpath(pint.__file__)
    if not p.startswith(REPO + os.sep):
        raise HarnessError(f"pint imported from {p}, expected under {REPO}")
