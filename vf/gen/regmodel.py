"""Model-first generator of small unit registries: the model is the oracle, the renderer produces definition text in many layouts."""
from __future__ import annotations

from fractions import Fraction

from hypothesis import strategies as st

BASE_POOL = [("xm", "[xlen]"), ("xs", "[xtime]"), ("xg", "[xmass]"), ("xk", "[xtemp]")]
UNIT_NAMES = ["foo", "bar", "baz", "qux", "zap", "wib", "yon", "vex", "tor", "lum", "nid", "pok"]
SYMS = ["fo", "br", "bz", "qx", "zp", "wb", "yn", "vx", "tr", "lm", "nd", "pk"]
ALIASES = ["fooo", "barr", "bazz", "quxx", "zapp", "wibb", "yonn", "vexx", "torr", "lumm", "nidd", "pokk"]
PREFIXES = [("kila", "K", Fraction(1000)), ("mila", "M", Fraction(1, 1000)), ("hexa", "H", Fraction(16)), ("semo", None, Fraction(1, 2))]
GROUPS = ["ga", "gb", "gc", "gd"]
SYSTEMS = ["sysa", "sysb"]

FACTORS = [Fraction(2), Fraction(3), Fraction(1, 4), Fraction(5, 2), Fraction(12), Fraction(1, 1000), Fraction(254, 100), Fraction(7, 3), Fraction(1609344, 1000), Fraction(10)]


def fstr(f: Fraction, style: int = 0) -> str:
    """render a rational literal in one of several equivalent spellings"""
    if f.denominator == 1:
        return str(f.numerator) if style % 2 == 0 else f"{f.numerator}.0"
    # decimal if it terminates
    d = f.denominator
    while d % 2 == 0:
        d //= 2
    while d % 5 == 0:
        d //= 5
    if d == 1 and style % 3 != 2:
        from decimal import Decimal, getcontext

        getcontext().prec = 50
        s = format(Decimal(f.numerator) / Decimal(f.denominator), "f")
        return s
    return f"{f.numerator} / {f.denominator}"


@st.composite
def models(draw, with_groups=True, with_systems=True, with_offset=True, max_units=8):
    nbase = draw(st.integers(2, 3))
    base = BASE_POOL[:nbase]
    nunits = draw(st.integers(2, max_units))
    units = []
    names = [b[0] for b in base]
    for i in range(nunits):
        nrefs = draw(st.integers(1, 2))
        refs = {}
        for _ in range(nrefs):
            r = draw(st.sampled_from(names))
            refs[r] = refs.get(r, 0) + draw(st.sampled_from([1, 1, 2, -1, -2, 3]))
        refs = {k: v for k, v in refs.items() if v != 0} or {names[0]: 1}
        use_prefix_ref = draw(st.integers(0, 4)) == 0
        u = {"name": UNIT_NAMES[i], "factor": draw(st.sampled_from(FACTORS)), "refs": refs,
             "symbol": SYMS[i] if draw(st.booleans()) else None, "aliases": [ALIASES[i]] if draw(st.booleans()) else [],
             "prefixed_ref": use_prefix_ref}
        units.append(u)
        names.append(u["name"])
    nprefix = draw(st.integers(1, len(PREFIXES)))
    prefixes = [{"name": p[0], "symbol": p[1], "value": p[2], "aliases": ([p[0] + "x"] if draw(st.booleans()) else [])} for p in PREFIXES[:nprefix]]
    offsets = []
    if with_offset and nbase >= 3 or (with_offset and draw(st.booleans())):
        offsets.append({"name": "degx", "scale": draw(st.sampled_from([Fraction(1), Fraction(5, 9), Fraction(4, 5)])), "offset": draw(st.sampled_from([Fraction(27315, 100), Fraction(10), Fraction(-7, 2)])),
                        "ref": base[-1][0], "symbol": draw(st.sampled_from(["dgx", "dgx", None])), "aliases": draw(st.sampled_from([[], ["degxalias"]]))})
    groups = []
    if with_groups:
        ng = draw(st.integers(0, 4))
        pool = [u["name"] for u in units]
        for gi in range(ng):
            members = draw(st.lists(st.sampled_from(pool), min_size=1, max_size=3, unique=True)) if pool else []
            if gi and draw(st.integers(0, 9)) < 6:
                using = [GROUPS[gi - 1]]  # chains g3 -> g2 -> g1: membership must be transitive
            else:
                using = draw(st.lists(st.sampled_from(GROUPS[:gi]), max_size=2, unique=True)) if gi else []
            groups.append({"name": GROUPS[gi], "using": using, "members": members})
        # a unit may be listed in one group only (it is *defined* inside the block)
        seen = set()
        for g in groups:
            g["members"] = [m for m in g["members"] if not (m in seen or seen.add(m))]
    systems = []
    if with_systems and draw(st.booleans()):
        # 'new' rule form: a unit that is a pure power-1 multiple of one base unit
        # (also a unit that is a power 2 or 3 of one base unit, e.g. an area unit replacing the length unit: implicit rule form only)
        cands = [u for u in units if len(u["refs"]) == 1 and list(u["refs"].values())[0] in (1, 2, 3) and list(u["refs"])[0] in [b[0] for b in base] and not u["prefixed_ref"]]
        if cands:
            u = draw(st.sampled_from(cands))
            implicit = draw(st.booleans()) or list(u["refs"].values())[0] != 1
            systems.append({"name": SYSTEMS[0], "using": [g["name"] for g in groups[:1]], "rules": [[u["name"], None if implicit else list(u["refs"])[0]]]})
    defaults = None
    if groups and systems and draw(st.integers(0, 2)) == 0:
        # units written outside any @group block then belong to the default group (here the group at the bottom of the 'using' chains)
        defaults = {"group": groups[0]["name"], "system": systems[0]["name"]}
    dims = []
    if draw(st.booleans()):
        dims.append({"name": "[xspeed]", "expr": {base[0][1]: 1, base[1][1]: -1}})
    layout = {"perm": draw(st.permutations(list(range(len(units) + len(prefixes))))), "style": draw(st.integers(0, 5)), "comments": draw(st.booleans()),
              "spacing": draw(st.integers(0, 2)), "header_ws": draw(st.sampled_from([" ", " ", "  ", "\t", "   ", " \t"]))}
    return {"base": [list(b) for b in base], "units": units, "prefixes": prefixes, "offsets": offsets, "groups": groups, "systems": systems, "dims": dims, "layout": layout, "defaults": defaults}


# ------------------------------------------------------------------------------------- oracle side

def resolve(model):
    """{unit name: (factor to base units, {base unit: exponent})} incl. base units"""
    pre = {p["name"]: p["value"] for p in model["prefixes"]}
    out = {b[0]: (Fraction(1), {b[0]: Fraction(1)}) for b in model["base"]}
    for u in model["units"]:
        f = u["factor"]
        vec = {}
        for r, e in u["refs"].items():
            rf, rv = out[r]
            if u["prefixed_ref"] and r == sorted(u["refs"])[0] and model["prefixes"]:
                rf = rf * model["prefixes"][0]["value"]
            f *= rf ** e
            for k, x in rv.items():
                vec[k] = vec.get(k, 0) + x * e
        out[u["name"]] = (f, {k: x for k, x in vec.items() if x != 0})
    return out


def dims_of(model, vec):
    bd = {b[0]: b[1] for b in model["base"]}
    return {bd[k]: e for k, e in vec.items()}


def spellings(model):
    """{spelling: canonical name} for units"""
    out = {}
    for b in model["base"]:
        out[b[0]] = b[0]
    for u in model["units"]:
        out[u["name"]] = u["name"]
        if u["symbol"]:
            out[u["symbol"]] = u["name"]
        for a in u["aliases"]:
            out[a] = u["name"]
    for o in model["offsets"]:
        out[o["name"]] = o["name"]
        if o["symbol"]:
            out[o["symbol"]] = o["name"]
        for a in o.get("aliases", []):
            out[a] = o["name"]
    return out


def group_members(model, g, _stack=()):
    gd = next(x for x in model["groups"] if x["name"] == g)
    out = set(gd["members"])
    if (model.get("defaults") or {}).get("group") == g:
        grouped = {m for x in model["groups"] for m in x["members"]}
        out |= {b[0] for b in model["base"]} | {u["name"] for u in model["units"] if u["name"] not in grouped} | {o["name"] for o in model["offsets"]}
    for h in gd["using"]:
        out |= group_members(model, h, _stack + (g,))
    return out


# ------------------------------------------------------------------------------------- rendering

def alias_directive(model, u):
    """aliases of this unit are written as a separate '@alias' directive (layout styles 4 and 5, every unit with an even index)"""
    return bool(u["aliases"]) and model["layout"]["style"] >= 4 and [x["name"] for x in model["units"]].index(u["name"]) % 2 == 0


def unit_line(model, u, style):
    sp = [" * ", "*", " * "][style % 3]
    terms = []
    first = sorted(u["refs"])[0]
    for r in sorted(u["refs"]):
        e = u["refs"][r]
        name = r
        if u["prefixed_ref"] and r == first and model["prefixes"]:
            name = model["prefixes"][0]["name"] + r
        terms.append(name if e == 1 else f"{name} ** {e}" if style % 2 == 0 else f"{name}**{e}")
    rhs = fstr(u["factor"], style) + sp + sp.join(terms) if not (u["factor"] == 1 and style % 2) else sp.join(terms)
    parts = [u["name"], rhs]
    aliases = [] if alias_directive(model, u) else u["aliases"]
    if u["symbol"] or aliases:
        parts.append(u["symbol"] or "_")
    parts += aliases
    return " = ".join(parts) if style % 3 != 1 else "  =  ".join(parts)


def prefix_line(p, style):
    parts = [p["name"] + "-", fstr(p["value"], style)]
    if p["symbol"] or p["aliases"]:
        parts.append((p["symbol"] + "-") if p["symbol"] else "_")
    parts += [a + "-" for a in p["aliases"]]
    return " = ".join(parts)


def render(model, *, permute=True, split_import=False):
    """Returns (lines, extra_files) — extra_files maps file name to lines for @import"""
    lay = model["layout"]
    style = lay["style"]
    lines = []
    if lay["comments"]:
        lines.append("# generated registry")
    if model.get("defaults"):
        lines += ["@defaults", f"    group = {model['defaults']['group']}", f"    system = {model['defaults']['system']}", "@end"]
    for b in model["base"]:
        lines.append(f"{b[0]} = {b[1]}")
    for d in model["dims"]:
        rhs = " * ".join(f"{k} ** {e}" if e != 1 else k for k, e in d["expr"].items())
        lines.append(f"{d['name']} = {rhs}")
    grouped = {m for g in model["groups"] for m in g["members"]}
    top = [("u", u) for u in model["units"] if u["name"] not in grouped] + [("p", p) for p in model["prefixes"]]
    if permute:
        order = [i for i in lay["perm"] if i < len(top)]
        order += [i for i in range(len(top)) if i not in order]
        top = [top[i] for i in order]
    body = []
    for kind, x in top:
        line = unit_line(model, x, style) if kind == "u" else prefix_line(x, style)
        if lay["comments"] and len(body) % 2 == 0:
            line += "   # trailing comment"
        body.append(line)
        if lay["spacing"] == 1:
            body.append("")
    for o in model["offsets"]:
        tail = "".join(f" = {x}" for x in ([o["symbol"] or "_"] + list(o.get("aliases", []))) if o["symbol"] or o.get("aliases"))
        body.append(f"{o['name']} = {fstr(o['scale'], style)} * {o['ref']}; offset: {fstr(o['offset'], style)}{tail}")
    blocks = []
    umap = {u["name"]: u for u in model["units"]}
    for g in model["groups"]:
        hw = lay.get("header_ws", " ")  # column-aligned headers: any run of blanks / tabs separates the words of a block header
        head = f"@group{hw}{g['name']}" + (f"{hw}using{hw}{', '.join(g['using'])}" if g["using"] else "")
        blocks.append(head)
        for m in g["members"]:
            blocks.append("    " + unit_line(model, umap[m], style))
        blocks.append("@end")
    for s in model["systems"]:
        hw = lay.get("header_ws", " ")
        head = f"@system{hw}{s['name']}" + (f"{hw}using{hw}{', '.join(s['using'])}" if s["using"] else "")
        blocks.append(head)
        for new, old in s["rules"]:
            blocks.append(f"    {new}: {old}" if old else f"    {new}")
        blocks.append("@end")
    # '@alias' directives come after every unit they name (also after the units defined inside group blocks)
    tail = [f"@alias {u['name']} = " + " = ".join(u["aliases"]) for u in model["units"] if alias_directive(model, u)]
    if split_import:
        return lines + ["@import extra_defs.txt"] + blocks + tail, {"extra_defs.txt": body}
    return lines + body + blocks + tail, {}
