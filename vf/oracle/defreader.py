"""R: an independent reader of pint definition files.

Shares no code with pint (own line splitter, tokenizer, precedence-climbing parser, resolver).
All arithmetic is exact (fractions.Fraction); a non-integer power of a scale that is not a perfect
power switches that value to a 60-digit Decimal and marks it `irrational`.  pint computes *every*
fractional power of a scale in floating point, so values reached through one also carry
`tainted=True` and are compared with a float tolerance by the checks.
"""
from __future__ import annotations

import os
import re
from dataclasses import dataclass, field
from decimal import Decimal, localcontext, Context
from fractions import Fraction

PREC = 60
_CTX = Context(prec=PREC)


def _todec(x):
    if isinstance(x, Decimal):
        return x
    return _CTX.divide(Decimal(x.numerator), Decimal(x.denominator))


def _iroot(n: int, k: int):
    """exact integer k-th root of n >= 0 or None"""
    if n < 0:
        return None
    if n in (0, 1):
        return n
    lo, hi = 0, 1 << ((n.bit_length() + k - 1) // k + 1)
    while lo < hi:
        mid = (lo + hi) // 2
        if mid ** k < n:
            lo = mid + 1
        else:
            hi = mid
    return lo if lo ** k == n else None


class V:
    """scale * prod(name ** exponent).  scale is Fraction (exact) or Decimal (irrational)."""

    __slots__ = ("scale", "units", "tainted", "nops")

    def __init__(self, scale=Fraction(1), units=None, tainted=False, nops=0):
        self.scale = scale
        self.units = {k: v for k, v in (units or {}).items() if v != 0}
        self.tainted = tainted
        self.nops = nops

    @property
    def irrational(self):
        return isinstance(self.scale, Decimal)

    def is_number(self):
        return not self.units

    def _mulscale(self, a, b):
        if isinstance(a, Fraction) and isinstance(b, Fraction):
            return a * b
        return _CTX.multiply(_todec(a), _todec(b))

    def __mul__(self, o: "V"):
        u = dict(self.units)
        for k, v in o.units.items():
            u[k] = u.get(k, 0) + v
        return V(self._mulscale(self.scale, o.scale), u, self.tainted or o.tainted, self.nops + o.nops + 1)

    def inv(self):
        if isinstance(self.scale, Fraction):
            s = 1 / self.scale
        else:
            s = _CTX.divide(Decimal(1), self.scale)
        return V(s, {k: -v for k, v in self.units.items()}, self.tainted, self.nops)

    def __truediv__(self, o: "V"):
        return self * o.inv()

    def __pow__(self, e: Fraction):
        u = {k: v * e for k, v in self.units.items()}
        s = self.scale
        tainted = self.tainted
        if e.denominator == 1:
            n = e.numerator
            if isinstance(s, Fraction):
                ns = s ** n
            else:
                ns = _CTX.power(s, n)
        else:
            if s != 1:
                tainted = True
            if s < 0:
                raise DefError("fractional power of a negative scale")
            if isinstance(s, Fraction):
                small = e.denominator <= 64  # exponents that come from floats (0.1 -> x/2**55) are not searched for exact roots
                rn = _iroot(s.numerator, e.denominator) if s > 0 and small else None
                rd = _iroot(s.denominator, e.denominator) if s > 0 and small else None
                if rn is not None and rd is not None:
                    ns = Fraction(rn, rd) ** e.numerator
                else:
                    with localcontext(_CTX):
                        ns = _todec(s) ** _todec(e)
            else:
                with localcontext(_CTX):
                    ns = s ** _todec(e)
        return V(ns, u, tainted, self.nops + 1)

    def add(self, o: "V", sign=1):
        if self.units or o.units:
            raise DefError("addition of non-numbers in a definition")
        if isinstance(self.scale, Fraction) and isinstance(o.scale, Fraction):
            return V(self.scale + sign * o.scale, {}, self.tainted or o.tainted, self.nops + o.nops)
        return V(_CTX.add(_todec(self.scale), sign * _todec(o.scale)), {}, True, self.nops + o.nops)


class DefError(Exception):
    pass


# ------------------------------------------------------------------------------- expressions

_TOK = re.compile(
    r"\s*(?:(?P<num>(?:\d+\.?\d*|\.\d+)(?:[eE][+-]?\d+)?)"
    r"|(?P<name>\[[^\]]*\]|[^\W\d]\w*)"
    r"|(?P<op>\*\*|\^|[*/+\-()]))"
)


def tokenize(s: str):
    pos, out = 0, []
    s = s.rstrip()
    while pos < len(s):
        m = _TOK.match(s, pos)
        if not m or m.end() == pos:
            raise DefError(f"cannot tokenize {s!r} at {pos}")
        pos = m.end()
        if m.group("num") is not None:
            out.append(("num", m.group("num")))
        elif m.group("name") is not None:
            out.append(("name", m.group("name")))
        else:
            op = m.group("op")
            out.append(("op", "**" if op == "^" else op))
    return out


class _Parser:
    """expr := term (('+'|'-') term)* ; term := unary (('*'|'/'|<juxtaposition>) unary)* ;
    unary := ('+'|'-') unary | power ; power := atom ('**' unary)?   (right assoc, as Python)"""

    def __init__(self, toks):
        self.t = toks
        self.i = 0

    def peek(self):
        return self.t[self.i] if self.i < len(self.t) else (None, None)

    def take(self):
        tok = self.t[self.i]
        self.i += 1
        return tok

    def parse(self):
        v = self.expr()
        if self.i != len(self.t):
            raise DefError("trailing tokens")
        return v

    def expr(self):
        v = self.term()
        while self.peek() in (("op", "+"), ("op", "-")):
            sign = 1 if self.take()[1] == "+" else -1
            v = v.add(self.term(), sign)
        return v

    def term(self):
        v = self.unary()
        while True:
            k, s = self.peek()
            if (k, s) == ("op", "*"):
                self.take()
                v = v * self.unary()
            elif (k, s) == ("op", "/"):
                self.take()
                v = v / self.unary()
            elif k in ("num", "name") or (k, s) == ("op", "("):
                v = v * self.unary()  # juxtaposition
            else:
                return v

    def unary(self):
        k, s = self.peek()
        if (k, s) == ("op", "-"):
            self.take()
            u = self.unary()
            return V(-u.scale, u.units, u.tainted, u.nops)
        if (k, s) == ("op", "+"):
            self.take()
            return self.unary()
        return self.power()

    def power(self):
        base = self.atom()
        if self.peek() == ("op", "**"):
            self.take()
            e = self.unary()
            if e.units or not isinstance(e.scale, Fraction):
                raise DefError("exponent must be a rational number")
            return base ** e.scale
        return base

    def atom(self):
        k, s = self.take() if self.i < len(self.t) else (None, None)
        if k == "num":
            return V(Fraction(s))
        if k == "name":
            return V(Fraction(1), {s: Fraction(1)})
        if (k, s) == ("op", "("):
            v = self.expr()
            if self.peek() != ("op", ")"):
                raise DefError("missing )")
            self.take()
            return v
        raise DefError(f"unexpected token {s!r}")


def parse_expr(s: str) -> V:
    return _Parser(tokenize(s)).parse()


# ------------------------------------------------------------------------------- file model

@dataclass
class UnitDef:
    name: str
    symbol: str | None
    aliases: list
    expr: V
    modifiers: dict
    is_base: bool
    raw: str = ""

    @property
    def kind(self):
        if "logbase" in self.modifiers:
            return "log"
        if "offset" in self.modifiers and self.modifiers["offset"].scale != 0:
            return "offset"
        return "base" if self.is_base else "scale"

    @property
    def spellings(self):
        out = [self.name]
        if self.symbol:
            out.append(self.symbol)
        out += self.aliases
        return out


@dataclass
class PrefixDef:
    name: str
    symbol: str | None
    aliases: list
    value: Fraction

    @property
    def spellings(self):
        out = [self.name]
        if self.symbol:
            out.append(self.symbol)
        out += self.aliases
        return out


@dataclass
class GroupDef:
    name: str
    using: list
    units: list


@dataclass
class SystemDef:
    name: str
    using: list
    rules: list  # (new, old|None)


@dataclass
class ContextDef:
    name: str
    aliases: list
    defaults: dict
    relations: list  # (src V, dst V, bidirectional, equation str)
    redefinitions: list  # (name, expr str)


@dataclass
class Resolved:
    name: str
    factor: object  # Fraction | Decimal, to root units
    root: dict  # root unit name -> Fraction
    dim: dict  # base dimension -> Fraction
    tainted: bool
    nops: int
    depth: int

    @property
    def irrational(self):
        return isinstance(self.factor, Decimal)


def _strip_comment(line: str) -> str:
    return line.split("#", 1)[0].rstrip()


class Reader:
    def __init__(self):
        self.units: dict[str, UnitDef] = {}  # canonical name -> def (file order)
        self.prefixes: dict[str, PrefixDef] = {}
        self.dimensions: dict[str, V] = {}  # derived "[x]" -> V over dims
        self.base_dims: list[str] = []
        self.groups: dict[str, GroupDef] = {}
        self.systems: dict[str, SystemDef] = {}
        self.contexts: dict[str, ContextDef] = {}
        self.defaults: dict[str, str] = {}
        self.spell: dict[str, str] = {}  # unit spelling -> canonical name (later definitions win)
        self.pspell: dict[str, str] = {}  # prefix spelling -> canonical prefix name
        self._res: dict[str, Resolved] = {}

    # --------------------------------------------------------------------------- reading
    def read_file(self, path: str):
        with open(path, encoding="utf-8") as fh:
            self.read_lines(fh.read().splitlines(), os.path.dirname(path))
        return self

    def read_lines(self, lines, basedir=None):
        i = 0
        n = len(lines)
        while i < n:
            line = _strip_comment(lines[i]).strip()
            i += 1
            if not line:
                continue
            if line.startswith("@import"):
                self.read_file(os.path.join(basedir, line.split(None, 1)[1].strip()))
                continue
            if line.startswith("@alias"):
                parts = [p.strip() for p in line[len("@alias"):].split("=")]
                target = self.spell[parts[0]]
                for a in parts[1:]:
                    self.units[target].aliases.append(a)
                    self.spell[a] = target
                continue
            if line.startswith("@"):
                head = line
                body = []
                while True:
                    if i >= n:
                        raise DefError(f"unterminated block {head!r}")
                    l2 = _strip_comment(lines[i]).strip()
                    i += 1
                    if l2 == "@end":
                        break
                    if l2:
                        body.append(l2)
                self._block(head, body)
                continue
            self._statement(line)
        return self

    def _block(self, head, body):
        if head.startswith("@defaults"):
            for l in body:
                k, v = [p.strip() for p in l.split("=", 1)]
                self.defaults[k] = v
        elif head.startswith("@group"):
            m = re.match(r"@group\s+(\w+)(?:\s+using\s+(.*))?$", head)
            if not m:
                raise DefError(head)
            using = [s.strip() for s in m.group(2).split(",")] if m.group(2) else []
            names = [self._statement(l) for l in body]
            self.groups[m.group(1)] = GroupDef(m.group(1), using, names)
        elif head.startswith("@system"):
            m = re.match(r"@system\s+(\w+)(?:\s+using\s+(.*))?$", head)
            if not m:
                raise DefError(head)
            # documented in the parser and docs: a system without `using` uses the root group
            using = [s.strip() for s in m.group(2).split(",")] if m.group(2) else ["root"]
            rules = []
            for l in body:
                if ":" in l:
                    a, b = [p.strip() for p in l.split(":", 1)]
                    rules.append((a, b))
                else:
                    rules.append((l.strip(), None))
            self.systems[m.group(1)] = SystemDef(m.group(1), using, rules)
        elif head.startswith("@context"):
            m = re.match(r"@context\s*(?:\((.*?)\))?\s*(.*)$", head)
            defaults = {}
            if m.group(1):
                for kv in m.group(1).split(","):
                    k, v = kv.split("=")
                    defaults[k.strip()] = parse_expr(v.strip())
            names = [p.strip() for p in m.group(2).split("=")]
            rel, red = [], []
            for l in body:
                mm = re.match(r"(.+?)\s*(<->|->)\s*(.+?)\s*:\s*(.+)$", l)
                if mm:
                    rel.append((parse_expr(mm.group(1)), parse_expr(mm.group(3)), mm.group(2) == "<->", mm.group(4).strip()))
                elif "=" in l:
                    k, v = [p.strip() for p in l.split("=", 1)]
                    red.append((k, v))
                else:
                    raise DefError(f"context line {l!r}")
            self.contexts[names[0]] = ContextDef(names[0], names[1:], defaults, rel, red)
        else:
            raise DefError(f"unknown directive {head!r}")

    def _statement(self, line: str):
        parts = [p.strip() for p in line.split("=")]
        if len(parts) < 2:
            raise DefError(f"no '=' in {line!r}")
        name = parts[0]
        if name.startswith("["):
            self.dimensions[name] = parse_expr(parts[1])
            return name
        if name.endswith("-"):
            val = parse_expr(parts[1])
            if val.units or not isinstance(val.scale, Fraction):
                raise DefError(f"prefix value {parts[1]!r}")
            sym = parts[2].rstrip("-") if len(parts) > 2 and parts[2] != "_" else None
            aliases = [a.rstrip("-") for a in parts[3:]]
            p = PrefixDef(name.rstrip("-"), sym, aliases, val.scale)
            self.prefixes[p.name] = p
            for s in p.spellings:
                self.pspell[s] = p.name
            return name
        rhs = parts[1]
        mods = {}
        if ";" in rhs:
            rhs, *modparts = [p.strip() for p in rhs.split(";")]
            for mp_ in modparts:
                k, v = [p.strip() for p in mp_.split(":", 1)]
                mods[k] = parse_expr(v)
        expr = parse_expr(rhs)
        is_base = bool(expr.units) and all(k.startswith("[") for k in expr.units)
        sym = parts[2] if len(parts) > 2 and parts[2] != "_" else None
        aliases = [a for a in parts[3:] if a != "_"]
        u = UnitDef(name, sym, aliases, expr, mods, is_base, line)
        self.units[name] = u
        if is_base:
            for d in expr.units:
                if d not in self.base_dims and d not in self.dimensions:
                    self.base_dims.append(d)
        for s in u.spellings:
            self.spell[s] = name
        return name

    # --------------------------------------------------------------------------- name resolution
    def readings(self, s: str):
        """All (prefix canonical name, unit canonical name) with s = p + u [+ 's'] (p may be '')."""
        out = []
        for suffix in ("", "s"):
            if suffix and not s.endswith("s"):
                continue
            stem_all = s[: len(s) - len(suffix)] if suffix else s
            for p in [""] + list(self.pspell):
                if not stem_all.startswith(p):
                    continue
                stem = stem_all[len(p):]
                if suffix and len(stem) == 1:
                    continue
                if stem in self.spell:
                    r = (self.pspell[p] if p else "", self.spell[stem])
                    if r not in out:
                        out.append(r)
        return out

    def readings_ci(self, s: str):
        """Case-insensitive readings: the prefix is matched exactly (as written), the unit part and nothing else
        is compared after lower-casing (documented: 'accepts unit spellings that differ ... in letter case')."""
        if not hasattr(self, "_ci"):
            self._ci = {}
            for sp, c in self.spell.items():
                self._ci.setdefault(sp.lower(), set()).add(c)
        out = []
        for suffix in ("", "s"):
            if suffix and not s.endswith("s"):
                continue
            stem_all = s[: len(s) - len(suffix)] if suffix else s
            for p in [""] + list(self.pspell):
                if not stem_all.startswith(p):
                    continue
                stem = stem_all[len(p):]
                if suffix and len(stem) == 1:
                    continue
                for c in sorted(self._ci.get(stem.lower(), ())):
                    r = (self.pspell[p] if p else "", c)
                    if r not in out:
                        out.append(r)
        return out

    def lookup(self, s: str):
        """(prefix value, canonical unit) for a reference inside a definition."""
        if s in self.spell:
            return Fraction(1), self.spell[s]
        rs = self.readings(s)
        if not rs:
            raise DefError(f"undefined reference {s!r}")
        p, u = rs[0]
        return (self.prefixes[p].value if p else Fraction(1)), u

    # --------------------------------------------------------------------------- resolution
    def dim_of_dimexpr(self, v: V, _stack=()):
        out: dict[str, Fraction] = {}
        for d, e in v.units.items():
            if d == "[]":
                continue
            if d in self.dimensions:
                if d in _stack:
                    raise DefError(f"cyclic dimension {d}")
                sub = self.dim_of_dimexpr(self.dimensions[d], _stack + (d,))
                for k, x in sub.items():
                    out[k] = out.get(k, 0) + x * e
            else:
                out[d] = out.get(d, 0) + e
        return {k: x for k, x in out.items() if x != 0}

    def resolve(self, name: str, _stack=()) -> Resolved:
        """Expand canonical unit `name` through its written chain down to root units."""
        if name in self._res:
            return self._res[name]
        if name in _stack:
            raise DefError(f"cyclic definition {name}")
        u = self.units[name]
        if u.is_base:
            r = Resolved(name, Fraction(1), {name: Fraction(1)}, self.dim_of_dimexpr(u.expr), False, 0, 0)
        else:
            acc = V(u.expr.scale, {}, u.expr.tainted, u.expr.nops)
            root: dict[str, Fraction] = {}
            dim: dict[str, Fraction] = {}
            depth = 0
            for ref, e in u.expr.units.items():
                pval, cu = self.lookup(ref)
                sub = self.resolve(cu, _stack + (name,))
                depth = max(depth, sub.depth)
                f = V(sub.factor, {}, sub.tainted or (e.denominator != 1 and not self.units[cu].is_base), sub.nops) * V(pval)
                acc = acc * (f ** e)
                for k, x in sub.root.items():
                    root[k] = root.get(k, 0) + x * e
                for k, x in sub.dim.items():
                    dim[k] = dim.get(k, 0) + x * e
            r = Resolved(name, acc.scale, {k: x for k, x in root.items() if x != 0},
                         {k: x for k, x in dim.items() if x != 0}, acc.tainted, acc.nops, depth + 1)
        self._res[name] = r
        return r

    def resolve_spelling(self, s: str) -> Resolved:
        """Resolved record for any readable spelling (canonical name, alias, symbol, prefix+unit)."""
        if s in self.units:
            return self.resolve(s)
        f, root, dim, tainted, nops = self.resolve_compound({s: 1})
        return Resolved(s, f, root, dim, tainted, nops, 1)

    def resolve_compound(self, units: dict):
        """units: {spelling: exponent}.  Returns (factor, root vector, dim vector, tainted, nops)."""
        acc = V()
        root, dim = {}, {}
        for s, e in units.items():
            e = Fraction(e)
            pval, cu = self.lookup(s)
            sub = self.resolve(cu)
            # pint evaluates scale ** e in floating point for every non-base unit when e is not an integer
            taint = sub.tainted or (e.denominator != 1 and not (self.units[cu].is_base and pval == 1))
            acc = acc * ((V(sub.factor, {}, taint, sub.nops) * V(pval)) ** e)
            for k, x in sub.root.items():
                root[k] = root.get(k, 0) + x * e
            for k, x in sub.dim.items():
                dim[k] = dim.get(k, 0) + x * e
        return (acc.scale, {k: x for k, x in root.items() if x != 0}, {k: x for k, x in dim.items() if x != 0},
                acc.tainted, acc.nops)

    # --------------------------------------------------------------------------- groups / systems
    def group_members(self, g: str, _stack=()):
        if g == "root":
            return set(self.units)
        if g in _stack:
            raise DefError("cyclic groups")
        if g == self.defaults.get("group") and g not in self.groups:
            gd = GroupDef(g, [], [])
        else:
            gd = self.groups[g]
        out = set(gd.units)
        for h in gd.using:
            out |= self.group_members(h, _stack + (g,))
        if g == self.defaults.get("group"):
            # pint: units not defined inside any declared group go to the default group
            grouped = set()
            for h in self.groups.values():
                grouped |= set(h.units)
            out |= set(self.units) - grouped
        return out

    def system_members(self, s: str):
        out = set()
        for g in self.systems[s].using:
            out |= self.group_members(g)
        return out

    def offset_of(self, name):
        u = self.units[name]
        return u.modifiers["offset"].scale if "offset" in u.modifiers else None


_DEFAULT = None


def default_reader(repo=None) -> Reader:
    """R over the bundled default_en.txt (+ constants_en.txt through @import) of the tree under test."""
    global _DEFAULT
    if _DEFAULT is None:
        repo = repo or os.environ.get("VERIF_REPO", "/repo")
        _DEFAULT = Reader().read_file(os.path.join(repo, "pint", "default_en.txt"))
        for n in _DEFAULT.units:
            _DEFAULT.resolve(n)
    return _DEFAULT
