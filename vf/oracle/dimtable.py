"""Derived dimension names and their SI base exponents (metre, kilogram, second, ampere, kelvin, mole, candela), written down from the SI brochure
(9th ed., tables 4-6) and textbook definitions — NOT read from pint's definition files: a reader of the same files cannot see a wrong line in them."""

_B = ("meter", "kilogram", "second", "ampere", "kelvin", "mole", "candela")


def _d(m=0, kg=0, s=0, A=0, K=0, mol=0, cd=0):
    return {k: v for k, v in zip(_B, (m, kg, s, A, K, mol, cd)) if v}


NAMED_DIMS = {
    "[area]": _d(m=2), "[volume]": _d(m=3), "[frequency]": _d(s=-1), "[wavenumber]": _d(m=-1), "[velocity]": _d(m=1, s=-1), "[speed]": _d(m=1, s=-1),
    "[volumetric_flow_rate]": _d(m=3, s=-1), "[acceleration]": _d(m=1, s=-2), "[force]": _d(m=1, kg=1, s=-2), "[energy]": _d(m=2, kg=1, s=-2), "[power]": _d(m=2, kg=1, s=-3),
    "[momentum]": _d(m=1, kg=1, s=-1), "[density]": _d(m=-3, kg=1), "[pressure]": _d(m=-1, kg=1, s=-2), "[torque]": _d(m=2, kg=1, s=-2), "[viscosity]": _d(m=-1, kg=1, s=-1),
    "[kinematic_viscosity]": _d(m=2, s=-1), "[fluidity]": _d(m=1, kg=-1, s=1), "[concentration]": _d(m=-3, mol=1), "[activity]": _d(s=-1, mol=1), "[entropy]": _d(m=2, kg=1, s=-2, K=-1),
    "[molar_entropy]": _d(m=2, kg=1, s=-2, K=-1, mol=-1), "[heat_transmission]": _d(kg=1, s=-2), "[luminance]": _d(m=-2, cd=1), "[luminous_flux]": _d(cd=1), "[illuminance]": _d(m=-2, cd=1),
    "[intensity]": _d(kg=1, s=-3), "[charge]": _d(s=1, A=1), "[electric_potential]": _d(m=2, kg=1, s=-3, A=-1), "[electric_field]": _d(m=1, kg=1, s=-3, A=-1),
    "[electric_displacement_field]": _d(m=-2, s=1, A=1), "[reduced_electric_field]": _d(m=3, kg=1, s=-3, A=-1), "[resistance]": _d(m=2, kg=1, s=-3, A=-2), "[resistivity]": _d(m=3, kg=1, s=-3, A=-2),
    "[conductance]": _d(m=-2, kg=-1, s=3, A=2), "[conductivity]": _d(m=-3, kg=-1, s=3, A=2), "[capacitance]": _d(m=-2, kg=-1, s=4, A=2), "[magnetic_flux]": _d(m=2, kg=1, s=-2, A=-1),
    "[inductance]": _d(m=2, kg=1, s=-2, A=-2), "[magnetic_field]": _d(kg=1, s=-2, A=-1), "[magnetomotive_force]": _d(A=1), "[magnetic_field_strength]": _d(m=-1, A=1),
    "[electric_dipole]": _d(m=1, s=1, A=1), "[electric_quadrupole]": _d(m=2, s=1, A=1), "[magnetic_dipole]": _d(m=2, A=1), "[refractive_index]": {}, "[absorbance]": {},
    "[membrane_flux]": _d(m=1, s=-1), "[membrane_permeability]": _d(m=2, kg=-1, s=1),
}
# SI coherent derived units with special names, in base units (SI brochure table 4)
NAMED_UNITS = {
    "hertz": _d(s=-1), "newton": _d(m=1, kg=1, s=-2), "pascal": _d(m=-1, kg=1, s=-2), "joule": _d(m=2, kg=1, s=-2), "watt": _d(m=2, kg=1, s=-3), "coulomb": _d(s=1, A=1),
    "volt": _d(m=2, kg=1, s=-3, A=-1), "farad": _d(m=-2, kg=-1, s=4, A=2), "ohm": _d(m=2, kg=1, s=-3, A=-2), "siemens": _d(m=-2, kg=-1, s=3, A=2), "weber": _d(m=2, kg=1, s=-2, A=-1),
    "tesla": _d(kg=1, s=-2, A=-1), "henry": _d(m=2, kg=1, s=-2, A=-2), "lux": _d(m=-2, cd=1), "becquerel": _d(s=-1), "gray": _d(m=2, s=-2), "sievert": _d(m=2, s=-2), "katal": _d(s=-1, mol=1),
}
BASE_DIM = {"meter": "[length]", "kilogram": "[mass]", "second": "[time]", "ampere": "[current]", "kelvin": "[temperature]", "mole": "[substance]", "candela": "[luminosity]"}
