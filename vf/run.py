"""CLI:  python -m vf.run <Cnn> [--tier quick|thorough] [--replay file] [--sub name] [--jobs N]

Exit 0: property held on everything explored (known findings are reported as KNOWN-FINDING lines).
Exit 1: a violation not listed in known_findings.json, with `VIOLATION property=<id> replay=<path>`.
Exit 2: harness problem (never reported as a violation).
"""
from __future__ import annotations

import argparse
import importlib
import json
import os
import sys
import time
import traceback
from collections import Counter
from concurrent.futures import ProcessPoolExecutor, as_completed
import multiprocessing as mp

from . import core
from .core import Collector, HarnessError, Violation, dec, enc


def _worker(modname, task, tier, seed, known_classes):
    try:
        core.assert_tree()
        mod = importlib.import_module(modname)
        col = Collector(mod.PROPERTY, task["sub"], known_classes)
        t0 = time.monotonic()
        mod.run_task(task, tier, seed, col)
        res = col.result()
        res["wall"] = time.monotonic() - t0
        res["task"] = {k: v for k, v in task.items() if isinstance(v, (int, str, float, bool))}
        return res
    except BaseException as exc:  # noqa: BLE001
        return {"harness_error": f"{type(exc).__name__}: {exc}\n{traceback.format_exc()}", "task": task.get("sub")}


def _witness_worker(modname, sub, case_enc):
    try:
        core.assert_tree()
        mod = importlib.import_module(modname)
        try:
            mod.replay(sub, dec(case_enc))
        except Violation as v:
            return {"klass": v.klass, "msg": v.msg}
        except core.Skip:
            return {"klass": None}
        return {"klass": None}
    except BaseException as exc:  # noqa: BLE001
        return {"harness_error": f"{type(exc).__name__}: {exc}\n{traceback.format_exc()}"}


def main(argv=None):
    ap = argparse.ArgumentParser()
    ap.add_argument("prop")
    ap.add_argument("--tier", default=os.environ.get("VERIF_TIER", "quick"), choices=["quick", "thorough"])
    ap.add_argument("--replay")
    ap.add_argument("--sub", action="append")
    ap.add_argument("--jobs", type=int, default=int(os.environ.get("VERIF_JOBS", "16")))
    args = ap.parse_args(argv)

    prop = args.prop.upper()
    modname = f"vf.props.{prop.lower()}"
    seed = int(os.environ.get("VERIF_SEED", "1") or "1")
    t_start = time.monotonic()

    try:
        core.assert_tree()
        mod = importlib.import_module(modname)
    except Exception as exc:  # noqa: BLE001
        print(f"HARNESS-ERROR property={prop} {type(exc).__name__}: {exc}")
        traceback.print_exc()
        return 2

    # ------------------------------------------------------------------ replay mode
    if args.replay:
        with open(args.replay) as fh:
            rec = json.load(fh)
        try:
            mod.replay(rec["subcheck"], dec(rec["case"]))
        except Violation as v:
            print(f"replay: {v.klass}: {v.msg}")
            print(f"VIOLATION property={prop} replay={args.replay}")
            return 1
        except core.Skip as sk:
            print(f"replay: case lies outside the checked domain on this tree ({sk})")
            return 0
        print(f"replay: case passes on this tree ({rec.get('klass')})")
        return 0

    ctx = mp.get_context("fork")
    known_entries = core.load_known(prop)
    active_known: dict[str, dict] = {}
    harness_errors: list[str] = []

    with ProcessPoolExecutor(max_workers=args.jobs, mp_context=ctx) as pool:
        # -------------------------------------------------------------- witnesses of known findings
        wfut = {}
        for e in known_entries:
            if e.get("status") != "known":
                continue
            wfut[pool.submit(_witness_worker, modname, e["subcheck"], e["witness"])] = e
        tasks = mod.tasks(args.tier, seed)
        if args.sub:
            tasks = [t for t in tasks if t["sub"] in args.sub]
        for f in as_completed(wfut):
            e = wfut[f]
            r = f.result()
            if "harness_error" in r:
                harness_errors.append(r["harness_error"])
            elif r["klass"] == e["klass"]:
                active_known[e["klass"]] = e
                print(f"KNOWN-FINDING: property={prop} {e['key']}: {e['what']}")
            elif r["klass"] is None:
                print(f"note: known finding {e['key']} no longer reproduces on this tree; nothing is suppressed for it")
            else:
                print(f"note: witness of {e['key']} now fails differently ({r['klass']}); nothing is suppressed for it")
        sys.stdout.flush()

        known_classes = tuple(active_known)
        futs = [pool.submit(_worker, modname, t, args.tier, seed, known_classes) for t in tasks]
        results = []
        for f in as_completed(futs):
            r = f.result()
            if "harness_error" in r:
                harness_errors.append(f"[{r.get('task')}] {r['harness_error']}")
            else:
                results.append(r)

    if harness_errors:
        for h in harness_errors[:5]:
            print("HARNESS-ERROR", h)
        print(f"HARNESS-ERROR property={prop}: {len(harness_errors)} task(s) failed inside the harness")
        return 2

    # ------------------------------------------------------------------ merge
    results.sort(key=lambda r: (r["subcheck"], json.dumps(r["task"], sort_keys=True)))
    subs: dict[str, dict] = {}
    nontrivial_all = set()
    violations: list[dict] = []
    known_hits: Counter = Counter()
    excluded = 0
    evaluations = 0
    samples = []
    for r in results:
        s = subs.setdefault(r["subcheck"], {"evaluations": 0, "nontrivial": set(), "counters": Counter(),
                                           "exhaustive": None, "notes": [], "wall_cpu_s": 0.0, "samples": []})
        s["evaluations"] += r["evaluations"]
        s["nontrivial"] |= {(r["subcheck"], h) for h in r["nontrivial"]}
        s["counters"].update(r["counters"])
        s["wall_cpu_s"] += r["wall"]
        if r["exhaustive"] is not None:
            s["exhaustive"] = r["exhaustive"] if s["exhaustive"] is None else (s["exhaustive"] and r["exhaustive"])
        s["notes"] += [n for n in r["notes"] if n not in s["notes"]]
        if len(s["samples"]) < 4:
            s["samples"] += r["samples"][: 4 - len(s["samples"])]
        evaluations += r["evaluations"]
        excluded += r["excluded"]
        known_hits.update(r["known_hits"])
        for v in r["violations"]:
            for old in violations:
                if old["klass"] == v["klass"] and old["subcheck"] == v["subcheck"]:
                    old["count"] += v["count"]
                    break
            else:
                violations.append(v)
    for name, s in subs.items():
        nontrivial_all |= s["nontrivial"]
        for smp in s["samples"]:
            samples.append({"subcheck": name, "case": smp})

    # vacuity guards
    guard_msgs = []
    for name, mins in getattr(mod, "MIN_COUNTS", {}).get(args.tier, {}).items():
        if args.sub and name not in subs:
            continue
        have = subs.get(name, {"counters": {}, "evaluations": 0})
        for cname, n in mins.items():
            got = have["evaluations"] if cname == "_evaluations" else have["counters"].get(cname, 0)
            if got < n:
                guard_msgs.append(f"{name}.{cname}: {got} < {n}")

    # ------------------------------------------------------------------ replays
    rep_dir = os.path.join(core.HOME, "replays", prop)
    vlines = []
    for v in violations:
        os.makedirs(rep_dir, exist_ok=True)
        h = core.khash((v["subcheck"], v["klass"], json.dumps(v["case"], sort_keys=True))) % (16 ** 8)
        path = os.path.join(rep_dir, f"{v['subcheck']}-{h:08x}.json")
        with open(path, "w") as fh:
            json.dump({"property": prop, "subcheck": v["subcheck"], "klass": v["klass"], "msg": v["msg"],
                       "case": v["case"], "seed": seed, "tier": args.tier}, fh, indent=1, ensure_ascii=False)
        vlines.append((v, path))

    wall = time.monotonic() - t_start
    sub_ev = {}
    for name, s in sorted(subs.items()):
        sub_ev[name] = {"evaluations": s["evaluations"], "distinct_nontrivial": len(s["nontrivial"]),
                        "classes": dict(sorted(s["counters"].items())), "cpu_s": round(s["wall_cpu_s"], 2)}
        if s["exhaustive"] is not None:
            sub_ev[name]["exhaustive"] = s["exhaustive"]
        if s["notes"]:
            sub_ev[name]["notes"] = s["notes"]
    evidence = {
        "property_id": prop,
        "tier": args.tier,
        "seed": seed,
        "level": mod.LEVEL,
        "coverage": {
            "evaluations": evaluations,
            "distinct_nontrivial": len(nontrivial_all),
            "rule": mod.RULE,
            "samples": samples[:24],
            "exhaustive": False,
            "exhaustive_subdomains": sorted(n for n, s in subs.items() if s["exhaustive"]),
            "subchecks": sub_ev,
            "excluded_by_known_findings": excluded,
            "known_finding_hits": dict(known_hits),
            "known_findings_active": sorted(e["key"] for e in active_known.values()),
            "violation_buckets": [{"subcheck": v["subcheck"], "klass": v["klass"], "count": v["count"]} for v in violations],
            "tree": core.REPO,
        },
        "assumptions": list(getattr(mod, "ASSUMPTIONS", [])),
        "wall_s": round(wall, 2),
        "violations": len(violations),
    }
    os.makedirs(os.path.join(core.HOME, "evidence"), exist_ok=True)
    only_sub = bool(args.sub)
    ev_path = os.path.join(core.HOME, "evidence", f"{prop}.json" if not only_sub else f"{prop}.partial.json")
    with open(ev_path, "w") as fh:
        json.dump(evidence, fh, indent=1, ensure_ascii=False, default=str)

    for name, s in sub_ev.items():
        print(f"  {name}: cases={s['evaluations']} nontrivial={s['distinct_nontrivial']} cpu={s['cpu_s']}s")
    print(f"{prop} tier={args.tier} seed={seed} cases={evaluations} nontrivial={len(nontrivial_all)} "
          f"known_hits={sum(known_hits.values())} excluded={excluded} wall={wall:.1f}s")

    if vlines:
        for v, path in vlines:
            print(f"  violation [{v['subcheck']}] {v['klass']}: {v['msg'][:300]}")
            print(f"VIOLATION property={prop} replay={path}")
        return 1
    if guard_msgs:
        print(f"HARNESS-ERROR property={prop}: generator too thin: " + "; ".join(guard_msgs))
        return 2
    return 0


if __name__ == "__main__":
    sys.exit(main())
