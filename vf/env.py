"""Process-local caches of registries of the tree under test and of R."""
from __future__ import annotations

import functools
import logging
from decimal import Decimal
from fractions import Fraction

from .oracle.defreader import default_reader, Reader

logging.getLogger("pint").setLevel(logging.ERROR)
logging.getLogger("pint.util").setLevel(logging.ERROR)

NIT = {"float": float, "Fraction": Fraction, "Decimal": Decimal}


@functools.lru_cache(maxsize=None)
def ureg(nit: str = "float", **kw):
    import pint

    kw = dict(kw)
    return pint.UnitRegistry(non_int_type=NIT[nit], **kw)


def fresh(nit: str = "float", **kw):
    import pint

    return pint.UnitRegistry(non_int_type=NIT[nit], **kw)


def R() -> Reader:
    return default_reader()


@functools.lru_cache(maxsize=None)
def unit_names(kind: str = "mult"):
    """Canonical names from R (never from the registry's tables)."""
    r = R()
    if kind == "mult":
        return tuple(n for n, u in r.units.items() if u.kind in ("base", "scale"))
    if kind == "offset":
        return tuple(n for n, u in r.units.items() if u.kind == "offset")
    if kind == "log":
        return tuple(n for n, u in r.units.items() if u.kind == "log")
    if kind == "all":
        return tuple(r.units)
    raise ValueError(kind)


def fr(x) -> Fraction:
    return x if isinstance(x, Fraction) else Fraction(x)


def uc_to_dict(uc) -> dict:
    """UnitsContainer -> {name: Fraction} (exact for int/Fraction/Decimal; floats via str)."""
    out = {}
    for k, v in uc.items():
        if isinstance(v, float):
            out[k] = Fraction(v).limit_denominator(10 ** 6) if v == v else v
        else:
            out[k] = Fraction(v)
    return out
