"""Numeric comparison policy (DESIGN §1.4)."""
from __future__ import annotations

import math
from decimal import Decimal
from fractions import Fraction


def to_fraction(x):
    if isinstance(x, Fraction):
        return x
    if isinstance(x, (int, float, Decimal)):
        return Fraction(x)
    return Fraction(x)


def ulps(got: float, exact) -> float:
    """|got - exact| measured in ulp of the correctly rounded exact value (exact: Fraction or Decimal)."""
    ex = to_fraction(exact)
    if ex == 0:
        return 0.0 if got == 0 else math.inf
    ref = float(ex)
    if math.isinf(ref) or ref == 0.0:
        return math.inf
    diff = abs(Fraction(got) - ex)
    return float(diff / Fraction(math.ulp(ref)))


def float_close(got, exact, n_ops: int, base: int = 16) -> bool:
    if isinstance(got, bool) or not isinstance(got, (int, float)):
        try:
            got = float(got)
        except Exception:  # noqa: BLE001
            return False
    if got != got:
        return False
    if math.isinf(got):
        return False
    return ulps(float(got), exact) <= base + 4 * n_ops


def rel_err(got, exact) -> Fraction:
    ex = to_fraction(exact)
    g = to_fraction(got)
    if ex == 0:
        return Fraction(0) if g == 0 else Fraction(10 ** 9)
    return abs(g - ex) / abs(ex)


def decimal_close(got, exact, n_ops: int, prec: int = 28) -> bool:
    return rel_err(got, exact) <= Fraction(10) ** (2 - prec) * (n_ops + 4)
