"""C19 — measurements carry uncertainty consistently through conversion and arithmetic.

Oracles: the values handed to the constructors; the slope of the conversion from R (scale ratio, also for offset units); first-order
propagation formulas written out here (quadrature sums, exact correlation for repeated operands); notation round-trips.
"""
from __future__ import annotations

import math
import re
from fractions import Fraction

from hypothesis import strategies as st

from .. import env
from ..core import Collector, Skip, Violation, attempt, exc_class, hyp_search
from .c07 import NOTATIONS, check_uncertainty_text, render_uncertainty

PROPERTY = "C19"
LEVEL = "exploration"
RULE = ("build: values over 1e-30..1e30 (both signs), absolute or relative errors, every constructor form (Quantity pair incl. error in another unit, numbers+unit, "
        "ufloat+unit, plus_minus absolute/relative/Quantity) must report value/error/rel as given and agree with each other, negative errors raise ValueError; "
        "convert: every compatible unit pair incl. offset units, nominal by R's map, std-dev x |slope|, rel unchanged under multiplicative conversion; arith: "
        "expression trees (depth <= 3) over independent measurements, plain quantities and repeated operands ((a+b)-b, a*b/b, a-a, 2a-a, a.to(u)-a): nominal by "
        "plain arithmetic, std-dev by first-order propagation with exact correlation (own linear bookkeeping of partial derivatives); notation: every "
        "notation of the uncertainty tokenizer x sign x exponent, two parses of one text are independent measurements; format: every measurement format spec renders, plain-text renderings parse back. "
        "Non-trivial = conversion between different scales, a notation with exponent or parenthesised digits, or an expression with a repeated operand; "
        "distinct = distinct (constructor/units/expression, values)")
ASSUMPTIONS = ["first-order (linear) propagation is the contract of the uncertainties package; relative tolerance 1e-9 on std-dev"]
MIN_COUNTS = {"quick": {"arith": {"repeated_operand": 150}, "convert": {"_evaluations": 300}}}


def tasks(tier, seed):
    return [{"sub": s, "shard": 0} for s in ("build", "convert", "notation", "format")] + [{"sub": "arith", "shard": i} for i in range(3)]


def classes():
    R = env.R()
    byd = {}
    for n in env.unit_names("mult"):
        r = R.resolve(n)
        if r.tainted or r.irrational or r.factor <= 0 or not r.dim:
            continue
        byd.setdefault(tuple(sorted(r.dim.items())), []).append(n)
    return {k: v for k, v in byd.items() if len(v) >= 2}


def close(a, b, rel=1e-9):
    a, b = float(a), float(b)
    if a != a or b != b:
        return a != a and b != b
    return abs(a - b) <= rel * max(abs(a), abs(b)) + 1e-300


vals = st.builds(lambda m, e, s: s * m * 10.0 ** e, st.floats(1.0, 9.99), st.integers(-30, 30), st.sampled_from([1, -1]))
rels = st.sampled_from([0.0, 1e-6, 0.01, 0.1, 0.5, 1.0])


# ------------------------------------------------------------------------------------- constructors and accessors

def case_build(case, col=None):
    from uncertainties import ufloat

    R = env.R()
    ureg = env.ureg("float")
    v, rel, ua, ub = case["v"], case["rel"], case["ua"], case["ub"]
    e = abs(v) * rel
    Q, M = ureg.Quantity, ureg.Measurement
    fa, fb = float(R.resolve(ua).factor), float(R.resolve(ub).factor)
    e_in_b = e * fa / fb
    if col is not None:
        col.case(("b", v, rel, ua, ub), ua != ub, sample=case, cls="build")
    forms = {
        "Measurement(Q,Q)": lambda: M(Q(v, ua), Q(e, ua)),
        "Measurement(Q,Q other unit)": lambda: M(Q(v, ua), Q(e_in_b, ub)),
        "Measurement(v,e,unit)": lambda: M(v, e, ua),
        "Measurement(ufloat,unit)": lambda: M(ufloat(v, e), ua),
        "Q.plus_minus(e)": lambda: Q(v, ua).plus_minus(e),
        "Q.plus_minus(r,relative)": lambda: Q(v, ua).plus_minus(rel, relative=True),
        "Q.plus_minus(Q_err)": lambda: Q(v, ua).plus_minus(Q(e_in_b, ub)),
    }
    for tag, fn in forms.items():
        s, m = attempt(fn)
        if s == "err":
            raise Violation(f"constructor_raised:{tag}:{exc_class(m)}", f"{tag} with v={v}, e={e}, {ua}/{ub}: {type(m).__name__}: {m}")
        if dict(m._units) != {ua: 1}:
            raise Violation(f"constructor_wrong_unit:{tag}", f"{dict(m._units)}")
        if not close(m.value.magnitude, v) or dict(m.value._units) != {ua: 1}:
            raise Violation(f"accessor_value:{tag}", f"value {m.value.magnitude!r} vs {v!r}")
        if not close(m.error.magnitude, e, 1e-9) or dict(m.error._units) != {ua: 1}:
            raise Violation(f"accessor_error:{tag}", f"{tag}: error {m.error.magnitude!r} {dict(m.error._units)} vs {e!r} {ua}")
        if not close(m.rel, rel, 1e-9):
            raise Violation(f"accessor_rel:{tag}", f"{tag}: rel {m.rel!r} vs {rel!r}")
    # negative errors are rejected
    for tag, fn in (("Measurement(v,-e,unit)", lambda: M(v, -abs(v) * 0.1 - 1e-300, ua)), ("Measurement(Q,-Q)", lambda: M(Q(v, ua), Q(-abs(v) * 0.1 - 1e-300, ub))),
                    ("plus_minus(-e)", lambda: Q(v, ua).plus_minus(-abs(v) * 0.1 - 1e-300)), ("plus_minus(-r,relative)", lambda: Q(v, ua).plus_minus(-0.05, relative=True)),
                    ("plus_minus(-Q)", lambda: Q(v, ua).plus_minus(Q(-abs(v) * 0.1 - 1e-300, ub))), ("Measurement(ufloat(-e))", lambda: M(v, -abs(v) * 0.1 - 1e-300, ureg.Unit(ua)))):
        s, m = attempt(fn)
        if s == "ok":
            raise Violation(f"negative_error_accepted:{tag}", f"{tag} returned {m!r}")
        if not isinstance(m, ValueError):
            raise Violation(f"negative_error_wrong_exception:{tag}:{exc_class(m)}", f"{m!r}")


def case_copied_registry(case, col=None):
    """measurements made through a deep-copied registry belong to the copy: they know what only the copy defines, combine with the copy's quantities
    and never with the source's"""
    import copy

    if col is not None:
        col.case(("cr", case["warm"]), True, sample=case, cls="copied_registry")
    src = env.fresh("float")
    if case["warm"]:
        _ = src.Measurement(1.0, 0.1, "meter") + src.Quantity(1.0, "meter").plus_minus(0.1)
    cp = copy.deepcopy(src)
    cp.define("smoot = 1.7018 * meter")
    for tag, fn in (("Measurement", lambda: cp.Measurement(2.0, 0.1, "smoot")), ("plus_minus", lambda: cp.Quantity(2.0, "smoot").plus_minus(0.1)), ("parse", lambda: cp.parse_expression("(2.0 +/- 0.1) smoot"))):
        s_, m = attempt(fn)
        if s_ == "err":
            raise Violation(f"measurement_in_copied_registry_raised:{tag}:{exc_class(m)}", f"{tag} in a deep-copied registry with a unit defined after the copy: {m!r}")
        if getattr(m, "_REGISTRY", None) is not cp:
            raise Violation(f"measurement_of_copied_registry_belongs_to_source:{tag}", f"{tag}: owner is {'the source' if getattr(m, '_REGISTRY', None) is src else 'another registry'}")
        s2, r = attempt(lambda: (m.to("meter"), m + cp.Quantity(1.0, "smoot"), m * cp.Quantity(2.0, "second")))
        if s2 == "err":
            raise Violation(f"measurement_in_copied_registry_raised:{tag}:use:{exc_class(r)}", f"{tag}: {r!r}")
        mm = r[0].magnitude
        if not close(mm.nominal_value, 2.0 * 1.7018) or not close(mm.std_dev, 0.1 * 1.7018):
            raise Violation(f"measurement_in_copied_registry_wrong:{tag}", f"{tag}: (2.0 +/- 0.1) smoot -> {r[0]!r}")
        s3, r3 = attempt(lambda: m + src.Quantity(1.0, "meter"))
        if s3 == "ok" or not isinstance(r3, ValueError):
            raise Violation(f"measurement_of_copy_combines_with_source:{tag}", f"{r3!r}")


def run_build(task, tier, seed, col):
    for warm in (False, True):
        col.run_case(lambda c: case_copied_registry(c, col), {"warm": warm})
    cl = classes()
    keys = sorted(cl)
    strat = st.builds(lambda k, i, j, v, r: {"ua": cl[k][i % len(cl[k])], "ub": cl[k][j % len(cl[k])], "v": v, "rel": r}, st.sampled_from(keys), st.integers(0, 99), st.integers(0, 99), vals, rels)
    hyp_search(col, strat, lambda c: case_build(c, col), max_examples=1500 if tier == "quick" else 6000, seed=seed * 293)


# ------------------------------------------------------------------------------------- conversion

TEMPS = {"kelvin": (1.0, 0.0), "degree_Celsius": (1.0, 273.15), "degree_Fahrenheit": (5 / 9, 233.15 + 200 / 9), "degree_Rankine": (5 / 9, 0.0)}


def case_convert(case, col=None):
    R = env.R()
    ureg = env.ureg("float")
    v, rel, ua, ub = case["v"], case["rel"], case["ua"], case["ub"]
    temp = ua in TEMPS and ub in TEMPS
    e = (max(abs(v), 1.0) if temp else abs(v)) * rel  # (std_dev ** 2 must not underflow inside the uncertainties package)
    if temp:
        (sa, oa), (sb, ob) = TEMPS[ua], TEMPS[ub]
        want_v = ((v * sa + oa) - ob) / sb
        slope = sa / sb
    else:
        slope = float(R.resolve_spelling(ua).factor / R.resolve_spelling(ub).factor)
        want_v = v * slope
    if col is not None:
        col.case(("c", v, rel, ua, ub), ua != ub, sample=case, cls="offset" if temp else "multiplicative")
    m = ureg.Measurement(v, e, ua)
    for tag, fn in (("to", lambda: m.to(ub)), ("ito", lambda: (lambda x: (x.ito(ub), x)[1])(ureg.Measurement(v, e, ua)))):
        s, r = attempt(fn)
        if s == "err":
            raise Violation(f"measurement_conversion_raised:{tag}:{exc_class(r)}", f"{v}+/-{e} {ua} -> {ub}: {type(r).__name__}: {r}")
        nv, sd = r.magnitude.nominal_value, r.magnitude.std_dev
        tol = 1e-9 if not temp else 1e-6
        if abs(nv - want_v) > tol * max(abs(want_v), abs(v * (TEMPS[ua][0] if temp else 1)), 1e-300) + (1e-9 if temp else 0):
            raise Violation(f"measurement_conversion_nominal:{tag}", f"{v}+/-{e} {ua} -> {ub}: nominal {nv!r}, expected {want_v!r}")
        if not close(sd, e * abs(slope), 1e-9):
            raise Violation(f"measurement_conversion_std_dev:{tag}:{'offset' if temp else 'mult'}", f"{v}+/-{e} {ua} -> {ub}: std_dev {sd!r}, expected {e * abs(slope)!r} (slope {slope})")
        if dict(r._units) != {ub: 1}:
            raise Violation("measurement_conversion_unit", f"{dict(r._units)}")
        if not temp and rel and not close(r.rel, rel, 1e-9):  # noqa
            raise Violation("measurement_conversion_changes_rel", f"{v}+/-{e} {ua} -> {ub}: rel {r.rel!r} vs {rel!r}")
        if type(r).__name__ != "Measurement":
            raise Violation("measurement_conversion_type", f"{type(r).__name__}")
    # unit-rewriting helpers treat a measurement like the plain quantity of its nominal value
    if not temp and v != 0:
        for tag, fm, fq in (("to_compact", lambda: m.to_compact(), lambda: ureg.Quantity(v, ua).to_compact()), ("to_root_units", lambda: m.to_root_units(), lambda: ureg.Quantity(v, ua).to_root_units()),
                            ("to_base_units", lambda: m.to_base_units(), lambda: ureg.Quantity(v, ua).to_base_units())):
            (s1, r1), (s2, r2) = attempt(fm), attempt(fq)
            if s2 == "err":
                continue
            if s1 == "err":
                raise Violation(f"measurement_helper_raised:{tag}:{exc_class(r1)}", f"{tag} of {v}+/-{e} {ua}: {r1!r}")
            if dict(r1._units) != dict(r2._units) or not close(r1.magnitude.nominal_value, r2.magnitude, 1e-9):
                raise Violation(f"measurement_helper_differs_from_plain_quantity:{tag}", f"{tag} of {v}+/-{e} {ua}: {r1.magnitude!r} {dict(r1._units)}, plain quantity {r2.magnitude!r} {dict(r2._units)}")
            if e and not close(r1.magnitude.std_dev / abs(r1.magnitude.nominal_value), e / abs(v), 1e-9):
                raise Violation(f"measurement_helper_changes_rel:{tag}", f"{tag} of {v}+/-{e} {ua}")
    # a converted measurement stays fully correlated with its source
    d = m.to(ub) - m
    if not temp and (abs(d.magnitude.std_dev) > 1e-9 * max(e * abs(slope), 1e-300) and e > 0):
        raise Violation("conversion_loses_correlation", f"m.to({ub}) - m has std_dev {d.magnitude.std_dev!r} for m = {v}+/-{e} {ua}")


def run_convert(task, tier, seed, col):
    cl = classes()
    keys = sorted(cl)
    # (the source unit may carry a decimal prefix: kilo<unit>, milli<unit>, micro<unit>)
    mult = st.builds(lambda k, i, j, v, r, p: {"ua": p + cl[k][i % len(cl[k])], "ub": cl[k][j % len(cl[k])], "v": v, "rel": r}, st.sampled_from(keys), st.integers(0, 99), st.integers(0, 99), vals, rels,
                     st.sampled_from(["", "", "kilo", "milli", "micro"]))
    temp = st.builds(lambda a, b, v, r: {"ua": a, "ub": b, "v": v, "rel": r}, st.sampled_from(sorted(TEMPS)), st.sampled_from(sorted(TEMPS)), st.floats(-200, 2000), rels)
    hyp_search(col, st.one_of(mult, mult, temp), lambda c: case_convert(c, col), max_examples=2000 if tier == "quick" else 20000, seed=seed * 307)


# ------------------------------------------------------------------------------------- arithmetic with first-order propagation

# leaves: independent measurements a, b, c (index) each (value, std, unit); a plain quantity q; numbers.
# model value: (nominal in base units, {leaf index: partial derivative}, dimension dict)

def _arith_strategy():
    cl = classes()
    keys = sorted(cl)
    leaf = st.one_of(st.builds(lambda i, alt: ("m", i, alt), st.integers(0, 2), st.booleans()), st.just(("q",)), st.builds(lambda n: ("n", n), st.sampled_from([2.0, 3.0, 0.5, -1.5])))

    def ext(ch):
        return st.one_of(st.builds(lambda op, a, b: ("bin", op, a, b), st.sampled_from(["+", "-", "*", "/", "+", "-"]), ch, ch), st.builds(lambda a, k: ("pow", a, k), ch, st.sampled_from([2, 3, -1])),
                         st.builds(lambda a: ("neg", a), ch))

    tree = st.recursive(leaf, ext, max_leaves=6)
    special = st.sampled_from([("bin", "-", ("bin", "+", ("m", 0, False), ("m", 1, False)), ("m", 1, False)), ("bin", "/", ("bin", "*", ("m", 0, False), ("m", 1, False)), ("m", 1, True)),
                               ("bin", "-", ("m", 0, False), ("m", 0, False)), ("bin", "-", ("bin", "*", ("n", 2.0), ("m", 0, False)), ("m", 0, True)), ("bin", "-", ("m", 0, True), ("m", 0, False)),
                               ("bin", "*", ("m", 0, False), ("m", 0, False)), ("bin", "/", ("m", 0, False), ("m", 0, True)), ("bin", "*", ("bin", "/", ("m", 0, False), ("q",)), ("q",))])

    @st.composite
    def strat(draw):
        k = draw(st.sampled_from(keys))
        us = cl[k]
        ms = [{"v": draw(st.floats(1.0, 50.0)) * draw(st.sampled_from([1, -1])), "rel": draw(st.sampled_from([0.001, 0.01, 0.05])), "u": draw(st.sampled_from(us)), "u2": draw(st.sampled_from(us))} for _ in range(3)]
        q = {"v": draw(st.floats(1.0, 9.0)), "u": draw(st.sampled_from(us))}
        return {"tree": draw(st.one_of(tree, special)), "ms": ms, "q": q}

    return strat()


class Bad(Exception):
    pass


def _numeric(t):
    return t[0] == "n" or (t[0] in ("neg", "pow") and _numeric(t[1])) or (t[0] == "bin" and _numeric(t[2]) and _numeric(t[3]))


def eval_model(R, t, ms, q, absd=False):
    """(nominal in root units, {source index: partial derivative}, dimension, number of measurement leaves).
    With absd the derivatives are combined by absolute value (size of the uncancelled contributions, for tolerances)."""
    A = abs if absd else (lambda x: x)
    if t[0] == "m":
        m = ms[t[1]]
        f = float(R.resolve(m["u"]).factor)
        return m["v"] * f, {t[1]: f}, R.resolve(m["u"]).dim, 1
    if t[0] == "q":
        return q["v"] * float(R.resolve(q["u"]).factor), {}, R.resolve(q["u"]).dim, 0
    if t[0] == "n":
        return t[1], {}, {}, 0
    if t[0] == "neg":
        v, d, dim, n = eval_model(R, t[1], ms, q, absd)
        return -v, {k: A(-x) for k, x in d.items()}, dim, n
    if t[0] == "pow":
        v, d, dim, n = eval_model(R, t[1], ms, q, absd)
        k = t[2]
        if v == 0 and k < 0:
            raise Bad("zero")
        return v ** k, {i: A(k * v ** (k - 1) * x) for i, x in d.items()}, {a: b * k for a, b in dim.items()}, n
    _, op, a, b = t
    va, da, dima, na = eval_model(R, a, ms, q, absd)
    vb, db, dimb, nb = eval_model(R, b, ms, q, absd)
    if op in "+-":
        if dima != dimb:
            # pint accepts a bare zero on either side of + and - (documented: adding 0 is the identity)
            if _numeric(b) and vb == 0:
                return va, da, dima, na
            if _numeric(a) and va == 0:
                return (vb if op == "+" else -vb), ({i: A(x if op == "+" else -x) for i, x in db.items()}), dimb, nb
            raise Bad("dim")
        s = 1 if op == "+" else -1
        d = dict(da)
        for i, x in db.items():
            d[i] = A(d.get(i, 0.0)) + A(s * x) if absd else d.get(i, 0.0) + s * x
        return va + s * vb, d, dima, na + nb
    if op == "*":
        d = {i: A(x * vb) for i, x in da.items()}
        for i, x in db.items():
            d[i] = d.get(i, 0.0) + A(va * x)
        dim = dict(dima)
        for k, x in dimb.items():
            dim[k] = dim.get(k, 0) + x
        return va * vb, d, {k: x for k, x in dim.items() if x != 0}, na + nb
    if vb == 0:
        raise Bad("zero")
    d = {i: A(x / vb) for i, x in da.items()}
    for i, x in db.items():
        d[i] = d.get(i, 0.0) + A(-va * x / (vb * vb))
    dim = dict(dima)
    for k, x in dimb.items():
        dim[k] = dim.get(k, 0) - x
    return va / vb, d, {k: x for k, x in dim.items() if x != 0}, na + nb


def eval_pint(ureg, t, objs, alts, q, trace=None):
    r = _eval_pint(ureg, t, objs, alts, q, trace)
    if trace is not None:
        m = getattr(r, "magnitude", r)
        trace.append(abs(getattr(m, "nominal_value", m)))  # in the units pint computes in (the model works in root units)
    return r


def _eval_pint(ureg, t, objs, alts, q, trace):
    if t[0] == "m":
        return alts[t[1]] if t[2] else objs[t[1]]
    if t[0] == "q":
        return q
    if t[0] == "n":
        return t[1]
    if t[0] == "neg":
        return -eval_pint(ureg, t[1], objs, alts, q, trace)
    if t[0] == "pow":
        return eval_pint(ureg, t[1], objs, alts, q, trace) ** t[2]
    a, b = eval_pint(ureg, t[2], objs, alts, q, trace), eval_pint(ureg, t[3], objs, alts, q, trace)
    return {"+": lambda: a + b, "-": lambda: a - b, "*": lambda: a * b, "/": lambda: a / b}[t[1]]()


def _repeated(t, seen=None):
    seen = seen if seen is not None else {}
    if t[0] == "m":
        seen[t[1]] = seen.get(t[1], 0) + 1
    for c in t[1:]:
        if isinstance(c, tuple):
            _repeated(c, seen)
    return any(v > 1 for v in seen.values())


def case_arith(case, col=None):
    R = env.R()
    ureg = env.ureg("float")
    ms, q, t = case["ms"], case["q"], _tup(case["tree"])
    objs = [ureg.Measurement(m["v"], abs(m["v"]) * m["rel"], m["u"]) for m in ms]
    alts = [o.to(m["u2"]) for o, m in zip(objs, ms)]  # the same measurement re-expressed: fully correlated with the original
    qq = ureg.Quantity(q["v"], q["u"])
    rep = _repeated(t)
    if col is not None:
        col.case(("a", str(t), str(ms), str(q)), rep, sample={"tree": str(t), "ms": ms, "q": q}, cls="repeated_operand" if rep else "independent")
        if rep:
            col.count("repeated_operand")
    try:
        mv, md, mdim, nmeas = eval_model(R, t, ms, q)
        model_err = None
    except Bad as b:
        model_err = str(b)
    trace = []
    s, r = attempt(eval_pint, ureg, t, objs, alts, qq, trace)
    if model_err:
        if s == "ok" and model_err == "dim":
            raise Violation("measurement_arithmetic_accepts_dimension_mismatch", f"{t}: returned {r!r}")
        return
    if s == "err":
        if isinstance(r, ZeroDivisionError):
            raise Skip("zero_division")
        raise Violation(f"measurement_arithmetic_raised:{exc_class(r)}", f"{t} on {ms}: {type(r).__name__}: {r}")
    if not hasattr(r, "_units"):
        units, mag = {}, r
    else:
        units, mag = {k: Fraction(v) for k, v in r._units.items()}, r.magnitude
    f, root, dim, tainted, _ = R.resolve_compound(units)
    if dim != {k: Fraction(v) for k, v in mdim.items() if v != 0}:
        raise Violation("measurement_arithmetic_dimension", f"{t}: {dict(units)} has dimension {dim}, expected {mdim}")
    if _extreme(R, t, ms, q) or any(v and not (1e-120 < v < 1e120) for v in trace):
        raise Skip("float_range")  # std_dev ** 2 under/overflows inside the uncertainties package
    nv = getattr(mag, "nominal_value", mag) * float(f)
    sd = getattr(mag, "std_dev", 0.0) * abs(float(f))
    want_sd = math.sqrt(sum((md.get(i, 0.0) * abs(ms[i]["v"]) * ms[i]["rel"]) ** 2 for i in range(3)))
    if abs(nv - mv) > 1e-9 * max(abs(mv), abs(nv)) + 1e-9 * _mag_scale(R, t, ms, q) + 100 * _err_bound(R, t, ms, q):
        raise Violation("measurement_arithmetic_nominal", f"{t} on {ms}, {q}: nominal {nv!r} (root units), expected {mv!r}")
    # the std-dev tolerance is relative to the size of the individual contributions (cancellations make the result small)
    contrib = _contrib_scale(R, t, ms, q)
    # (second term: where a sum cancels, the rounding error of the nominal value enters the derivative of an enclosing power or product)
    if abs(sd - want_sd) > 1e-7 * max(contrib, want_sd) + 1e-9 * _abs_scale(R, t, ms, q) * max(m["rel"] for m in ms) + 100 * _max_rel_err(R, t, ms, q) * max(contrib, want_sd) + 1e-300:
        kind = "correlated" if rep else "independent"
        raise Violation(f"measurement_arithmetic_std_dev:{kind}", f"{t} on {ms}, {q}: std_dev {sd!r} (root units), first-order propagation gives {want_sd!r}")
    if nmeas and hasattr(r, "_units") and type(r).__name__ != "Measurement" and hasattr(mag, "std_dev"):
        pass


def _extreme(R, t, ms, q):
    try:
        v = abs(eval_model(R, t, ms, q)[0])
    except (Bad, OverflowError):
        return True
    if v and not (1e-120 < v < 1e120):
        return True
    return any(_extreme(R, c, ms, q) for c in t[1:] if isinstance(c, tuple))


def _mag_scale(R, t, ms, q):
    """size of the largest intermediate nominal value (for the tolerance on cancelling sums)"""
    try:
        if t[0] in ("m", "q", "n"):
            return abs(eval_model(R, t, ms, q)[0])
        return max([abs(eval_model(R, t, ms, q)[0])] + [_mag_scale(R, c, ms, q) for c in t[1:] if isinstance(c, tuple)])
    except Bad:
        return 0.0


def _abs_scale(R, t, ms, q):
    """size of the expression if nothing cancelled: |leaf values| combined with +, * and powers"""
    try:
        if t[0] in ("m", "q", "n"):
            return abs(eval_model(R, t, ms, q)[0])
        if t[0] == "neg":
            return _abs_scale(R, t[1], ms, q)
        if t[0] == "pow":
            s_ = _abs_scale(R, t[1], ms, q)
            return s_ ** t[2] if t[2] > 0 else abs(eval_model(R, t, ms, q)[0])
        a, b = _abs_scale(R, t[2], ms, q), _abs_scale(R, t[3], ms, q)
        if t[1] in "+-":
            return a + b
        if t[1] == "*":
            return a * b
        vb = abs(eval_model(R, t[3], ms, q)[0])
        return a / vb if vb else 0.0
    except (Bad, OverflowError, ZeroDivisionError):
        return 0.0


def _err_bound(R, t, ms, q, eps=2e-15):
    """first-order bound on the float rounding error of the nominal value (root units): errors of cancelling sums are amplified by the
    divisions and powers that enclose them (1 / (q + (m - q)) with m = 1e-9 q is only good to 1e-7)"""
    try:
        v = abs(eval_model(R, t, ms, q)[0])
        if t[0] in ("m", "q", "n"):
            return eps * v
        if t[0] == "neg":
            return _err_bound(R, t[1], ms, q, eps)
        if t[0] == "pow":
            a = abs(eval_model(R, t[1], ms, q)[0])
            ea = _err_bound(R, t[1], ms, q, eps)
            return (abs(t[2]) * v / a * ea if a else 0.0) + eps * v
        a, b = abs(eval_model(R, t[2], ms, q)[0]), abs(eval_model(R, t[3], ms, q)[0])
        ea, eb = _err_bound(R, t[2], ms, q, eps), _err_bound(R, t[3], ms, q, eps)
        if t[1] in "+-":
            return ea + eb + eps * max(a, b, v)
        if t[1] == "*":
            return a * eb + b * ea + eps * v
        return (ea / b + a * eb / (b * b) if b else 0.0) + eps * v
    except (Bad, OverflowError, ZeroDivisionError):
        return 0.0


def _max_rel_err(R, t, ms, q):
    """largest relative rounding error among the nominal values of all sub-expressions: the derivatives pint propagates are taken at those"""
    try:
        v = abs(eval_model(R, t, ms, q)[0])
        here = _err_bound(R, t, ms, q) / v if v else 0.0
    except (Bad, OverflowError, ZeroDivisionError):
        here = 0.0
    return max([here] + [_max_rel_err(R, c, ms, q) for c in t[1:] if isinstance(c, tuple)])


def _contrib_scale(R, t, ms, q):
    """sum of the uncancelled first-order contributions at the root (absolute scale for the std-dev tolerance)"""
    try:
        d = eval_model(R, t, ms, q, absd=True)[1]
    except Bad:
        return 0.0
    return sum(abs(d.get(i, 0.0)) * abs(ms[i]["v"]) * ms[i]["rel"] for i in range(3))


def _tup(x):
    return tuple(_tup(i) for i in x) if isinstance(x, (list, tuple)) else x


def run_arith(task, tier, seed, col):
    hyp_search(col, _arith_strategy(), lambda c: case_arith(c, col), max_examples=1500 if tier == "quick" else 20000, seed=seed * 311 + task["shard"])


# ------------------------------------------------------------------------------------- textual notations

def case_notation(case, col=None):
    ureg = env.ureg("float")
    text = render_uncertainty(case["nom"], case["err"], case["exp"], case["unit"], case["notation"], case["neg"])
    if text is None:
        raise Skip("notation_not_applicable")
    scale = Fraction(10) ** (case["exp"] or 0)
    nominal = Fraction(case["nom"]) * scale * (-1 if case["neg"] else 1)
    std = Fraction(case["err"]) * scale
    if col is not None:
        col.case(("n", text), True, sample={"text": text}, cls=case["notation"])
    check_uncertainty_text(ureg, text, nominal, std, case["unit"], case["notation"])
    # the parsed quantity equals the measurement built from the numbers
    q = ureg.parse_expression(text)
    m = ureg.Measurement(float(nominal), float(std), case["unit"] or "")
    qm = getattr(q, "magnitude", q)
    if not close(qm.nominal_value, m.magnitude.nominal_value) or not close(qm.std_dev, m.magnitude.std_dev):
        raise Violation("notation_differs_from_measurement", f"{text!r}")
    # two measurements read from text are two measurements: statistically independent, exactly like two constructor calls, also when the text
    # is the same (difference: sqrt(2) sigma, never 0), whether read by two calls or as two terms of one expression
    import math

    q2 = ureg.parse_expression(text)
    d = getattr(q2 - q, "magnitude", q2 - q)
    if std and (not close(d.std_dev, math.sqrt(2) * float(std)) or abs(d.nominal_value) > 1e-9 * abs(float(nominal))):
        raise Violation("parsed_measurements_not_independent:two_calls", f"{text!r} parsed twice: the difference is {d!r}, two independent measurements differ by 0 +/- {math.sqrt(2) * float(std)!r}")
    if text.lstrip("-").startswith("("):
        s_, tot = attempt(ureg.parse_expression, f"{text} + {text}")
        if s_ == "ok":
            t = getattr(tot, "magnitude", tot)
            if std and hasattr(t, "std_dev") and close(t.nominal_value, 2 * float(nominal)) and not close(t.std_dev, math.sqrt(2) * float(std)):
                raise Violation("parsed_measurements_not_independent:one_expression", f"'{text} + {text}' -> {t!r}; two independent terms give +/- {math.sqrt(2) * float(std)!r}")


NAN_TEXTS = [("(8.0 +/- nan)e-07 m", 8e-7, None), ("(nan +/- 5.0)e-07 m", None, 5e-7), ("(8.0 +/- nan) m", 8.0, None), ("(nan +/- 5.0)e+03 m", None, 5e3), ("(2.5 +/- nan)e+02 s", 250.0, None),
             ("(nan +/- nan)e-07 m", None, None), ("(8.0 +/- 0.5)e-07 m", 8e-7, 5e-8)]


def case_nan_notation(case, col=None):
    """what format() writes for a measurement whose value or error is nan - '(8.0 +/- nan)e-07 m' - reads back: the exponent belongs to the finite side"""
    import math

    ureg = env.ureg("float")
    text, nom, std = NAN_TEXTS[case["i"]]
    if col is not None:
        col.case(("nn", text), True, sample={"text": text}, cls="nan_notation")
    s_, q = attempt(ureg.parse_expression, text)
    if s_ == "err":
        raise Violation(f"uncertainty_notation_refused:nan:{exc_class(q)}", f"{text!r}: {q!r}")
    m = q.magnitude
    for tag, got, want in (("nominal", getattr(m, "nominal_value", m), nom), ("std_dev", getattr(m, "std_dev", 0.0), std)):
        ok = math.isnan(got) if want is None else close(got, want)
        if not ok:
            raise Violation(f"uncertainty_wrong_{tag}:nan_with_exponent", f"{text!r} -> {tag} {got!r}, expected {'nan' if want is None else want}")
    # and it is what formatting such a measurement writes
    if nom is not None and std is None and "e-07" in text:
        rendered = format(ureg.Measurement(8e-7, float("nan"), "m"), "")
        s2, q2 = attempt(ureg.parse_expression, rendered)
        if s2 == "err" or not close(q2.magnitude.nominal_value, 8e-7):
            raise Violation("uncertainty_wrong_nominal:nan_with_exponent:rendered", f"format(Measurement(8e-7, nan, 'm')) = {rendered!r} parses to {q2!r}")


def case_uncertain_zero(case, col=None):
    """a bare uncertain number whose nominal value is 0 is not the exact number zero: next to a dimensional quantity it is refused like the same number
    with any other nominal value (only the exact 0 - and nan - may be added to or compared with anything)"""
    import operator

    from uncertainties import ufloat

    ureg = env.ureg("float")
    q = ureg.Measurement(5.0, 0.1, "meter") if case["left"] == "measurement" else ureg.Quantity(5.0, "meter")
    ops = {"add": operator.add, "sub": operator.sub, "radd": lambda a, b: b + a, "rsub": lambda a, b: b - a, "gt": operator.gt, "le": operator.le, "eq": operator.eq}
    if col is not None:
        col.case(("uz", case["left"], case["op"]), True, sample=case, cls="uncertain_zero")
    r0 = attempt(ops[case["op"]], q, ufloat(0.0, 0.3))
    r1 = attempt(ops[case["op"]], q, ufloat(1.0, 0.3))
    if case["op"] == "eq":
        if r0[0] == "ok" and r1[0] == "ok" and bool(r0[1]) != bool(r1[1]):
            raise Violation("uncertain_zero_treated_as_exact_zero:eq", f"{q!r} == ufloat(0, 0.3) -> {r0[1]!r}; == ufloat(1, 0.3) -> {r1[1]!r}")
        return
    if r0[0] != r1[0] or (r0[0] == "err" and type(r0[1]) is not type(r1[1])):
        raise Violation(f"uncertain_zero_treated_as_exact_zero:{case['op']}", f"{q!r} {case['op']} ufloat(0, 0.3) -> {r0[1]!r}; with ufloat(1, 0.3) -> {r1[1]!r}")


def run_notation(task, tier, seed, col):
    for i in range(len(NAN_TEXTS)):
        col.run_case(lambda c: case_nan_notation(c, col), {"i": i})
    for left in ("measurement", "quantity"):
        for op in ("add", "sub", "radd", "rsub", "gt", "le", "eq"):
            col.run_case(lambda c: case_uncertain_zero(c, col), {"left": left, "op": op})
    strat = st.builds(lambda nom, err, exp, unit, nt, neg: {"nom": nom, "err": err, "exp": exp, "unit": unit, "notation": nt, "neg": neg},
                      st.sampled_from(["8.0", "1.25", "100", "0.5", "12.345", "3", "250", "0.200", "7000"]), st.sampled_from(["4.0", "0.05", "10", "0.25", "0.012", "1", "25", "0.010", "300"]),
                      st.sampled_from([None, None, 6, -6, 2, -3, 3, 12]), st.sampled_from(["m", "", "kg/s", "coulomb", "second"]), st.sampled_from(NOTATIONS), st.booleans())
    hyp_search(col, strat, lambda c: case_notation(c, col), max_examples=1500 if tier == "quick" else 10000, seed=seed * 313)


# ------------------------------------------------------------------------------------- formatting

FSPECS = ["", "D", "C", "P", "H", "L", "Lx", "~", "~P", "~C", ".2f", ".3e", "S", ".2uS", ".1uSP", ".3fC", "~L", ".2f~H", ".4g"]


def case_format(case, col=None):
    ureg = env.ureg("float")
    m = ureg.Measurement(case["v"], abs(case["v"]) * case["rel"], ureg.UnitsContainer(dict(case["units"])))
    spec = case["spec"]
    if col is not None:
        col.case(("f", case["v"], case["rel"], str(sorted(case["units"].items())), spec), True, sample=case, cls=spec or "default")
    snap = (m.magnitude.nominal_value, m.magnitude.std_dev, dict(m._units))
    s, text = attempt(format, m, spec)
    if s == "err":
        raise Violation(f"measurement_format_raised:{spec}:{exc_class(text)}", f"format(Measurement({case['v']}, rel {case['rel']}, {case['units']}), {spec!r}) raised {type(text).__name__}: {text}")
    if (m.magnitude.nominal_value, m.magnitude.std_dev, dict(m._units)) != snap:
        raise Violation("measurement_format_altered_object", spec)
    plain = spec in ("", "D", "C", "~", "~C", ".2f", ".3e", ".3fC", ".4g", "S", ".2uS")
    if not plain:
        # structural minimum: some +/- sign (or the parenthesised shorthand) and the unit rendering are present
        ustr = format(m.units, "".join(ch for ch in spec if ch in "~PHLCDx").replace("x", "x") if "Lx" not in spec else "Lx")
        if "Lx" not in spec and ustr and ustr not in text:
            raise Violation(f"measurement_format_lost_unit:{spec}", f"{text!r} does not contain {ustr!r}")
        return
    # plain-text renderings parse back to the printed measurement
    s, back = attempt(ureg.parse_expression, text)
    if s == "err":
        raise Violation(f"measurement_format_not_parseable:{spec}:{exc_class(back)}", f"{text!r} (spec {spec!r}): {type(back).__name__}: {back}")
    bm = getattr(back, "magnitude", back)
    if not hasattr(bm, "nominal_value"):
        if case["rel"] == 0:
            return
        raise Violation(f"measurement_format_roundtrip_lost_uncertainty:{spec}", f"{text!r} parsed to {back!r}")
    # printed precision: the place value of the last printed digit of the nominal value, read from the text itself
    sd = abs(case["v"]) * case["rel"]
    num = re.search(r"-?\d+(?:\.(\d+))?", text)
    ex = re.search(r"[eE]([+-]?\d+)", text)
    place = 10.0 ** ((int(ex.group(1)) if ex else 0) - (len(num.group(1)) if num and num.group(1) else 0))
    tol = 0.51 * place + 1e-9 * abs(case["v"])
    if abs(bm.nominal_value - case["v"]) > tol:
        raise Violation(f"measurement_format_roundtrip_nominal:{spec}", f"{text!r} -> nominal {bm.nominal_value!r}, original {case['v']!r} (printed place {place})")
    if abs(bm.std_dev - sd) > tol:
        raise Violation(f"measurement_format_roundtrip_std_dev:{spec}", f"{text!r} -> std_dev {bm.std_dev!r}, original {sd!r} (printed place {place})")
    if hasattr(back, "_units") and dict(back._units) != dict(m._units):
        raise Violation(f"measurement_format_roundtrip_unit:{spec}", f"{text!r} -> {dict(back._units)} vs {dict(m._units)}")


def run_format(task, tier, seed, col):
    units = st.dictionaries(st.sampled_from(["meter", "second", "kilogram", "kelvin", "newton"]), st.sampled_from([1, 2, -1]), min_size=1, max_size=2)
    strat = st.builds(lambda v, r, u, sp: {"v": v, "rel": r, "units": u, "spec": sp}, st.builds(lambda m, e, s: s * m * 10.0 ** e, st.floats(1.0, 9.99), st.integers(-6, 8), st.sampled_from([1, -1])),
                      st.sampled_from([0.001, 0.01, 0.05, 0.2]), units, st.sampled_from(FSPECS))
    hyp_search(col, strat, lambda c: case_format(c, col), max_examples=2000 if tier == "quick" else 20000, seed=seed * 317)


def run_task(task, tier, seed, col):
    {"build": run_build, "convert": run_convert, "arith": run_arith, "notation": run_notation, "format": run_format}[task["sub"]](task, tier, seed, col)


def replay(sub, case):
    if sub == "build" and set(case) == {"warm"}:
        return case_copied_registry(case)
    if sub == "notation" and set(case) == {"i"}:
        return case_nan_notation(case)
    if sub == "notation" and "left" in case:
        return case_uncertain_zero(case)
    return {"build": case_build, "convert": case_convert, "arith": case_arith, "notation": case_notation, "format": case_format}[sub](case)
