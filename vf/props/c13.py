"""C13 — answers do not depend on query history: caches are transparent.

Oracle: a twin registry built fresh from the *declarative state* (definitions, default system, active context stack, group edits) that the
history of state changes implies.  Every answer of the long-lived subject must equal the twin's answer (same value or same exception class).
"""
from __future__ import annotations

import copy
import logging
from fractions import Fraction

from hypothesis import strategies as st

from .. import env
from ..core import Collector, Skip, Violation, attempt, exc_class, hyp_search, khash

PROPERTY = "C13"
LEVEL = "exploration"
RULE = ("history: Hypothesis sequences (up to 30 steps) of queries {convert, parse_units, parse_expression, get_root_units, get_base_units, "
        "get_dimensionality, get_compatible_units, format, to_compact, to_base_units, dimensionality of long-lived objects} and state changes {define a "
        "unit/prefix/alias, enable/disable a rule or redefining context, default_system = name|None, group add/remove units, build and use a second "
        "registry sharing a Context} on a small registry; after every state change a twin registry is built fresh from the declarative state and must "
        "answer every following query identically, and at the end a brand-new twin replays all queries of the final state. default: the same on the "
        "bundled registry (fewer cases). isolation: whatever is done to a second registry never changes the first one's answers. Non-trivial = a query "
        "asked on both sides of a state change that affects it; distinct = distinct history")
ASSUMPTIONS = ["each question is put to a deep copy of the freshly built twin (1.7 ms instead of 50 ms per question); deep copy itself is C18's subject",
               "the twin is built from the definition text plus the logged definitions in one constructor call ('a freshly built registry with the same definitions and settings')",
               "definitions made while a redefining context is active are excluded by construction (known finding) so that the search continues"]
MIN_COUNTS = {"quick": {"history": {"_evaluations": 150, "query_after_state_change": 1000}}}

LINES = """
@defaults
    group = international
    system = sysx
@end
xm = [xlen]
xs = [xtime]
xg = [xmass]
[xspeed] = [xlen] / [xtime]
kila- = 1000 = K-
mila- = 1 / 1000
foo = 3 * xm = fo
bar = 5 * foo
baz = 2 * xs
qux = 7 * xg = qx
spd = 9 * xm / xs
@group ga
    gfoo = 11 * xm
    gbaz = 4 * xs
@end
@group gb using ga
    gbar = 13 * xm
@end
@system sysx using ga
    xm
@end
@system sysy using gb
    foo: xm
    baz: xs
@end
@context ca
    [xlen] -> [xtime]: value * 2 * xs / xm
@end
@context(p=3) cb
    [xlen] -> [xtime]: value * p * xs / xm
@end
@context cr
    foo = 4 * xm
@end
@context cs
    baz = 6 * xs
    gfoo = 12 * xm
@end
@context cu
    bar = 2 * newu
@end
""".strip().splitlines()

REDEF = ("cr", "cs", "cu")
DEFS = ["newu = 2 * foo = nu", "newv = 5 * xs / xg", "deca- = 10 = D-", "@alias foo = fooz", "neww = 3 * newu", "hexa- = 16", "megax- = 1000000 = Mx-"]
UNITS = ["xm", "xs", "xg", "foo", "bar", "baz", "qux", "spd", "gfoo", "gbar", "gbaz", "kilafoo", "milabaz", "fo", "qx", "foos", "Kfo", "newu", "nu", "newv", "neww", "decaxm", "fooz", "Dfo",
         "hexabar", "kilanewu", "nope", "kilakilafoo"]
EXPRS = ["3 foo / baz", "2 kilafoo * xs", "bar ** 2", "1 / spd", "5 newu", "2 foo + 3 bar", "4 Kfo", "7 fooz / xs", "xm * xs / xg"]
SPECS = ["", "~", "P", "~P", "C", "~C"]


def tasks(tier, seed):
    t = [{"sub": "history", "shard": i} for i in range(6)]
    t += [{"sub": "default", "shard": i} for i in range(2)]
    t += [{"sub": "isolation", "shard": 0}, {"sub": "xcache", "shard": 0}, {"sub": "redefine", "shard": 0}]
    return t


# ------------------------------------------------------------------------------------- declarative state and twin

class State:
    def __init__(self):
        self.defs = []
        self.system = "sysx"
        self.contexts = []  # (name, p)
        self.group_edits = []  # (group, 'add'|'remove', unit)
        self.redef_seen = False  # a redefining context has been active since the base-units cache was last emptied (not part of the declarative state)

    def key(self):
        return (tuple(self.defs), self.system, tuple(self.contexts), tuple(self.group_edits))


def _cp_rule(ureg, value, p):
    return value * p * ureg.Quantity(1, "xg * xs / xm")


def build(lines, state: State):
    import pint

    text = list(lines)
    aliases = [d for d in state.defs if d.startswith("@alias")]
    # definitions are part of the text a fresh registry is built from
    ureg = pint.UnitRegistry(text + [d for d in state.defs if not d.startswith("@alias")] + aliases, non_int_type=Fraction)
    # a context added through the Python API, written with a derived dimension name (normalised by pint when it is first activated)
    cp = pint.Context("cp", defaults={"p": Fraction(3)})
    cp.add_transformation("[xspeed]", "[xmass]", _cp_rule)
    ureg.add_context(cp)
    for g, what, u in state.group_edits:
        grp = ureg.get_group(g)
        (grp.add_units if what == "add" else grp.remove_units)(u)
    ureg.default_system = state.system
    for name, p in state.contexts:
        ureg.enable_contexts(name, **({"p": p} if p is not None else {}))
    return ureg


def norm(v):
    if isinstance(v, tuple):
        return tuple(norm(x) for x in v)
    if isinstance(v, (frozenset, set)):
        return tuple(sorted(norm(x) for x in v))
    if hasattr(v, "magnitude") and hasattr(v, "_units"):
        m = v.magnitude
        return ("Q", str(Fraction(m)) if not isinstance(m, float) else repr(m), tuple(sorted((k, str(Fraction(e))) for k, e in v._units.items())))
    if hasattr(v, "_units"):
        return ("U", tuple(sorted((k, str(Fraction(e))) for k, e in v._units.items())))
    if hasattr(v, "items") and not isinstance(v, dict):
        return ("UC", tuple(sorted((k, str(Fraction(e))) for k, e in v.items())))
    if isinstance(v, (int, Fraction)) and not isinstance(v, bool):
        return str(Fraction(v))
    return v


def ask(ureg, q, held=None):
    """one read-only question; returns ('ok', normalised) or ('err', exception class name)"""
    kind = q[0]
    try:
        if kind == "convert":
            r = ureg.convert(Fraction(q[1]), q[2], q[3])
        elif kind == "parse_units":
            r = ureg.parse_units(q[1])
        elif kind == "parse_expr":
            r = ureg.parse_expression(q[1])
        elif kind == "parse_units_ci":
            r = ureg.parse_units(q[1], case_sensitive=False)
        elif kind == "parse_expr_ci":
            r = ureg.parse_expression(q[1], case_sensitive=False)
        elif kind == "name_ci":
            r = ureg.get_name(q[1], case_sensitive=False)
        elif kind == "name":
            r = (ureg.get_name(q[1]), ureg.get_symbol(q[1]))
        elif kind == "convert_as":
            # the same conversion with magnitudes of several number types: what one of them leaves in the registry must not reach the others
            from decimal import Decimal as _D

            mk_ = {"int": int, "float": float, "Fraction": Fraction, "Decimal": lambda v: _D(str(v))}[q[1]]
            v_ = ureg.Quantity(mk_(q[2]), q[3]).to(q[4]).magnitude
            r = (type(v_).__name__, repr(v_) if not isinstance(v_, float) else repr(round(v_, 12)))
        elif kind == "root":
            r = ureg.get_root_units(q[1])
        elif kind == "base":
            r = ureg.get_base_units(q[1])
        elif kind == "base_sys":
            r = ureg.get_base_units(q[1], system=q[2])
        elif kind == "dim":
            r = ureg.get_dimensionality(q[1])
        elif kind == "compat":
            r = ureg.get_compatible_units(q[1]) if q[2] is None else ureg.get_compatible_units(q[1], q[2])
        elif kind == "format":
            r = format(ureg.Quantity(Fraction(q[1]), q[2]), q[3])
        elif kind == "compact":
            r = ureg.Quantity(Fraction(q[1]), q[2]).to_compact()
        elif kind == "to_base":
            r = ureg.Quantity(Fraction(q[1]), q[2]).to_base_units()
        elif kind == "to":
            r = ureg.Quantity(Fraction(q[1]), q[2]).to(q[3])
        elif kind == "held":
            # a long-lived object answers like a newly created equal one
            obj = held[q[1]] if held is not None else ureg.Quantity(Fraction(3), ("bar", "spd", "kilafoo")[q[1]])
            r = (obj.dimensionality, obj.to_root_units(), obj.to_base_units(), format(obj, "~"))
        elif kind == "members":
            r = frozenset(ureg.get_group(q[1], False).members) if q[2] == "group" else frozenset(ureg.get_system(q[1], False).members)
        else:
            raise ValueError(kind)
        return ("ok", norm(r))
    except Exception as e:  # noqa: BLE001
        if isinstance(e, ValueError) and kind not in ("convert", "parse_units", "parse_expr", "parse_units_ci", "parse_expr_ci", "name_ci", "root", "base", "base_sys", "dim", "compat", "format", "compact", "to_base", "to", "held", "members", "convert_as"):
            raise
        return ("err", type(e).__name__)


def run_history(ops, lines=LINES, col=None, known=()):
    logging.disable(logging.CRITICAL)
    try:
        state = State()
        subject = build(lines, state)
        held = [subject.Quantity(Fraction(3), u) for u in ("bar", "spd", "kilafoo")]
        twin = build(lines, state)
        asked_in_state = []
        since_change = 0
        changed = False
        for op in ops:
            op = tuple(op)
            kind = op[0]
            if kind == "S":
                act = op[1]
                if act == "define":
                    d = DEFS[op[2] % len(DEFS)]
                    if d in state.defs:
                        continue
                    if any(n in REDEF for n, _ in state.contexts):
                        if "answer_depends_on_history:defined_inside_redefining_context" in known:
                            if col is not None:
                                col.excluded += 1
                            continue  # known finding, excluded by construction: such definitions are lost when the context is left
                        state.defs_in_ctx = True
                    if d.startswith("neww") and "newu = 2 * foo = nu" not in state.defs:
                        continue
                    s, r = attempt(subject.define, d)
                    if s == "err":
                        raise Violation(f"define_refused:{exc_class(r)}", f"define({d!r}) raised {r!r}")
                    state.defs.append(d)
                elif act == "enable":
                    s_, r_ = attempt(subject.enable_contexts, op[2], **({"p": Fraction(op[3])} if op[3] else {}))
                    if s_ == "err":
                        # context cu redefines bar through 'newu', which only exists after define(0): until then its activation must fail
                        # and leave no trace (the declarative state is unchanged); any other refusal is a violation
                        if op[2] == "cu" and DEFS[0] not in state.defs:
                            if col is not None:
                                col.count("failed_activation")
                            changed = True
                            continue
                        raise Violation(f"enable_refused:{exc_class(r_)}", f"enable_contexts({op[2]!r}) in state {state.key()} raised {r_!r}")
                    if op[2] == "cu" and DEFS[0] not in state.defs:
                        raise Violation("enable_accepted_undefined_reference", f"enable_contexts('cu') succeeded in state {state.key()} although newu is not defined")
                    state.contexts.append((op[2], Fraction(op[3]) if op[3] else None))
                    if op[2] in REDEF:
                        state.redef_seen = True
                elif act == "disable":
                    if not state.contexts:
                        continue
                    subject.disable_contexts(1)
                    state.contexts.pop()
                elif act == "system":
                    subject.default_system = op[2]
                    state.system = op[2]
                    state.redef_seen = any(n in REDEF for n, _ in state.contexts)  # assigning default_system empties the base-units cache
                elif act == "group":
                    g, what, u = op[2], op[3], op[4]
                    grp = subject.get_group(g)
                    members_now = set(grp._unit_names)
                    if (what == "add") == (u in members_now):
                        continue
                    (grp.add_units if what == "add" else grp.remove_units)(u)
                    state.group_edits.append((g, what, u))
                elif act == "second":
                    other = build(lines, State())
                    other.define("newu = 100 * xm")
                    other.enable_contexts("cr")
                    other.default_system = "sysy"
                    other.get_group("ga").add_units("qux")
                    other.convert(1, "bar", "xm")
                    continue  # not a change of the subject's declarative state
                twin = build(lines, state)
                asked_in_state = []
                changed = True
                continue
            q = op[1:]
            a = ask(subject, q, held)
            # the twin answers every question on an untouched copy of the freshly built registry: it has no query history at all
            b = ask(copy.deepcopy(twin), q)
            asked_in_state.append(q)
            if col is not None and changed:
                col.count("query_after_state_change")
            if a != b:
                klass = classify(q, state, a, b)
                if klass in known:
                    if col is not None:
                        col.excluded += 1
                    continue
                raise Violation(klass, f"state {state.key()}: {q} -> subject {a}, freshly built twin {b}")
        # a brand-new registry in the final state answers every question asked in that state
        final = build(lines, state)
        for q in asked_in_state:
            a, b = ask(subject, q, held), ask(copy.deepcopy(final), q)
            if a != b:
                klass = classify(q, state, a, b)
                if klass in known:
                    continue
                raise Violation(klass, f"final state {state.key()}: {q} -> subject {a}, brand-new registry {b}")
    finally:
        logging.disable(logging.NOTSET)


def classify(q, state, a, b):
    """narrow classes for the known findings; everything else is bucketed by the kind of question"""
    kind = q[0]
    if "kilakila" in str(q):
        return "answer_depends_on_history:double_prefix"
    if getattr(state, "defs_in_ctx", None) and any(n in str(q) for n in ("newu", "nu", "newv", "neww", "deca", "Dfo", "fooz", "hexa")):
        return "answer_depends_on_history:defined_inside_redefining_context"
    if kind == "compat" and state.defs:
        return "answer_depends_on_history:compat:defined_units_not_listed"
    if kind in ("base", "base_sys", "to_base", "held", "compact") and (any(n in REDEF for n, _ in state.contexts) or getattr(state, "redef_seen", False)):
        # known finding: answers of get_base_units are cached across context stacks, in both directions (cached outside and served inside,
        # or cached inside a redefining context and served after it has been left)
        return "answer_depends_on_history:base_units_cache_across_contexts"
    if kind in ("base", "to_base", "held", "compact", "format", "to", "convert", "root", "parse_expr") and state.contexts == [] and a[0] == "ok" and b[0] == "ok":
        pass
    if kind in ("members", "compat") and state.group_edits and (q[-1] in ("system",) or (kind == "compat" and q[2] in ("sysx", "sysy", None))):
        return "answer_depends_on_history:system_members_after_group_edit"
    if "kilakila" in str(q):
        return "answer_depends_on_history:double_prefix"
    return f"answer_depends_on_history:{kind}"


def _ops_strategy(units, exprs, contexts, systems, groups):
    u = st.sampled_from(units)
    x = st.sampled_from([1, 3, Fraction(5, 2), 1000, Fraction(1, 250)])
    query = st.one_of(
        st.tuples(st.just("Q"), st.just("convert"), x, u, u),
        st.tuples(st.just("Q"), st.just("to"), x, u, u),
        st.tuples(st.just("Q"), st.just("parse_units"), st.one_of(u, st.sampled_from(["foo/baz", "kilafoo*xs", "bar**2"]))),
        st.tuples(st.just("Q"), st.just("parse_expr"), st.sampled_from(exprs)),
        st.tuples(st.just("Q"), st.sampled_from(["parse_units_ci", "name_ci", "parse_units", "root"]), st.sampled_from(["Foo", "FOO", "Xm", "BAR", "foo", "Kilafoo", "QX", "Bar/xs"])),
        st.tuples(st.just("Q"), st.sampled_from(["parse_expr_ci", "parse_expr"]), st.sampled_from(["3 Foo", "2 BAR / Xs", "3 foo"])),
        st.tuples(st.just("Q"), st.just("root"), u),
        st.tuples(st.just("Q"), st.just("base"), u),
        st.tuples(st.just("Q"), st.just("base_sys"), u, st.sampled_from(systems)),
        st.tuples(st.just("Q"), st.just("dim"), u),
        st.tuples(st.just("Q"), st.just("compat"), u, st.sampled_from([None] + groups + systems)),
        st.tuples(st.just("Q"), st.just("format"), x, u, st.sampled_from(SPECS)),
        st.tuples(st.just("Q"), st.just("compact"), x, u),
        st.tuples(st.just("Q"), st.just("to_base"), x, u),
        st.tuples(st.just("Q"), st.just("held"), st.integers(0, 2)),
        st.tuples(st.just("Q"), st.just("members"), st.sampled_from(groups), st.just("group")),
        st.tuples(st.just("Q"), st.just("members"), st.sampled_from(systems), st.just("system")),
    )
    change = st.one_of(
        st.tuples(st.just("S"), st.just("define"), st.integers(0, 6)),
        st.tuples(st.just("S"), st.just("enable"), st.sampled_from(contexts), st.sampled_from([0, 0, 7])),
        st.tuples(st.just("S"), st.just("disable")),
        st.tuples(st.just("S"), st.just("system"), st.sampled_from(systems + [None])),
        st.tuples(st.just("S"), st.just("group"), st.sampled_from([g for g in groups if g != "root"]), st.sampled_from(["add", "remove"]), st.sampled_from(["qux", "spd", "gfoo", "foo"])),
        st.tuples(st.just("S"), st.just("second")),
    )
    free = st.lists(st.one_of(query, query, query, change), min_size=4, max_size=30)
    # motif: enter and leave a redefining context (or switch system / edit a group), then ask about units that depend on what was touched and
    # that this registry has not necessarily been asked about before (fresh cache slots)
    dep = st.sampled_from([u_ for u_ in units if u_ in ("foo", "bar", "baz", "gfoo", "spd", "kilafoo", "milabaz", "fo", "foos", "Kfo", "gbar", "gbaz")] or units)
    probe = st.one_of(st.tuples(st.just("Q"), st.just("convert"), x, dep, u), st.tuples(st.just("Q"), st.just("convert"), x, u, dep), st.tuples(st.just("Q"), st.just("root"), dep),
                      st.tuples(st.just("Q"), st.just("base"), dep), st.tuples(st.just("Q"), st.just("to_base"), x, dep), st.tuples(st.just("Q"), st.just("parse_expr"), st.sampled_from(exprs)),
                      st.tuples(st.just("Q"), st.just("compat"), dep, st.sampled_from([None] + groups + systems)), st.tuples(st.just("Q"), st.just("format"), x, dep, st.sampled_from(SPECS)))
    enter = st.tuples(st.just("S"), st.just("enable"), st.sampled_from(["cr", "cs"]), st.just(0))
    leave = st.just(("S", "disable"))
    motif = st.tuples(st.lists(st.one_of(query, change), max_size=4), enter, st.lists(st.one_of(probe, query), max_size=3), leave, st.lists(probe, min_size=2, max_size=5),
                      st.lists(st.one_of(query, query, change), max_size=8)).map(lambda t: list(t[0]) + [t[1]] + list(t[2]) + [t[3]] + list(t[4]) + list(t[5]))
    # motif: ask for a spelling while its unit / prefix / alias does not exist yet (negative answers must not be remembered), define it, ask again
    LATE = {0: ["newu", "newus", "kilanewu", "nu", "nus", "Knu"], 1: ["newv", "newvs", "milanewv"], 2: ["decaxm", "Dfo", "decafoos", "Dxm"], 3: ["fooz", "foozs", "kilafooz", "Kfooz"],
            5: ["hexabar", "hexaxm", "hexafoos"]}
    @st.composite
    def late(draw):
        k = draw(st.sampled_from(sorted(LATE)))
        sp = draw(st.lists(st.sampled_from(LATE[k]), min_size=1, max_size=3, unique=True))
        kinds = draw(st.lists(st.sampled_from(["parse_units", "root", "dim", "parse_units_ci"]), min_size=len(sp), max_size=len(sp)))
        qs = [("Q", kd, x) for kd, x in zip(kinds, sp)] + [("Q", "parse_expr", "3 " + sp[0])]
        pre = draw(st.lists(st.one_of(query, change), max_size=3))
        post = draw(st.lists(st.one_of(query, query, change), max_size=5))
        return list(pre) + qs + [("S", "define", k)] + qs + list(post)
    # motif: an activation that fails (cu needs newu), the missing unit is defined, the same activation is repeated and probed
    retry = st.tuples(st.lists(st.one_of(query, change), max_size=3), st.lists(probe, max_size=2), st.lists(probe, min_size=2, max_size=5), st.lists(st.one_of(query, query, change), max_size=5)).map(
        lambda t: list(t[0]) + [("S", "enable", "cu", 0)] + list(t[1]) + [("S", "define", 0), ("S", "enable", "cu", 0)] + list(t[2]) + [("S", "disable")] + list(t[3]))
    # motif: the default system is switched (also off) between identical questions about base units
    bq = st.lists(st.one_of(st.tuples(st.just("Q"), st.just("base"), dep), st.tuples(st.just("Q"), st.just("to_base"), x, dep), st.tuples(st.just("Q"), st.just("held"), st.integers(0, 2))), min_size=1, max_size=3)
    sysmotif = st.tuples(bq, st.sampled_from(systems + [None, None, ""]), st.sampled_from(systems + [None, None])).map(
        lambda t: list(t[0]) + [("S", "system", t[1])] + list(t[0]) + [("S", "system", t[2])] + list(t[0]))
    # motif: the API context cp is used with a keyword parameter, possibly after an earlier plain activation
    cq = [("Q", "convert", 2, "spd", "xg"), ("Q", "to", 3, "spd", "qux")]
    cpmotif = st.sampled_from([[("S", "enable", "cp", 7)] + cq + [("S", "disable")], [("S", "enable", "cp", 0)] + cq + [("S", "disable"), ("S", "enable", "cp", 7)] + cq,
                               [("S", "enable", "ca", 0), ("S", "enable", "cp", 0)] + cq + [("S", "disable"), ("S", "disable"), ("S", "enable", "cp", 7)] + cq])
    # motif: to_compact before and after a power-of-1000 prefix is defined
    kq = [("Q", "compact", 1000, "kilafoo"), ("Q", "compact", 1000, "kilafoo"), ("Q", "format", 1000, "kilafoo", "#~")] if False else [("Q", "compact", 1000, "kilafoo"), ("Q", "compact", 3, "bar")]
    compactmotif = st.just(kq + [("S", "define", 6)] + kq + [("Q", "compact", 1000, "megaxfoo")])
    # motif: listings of one dimension restricted to a group, to a system, unrestricted, in varying order (what one listing returns is not the table the
    # next one is computed from), optionally with the default system off or inside a rule context
    cu_ = st.sampled_from([u_ for u_ in units if u_ in ("xm", "foo", "gfoo", "gbar", "xs", "baz", "gbaz")] or units)
    listmotif = st.tuples(st.sampled_from([[], [("S", "system", None)], [("S", "enable", "ca", 0)]]), cu_, st.lists(st.sampled_from([g for g in groups] + [None, None] + systems), min_size=3, max_size=6)).map(
        lambda t: list(t[0]) + [("Q", "compat", t[1], g_) for g_ in t[2]] + [("Q", "compat", t[1], None)])
    return st.one_of(free, free, motif, late(), retry, sysmotif, cpmotif, compactmotif, listmotif).map(lambda ops: {"ops": [list(o) for o in ops]})


def case_history(case, col=None):
    if col is not None:
        col.case(("h", str(case["ops"])), any(o[0] == "S" for o in case["ops"]), sample={"ops": [list(map(str, o)) for o in case["ops"][:12]]}, cls="history")
    run_history(case["ops"], LINES, col, tuple(col.known_classes) if col is not None else ())


def run_history_task(task, tier, seed, col):
    strat = _ops_strategy(UNITS + ["foo", "bar", "baz", "gfoo", "kilafoo"], EXPRS, ["ca", "cb", "cr", "cs", "cr", "cs", "cu", "cp"], ["sysx", "sysy"], ["ga", "gb", "root"])
    hyp_search(col, strat, lambda c: case_history(c, col), max_examples=220 if tier == "quick" else 5000, seed=seed * 211 + task["shard"], shrink_budget_s=90)


# ------------------------------------------------------------------------------------- the bundled registry

D_UNITS = ["meter", "inch", "pound", "kilogram", "stone", "ounce", "second", "hour", "newton", "joule", "calorie", "kilometer", "millipound", "degC", "kelvin", "liter", "gallon", "nope", "mph", "kph"]
D_EXPRS = ["3 inch / hour", "2 pound * meter", "joule / newton", "5 kilometer + 3 mile", "1 / second"]


def default_build(state):
    import pint

    ureg = pint.UnitRegistry(non_int_type=Fraction)
    for d in state.defs:
        ureg.define(d) if False else None
    if state.defs:
        # the bundled text plus the added definitions
        import os

        path = os.path.join(os.path.dirname(pint.__file__), "default_en.txt")
        text = open(path, encoding="utf-8").read().splitlines()
        text = [ln if not ln.startswith("@import") else ln for ln in text]
        cwd = os.getcwd()
        os.chdir(os.path.dirname(path))
        try:
            tmp = os.path.join(os.path.dirname(path), "default_en.txt")
            ureg = pint.UnitRegistry(non_int_type=Fraction)
            for d in state.defs:
                ureg.define(d)
        finally:
            os.chdir(cwd)
    for g, what, u in state.group_edits:
        grp = ureg.get_group(g)
        (grp.add_units if what == "add" else grp.remove_units)(u)
    ureg.default_system = state.system
    for name, p in state.contexts:
        ureg.enable_contexts(name, **({"n": p} if p is not None else {}))
    return ureg


def case_default(case, col=None):
    """history independence on the bundled registry: state changes are context switches and default_system changes only (a twin cannot be
    rebuilt from 'text + definitions' without writing into the package directory)"""
    import pint

    logging.disable(logging.CRITICAL)
    try:
        if col is not None:
            col.case(("d", str(case["ops"])), True, sample={"ops": [list(map(str, o)) for o in case["ops"][:10]]}, cls="default_registry")
        subject = pint.UnitRegistry(non_int_type=Fraction)
        state = State()
        state.system = "mks"
        known = tuple(col.known_classes) if col is not None else ()

        def mk_twin():
            t = pint.UnitRegistry(non_int_type=Fraction)
            t.default_system = state.system
            for name, p in state.contexts:
                t.enable_contexts(name)
            return t

        twin = mk_twin()
        for op in case["ops"]:
            op = tuple(op)
            if op[0] == "S":
                if op[1] == "enable":
                    subject.enable_contexts(op[2])
                    state.contexts.append((op[2], None))
                elif op[1] == "disable":
                    if not state.contexts:
                        continue
                    subject.disable_contexts(1)
                    state.contexts.pop()
                elif op[1] == "system":
                    subject.default_system = op[2]
                    state.system = op[2]
                else:
                    continue
                twin = mk_twin()
                continue
            q = op[1:]
            # (every question goes to an untouched copy of the fresh twin: the twin must not share the subject's query history)
            a, b = ask(subject, q, None), ask(copy.deepcopy(twin), q)
            if a != b:
                klass = "default_registry:" + classify(q, state, a, b)
                if klass.replace("default_registry:", "") in known:
                    if col is not None:
                        col.excluded += 1
                    continue
                raise Violation(klass, f"bundled registry, state {state.key()}: {q} -> subject {a}, fresh twin {b}")
    finally:
        logging.disable(logging.NOTSET)


def run_default(task, tier, seed, col):
    u = st.sampled_from(D_UNITS)
    x = st.sampled_from([1, 3, Fraction(5, 2)])
    query = st.one_of(st.tuples(st.just("Q"), st.just("convert"), x, u, u), st.tuples(st.just("Q"), st.just("root"), u), st.tuples(st.just("Q"), st.just("base"), u),
                      st.tuples(st.just("Q"), st.just("to_base"), x, u), st.tuples(st.just("Q"), st.just("parse_expr"), st.sampled_from(D_EXPRS)),
                      st.tuples(st.just("Q"), st.just("compat"), u, st.sampled_from([None, "imperial", "mks", "US"])), st.tuples(st.just("Q"), st.just("format"), x, u, st.sampled_from(SPECS)),
                      st.tuples(st.just("Q"), st.just("compact"), st.sampled_from([1500, Fraction(1, 2000)]), u), st.tuples(st.just("Q"), st.just("dim"), u))
    change = st.one_of(st.tuples(st.just("S"), st.just("enable"), st.sampled_from(["sp", "boltzmann", "energy", "textile"])), st.tuples(st.just("S"), st.just("disable")),
                       st.tuples(st.just("S"), st.just("system"), st.sampled_from(["mks", "cgs", "imperial", "US", None, "SI", "atomic"])))
    free = st.lists(st.one_of(query, query, query, change), min_size=4, max_size=20)
    # motif: a prefixed unit is spelled out in full, then the short spelling that its prefix symbol + unit symbol would collide with is used
    # (kilo+tonne / kt = knot, milli+inch / min = minute, centi+day / cd = candela, peta+year / Pa = pascal, femto+tonne / ft = foot)
    COLL = [("kilotonne", "kt", "knot"), ("milliinch", "min", "minute"), ("centiday", "cd", "candela"), ("petayear", "Pa", "pascal"), ("femtotonne", "ft", "foot"), ("nanomile", "nmi", "nautical_mile")]
    coll = st.sampled_from(COLL).map(lambda t: [("Q", "root", t[0]), ("Q", "format", 3, t[0], "~"), ("Q", "root", t[1]), ("Q", "convert", 2, t[1], t[2]), ("Q", "dim", t[1]), ("Q", "parse_expr", "3 " + t[1]),
                                                 ("Q", "format", 3, t[2], "~")])
    # motif: a spelling written in the definitions that also reads as prefix + unit (milliarcsecond, kilometer_per_second, ...) is asked
    # before and after the same prefixed unit was reached through its short spellings
    R_ = env.R()
    named = []
    for s_ in sorted(R_.spell):
        for p_, u_ in R_.readings(s_):
            if p_ and u_ in R_.units and s_ == p_ + u_:  # the spelling is exactly prefix name + unit name: the key a lazily built prefixed unit gets
                ps = R_.prefixes[p_].symbol or p_
                us = R_.units[u_].symbol or u_
                named.append([("Q", "name", s_), ("Q", "root", s_), ("Q", "root", ps + us), ("Q", "root", p_ + u_ + "s"), ("Q", "name", s_), ("Q", "root", s_), ("Q", "format", 3, s_, "~")])
    # motif: one pair of units converted with magnitudes of different number types in varying order
    PAIRS = [("inch", "meter"), ("pound", "kilogram"), ("hour", "second"), ("kilometer", "meter"), ("calorie", "joule")]
    typed = st.tuples(st.sampled_from(PAIRS), st.lists(st.sampled_from(["Decimal", "float", "int", "Fraction", "Decimal", "float"]), min_size=3, max_size=6), st.booleans()).map(
        lambda t: [("Q", "convert_as", ty_, 3, *(t[0] if not (t[2] and i_ % 2) else t[0][::-1])) for i_, ty_ in enumerate(t[1])])
    strat = st.one_of(free, free, coll, typed, *([st.sampled_from(named)] if named else [])).map(lambda ops: {"ops": [list(o) for o in ops]})
    hyp_search(col, strat, lambda c: case_default(c, col), max_examples=25 if tier == "quick" else 600, seed=seed * 223 + task["shard"], shrink_budget_s=90)


# ------------------------------------------------------------------------------------- registry isolation

def case_isolation(case, col=None):
    logging.disable(logging.CRITICAL)
    try:
        if col is not None:
            col.case(("i", str(case)), True, sample=case, cls="isolation")
        first = build(LINES, State())
        battery = [("convert", 1, "bar", "xm"), ("root", "kilafoo"), ("base", "spd"), ("compat", "xm", None), ("parse_expr", "3 foo / baz"), ("format", 3, "bar", "~P"),
                   ("members", "ga", "group"), ("members", "sysx", "system"), ("parse_units", "newu"), ("dim", "spd"), ("compact", 5000, "foo")]
        before = [ask(first, q) for q in battery]
        # the second registry is built later, from other definitions of the same names (every unit factor tripled), or from the same text
        import re as _re

        other_lines = [_re.sub(r"^(\s*\w+ = )(\d+)( \* .*)$", lambda m_: f"{m_.group(1)}{int(m_.group(2)) * 3}{m_.group(3)}", l_) for l_ in LINES] if case.get("decoy", True) else LINES
        second = build(other_lines, State())
        for act in case["acts"]:
            if act == "first_switch":
                # the first registry enters and leaves a context (rules only; with a redefinition): whatever it switches to is its own
                first.enable_contexts("ca")
                first.disable_contexts()
                first.enable_contexts("cr")
                first.disable_contexts()
            elif act == "define":
                second.define("newu = 100 * xm")
            elif act == "context":
                second.enable_contexts("cr")
            elif act == "system":
                second.default_system = "sysy"
            elif act == "group":
                second.get_group("ga").add_units("qux")
            elif act == "queries":
                for q in battery:
                    ask(second, q)
            elif act == "format":
                second.formatter.default_format = "~P"
            after = [ask(first, q) for q in battery]
            if after != before:
                diff = [(q, a, b) for q, a, b in zip(battery, before, after) if a != b][:2]
                raise Violation(f"second_registry_changed_first:{act}", f"after {case['acts']}: {diff}")
    finally:
        logging.disable(logging.NOTSET)


def run_isolation(task, tier, seed, col):
    strat = st.tuples(st.lists(st.sampled_from(["define", "context", "system", "group", "queries", "format", "first_switch", "first_switch"]), min_size=1, max_size=6), st.booleans()).map(lambda t: {"acts": t[0], "decoy": t[1]})
    hyp_search(col, strat, lambda c: case_isolation(c, col), max_examples=60 if tier == "quick" else 1000, seed=seed * 227)


def run_xcache(task, tier, seed, col):
    """the on-disk cache is a cache too: registries that read a cache folder written by another interpreter run answer like one without"""
    from .c10 import case_xcache

    for src in ("bundled", "generated", "lines"):
        col.run_case(lambda c: case_xcache(c, col), {"source": src, "units": ["meter", "gram", "hour", "watt", "degree", "byte"], "hashseeds": [5, 2 + seed % 7, 13]})


# ------------------------------------------------------------------------------------- definitions replaced through define() / load_definitions()

R_LINES = ["xm = [xlen]", "xs = [xtime]", "xk = [xtemp]", "kila- = 1000 = K-", "foo = 3 * xm = fo", "bar = 5 * foo / xs", "tX = 2 * xk; offset: 100 = tx", "baz = 7 * xs"]
R_NEW = {"foo": ["foo = 4 * xm = fo", "foo = 1/2 * xm = fo"], "bar": ["bar = 9 * foo / xs", "bar = 2 * xm / baz"], "tX": ["tX = 5 * xk; offset: 20 = tx", "tX = 1/3 * xk; offset: -7 = tx"],
         "baz": ["baz = 11 * xs"], "kila-": ["kila- = 1024 = K-"]}
R_QUERIES = [("convert", 1, "foo", "xm"), ("convert", 1, "bar", "xm / xs"), ("root", "foo"), ("root", "bar"), ("base", "bar"), ("to", 2, "kilafoo", "xm"), ("to", 3, "fo", "xm"), ("to", 1, "delta_tX", "xk"),
             ("to", 10, "tX", "xk"), ("to", 50, "xk", "tx"), ("dim", "bar"), ("compat", "xm", None), ("convert", 6, "bar", "foo / baz"), ("parse_expr", "2 foo + 3 xm"), ("to_base", 4, "Kfo"), ("name", "fo")]


def case_redefine(case, col=None):
    """A registry that tolerates redefinitions (on_redefinition 'warn' - the default - or 'ignore') answers, after a definition has been replaced
    through define() or load_definitions(), like a registry built from the text with the replacement in place - whatever was asked before."""
    import pint

    logging.disable(logging.CRITICAL)
    try:
        subject = pint.UnitRegistry(list(R_LINES), non_int_type=Fraction, on_redefinition=case["policy"])
        current = {l.split(" = ")[0]: l for l in R_LINES}
        asked_before = redefs = 0
        for step in case["steps"]:
            if step[0] == "ask":
                qs = [R_QUERIES[i % len(R_QUERIES)] for i in step[1]]
            else:
                name, k = step[1], step[2]
                line = R_NEW[name][k % len(R_NEW[name])]
                if name == "kila-" and asked_before:
                    continue  # prefixed units registered before their prefix is replaced keep the old prefix: not decided by the statement, not generated
                (subject.define(line) if step[0] == "define" else subject.load_definitions([line]))
                current[name] = line
                redefs += 1
                qs = R_QUERIES
            twin = pint.UnitRegistry([current[l.split(" = ")[0]] for l in R_LINES], non_int_type=Fraction, on_redefinition=case["policy"])
            for q in qs:
                a, b = ask(subject, q), ask(twin, q)
                if a != b:
                    stale = "cached_answer" if asked_before else "first_answer"
                    raise Violation(f"answer_after_redefinition_differs_from_fresh_registry:{stale}:{q[0]}", f"{case}: after {step}, {q} -> {a}; a registry built with the replaced definitions -> {b}")
            asked_before += 1
        if col is not None:
            col.case(("rd", str(case)), redefs > 0 and any(s[0] == "ask" for s in case["steps"][:-1]), sample=case, cls=case["policy"])
    finally:
        logging.disable(logging.NOTSET)


def run_redefine(task, tier, seed, col):
    step = st.one_of(st.tuples(st.just("ask"), st.lists(st.integers(0, len(R_QUERIES) - 1), min_size=1, max_size=5)),
                     st.tuples(st.sampled_from(["define", "define", "load"]), st.sampled_from(sorted(R_NEW)), st.integers(0, 1)))
    strat = st.fixed_dictionaries({"policy": st.sampled_from(["warn", "ignore"]), "steps": st.lists(step, min_size=2, max_size=7).map(lambda l: [list(x) for x in l])})
    hyp_search(col, strat, lambda c: case_redefine(c, col), max_examples=120 if tier == "quick" else 2500, seed=seed * 229 + 7, shrink_budget_s=60)


def run_task(task, tier, seed, col):
    if task["sub"] == "xcache":
        return run_xcache(task, tier, seed, col)
    {"history": run_history_task, "default": run_default, "isolation": run_isolation, "redefine": run_redefine}[task["sub"]](task, tier, seed, col)


def replay(sub, case):
    if sub == "xcache":
        from .c10 import case_xcache

        return case_xcache(case)
    return {"history": case_history, "default": case_default, "isolation": case_isolation, "redefine": case_redefine}[sub](case)
