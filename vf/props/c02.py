"""C02 — conversion factors equal the exact ratio implied by the written definitions.

Oracle: factor_R(a) / factor_R(b), exact Fractions computed by the independent reader R.
"""
from __future__ import annotations

import contextlib
import math
import random
from decimal import Decimal
from fractions import Fraction

from hypothesis import strategies as st

from .. import env
from ..core import Collector, Skip, Violation, attempt, exc_class, hyp_search, khash, shard
from ..oracle.defreader import DefError
from ..numcmp import decimal_close, float_close, rel_err, ulps

PROPERTY = "C02"
LEVEL = "exploration"
RULE = ("pairs: every ordered same-dimension pair of multiplicative canonical units (exhaustive) in the Fraction, Decimal and float "
        "registries, asked twice and in both orders, result compared with the exact ratio computed by R (== and type check in "
        "Fraction for rational units; relative 1e-26*(n_ops+4) in Decimal; (16+4*n_ops) ulp in float); laws: identity, inverse, "
        "path independence over same-dimension triples; roots: get_root_units/to_root_units of every unit; prefixed: every prefix "
        "spelling x unit spelling x {'', 's'} with a unique reading (quick: seed-chosen 1/16 of the spellings); compound: Hypothesis "
        "compound units same-dimension by construction. Non-trivial = ratio != 1 and a chain of depth >= 2 on one side, or a "
        "prefixed/plural spelling; distinct = distinct (sub-check, registry type, unit pair)")
ASSUMPTIONS = [
    "R reads the same definition files as pint: a wrong digit in a file is C20's to catch, not C02's",
    "units reached through a fractional power of a scale (29 'float-tainted' units) are compared with the float tolerance in every registry type, as pint evaluates those powers in floating point",
]
MIN_COUNTS = {"quick": {"pairs": {"exact_checked": 3000, "nontrivial_pair": 9000}, "prefixed": {"checked": 3000}}}

NITS = ("Fraction", "Decimal", "float")


def tasks(tier, seed):
    t = []
    for nit in NITS:
        n = 4
        t += [{"sub": "pairs", "nit": nit, "shard": i, "nshard": n} for i in range(n)]
    t += [{"sub": "roots", "nit": nit} for nit in NITS]
    t += [{"sub": "laws", "nit": nit, "shard": i} for i, nit in enumerate(("Fraction", "Fraction", "float", "Decimal"))]
    npre = 4 if tier == "quick" else 16
    t += [{"sub": "prefixed", "shard": i, "nshard": npre} for i in range(npre)]
    t += [{"sub": "compound", "nit": nit, "shard": i} for i, nit in enumerate(("Fraction", "Fraction", "float", "Decimal"))]
    t += [{"sub": "generated", "shard": i} for i in range(2)]
    return t


def _groups():
    R = env.R()
    byd = {}
    for n in env.unit_names("mult"):
        byd.setdefault(tuple(sorted(R.resolve(n).dim.items())), []).append(n)
    return byd


def _ratio(fa, fb):
    if isinstance(fa, Fraction) and isinstance(fb, Fraction):
        return fa / fb
    return Fraction(fa) / Fraction(fb)


def compare(nit, got, x, ratio, exactable, n_ops, what):
    """got must be x*ratio in the registry's arithmetic."""
    want = Fraction(x) * ratio
    if nit == "Fraction" and exactable:
        if isinstance(got, bool) or not isinstance(got, (int, Fraction)):
            raise Violation("float_contamination:Fraction", f"{what}: result {got!r} has type {type(got).__name__} in the Fraction registry")
        if got != want:
            raise Violation("wrong_factor:Fraction", f"{what}: got {got}, exact {want} (rel.err {float(rel_err(got, want)):.3g})")
        return
    if nit == "Decimal":
        if not isinstance(got, Decimal):
            if isinstance(got, int) and not isinstance(got, bool) and got == want:
                return
            raise Violation("float_contamination:Decimal", f"{what}: result {got!r} has type {type(got).__name__} in the Decimal registry")
        if not got.is_finite():
            raise Violation("wrong_factor:Decimal", f"{what}: got {got}")
        tol_ops = n_ops
        if not exactable:
            # sqrt chains are evaluated by pint in Decimal arithmetic (28 digits): same tolerance
            pass
        if not decimal_close(got, want, tol_ops):
            raise Violation("wrong_factor:Decimal", f"{what}: got {got}, exact {float(want)!r} (rel.err {float(rel_err(got, want)):.3g})")
        return
    # float registry, or a float-tainted unit in the Fraction registry
    if isinstance(got, (Fraction, int)) and not isinstance(got, bool):
        g = float(got)
    elif isinstance(got, float):
        g = got
    else:
        raise Violation(f"wrong_result_type:{nit}", f"{what}: result {got!r} has type {type(got).__name__}")
    if not float_close(g, want, n_ops):
        raise Violation(f"wrong_factor:{nit}", f"{what}: got {g!r}, exact {float(want)!r} ({ulps(g, want):.3g} ulp, n_ops={n_ops})")


def _x_for(nit, k):
    if nit == "Fraction":
        return (1, Fraction(7, 3), 5)[k % 3]
    if nit == "Decimal":
        return (Decimal(1), Decimal("2.5"), 1)[k % 3]
    return (1.0, 3.0, 1)[k % 3]


# ------------------------------------------------------------------------------------- pairs

def case_pair(case):
    R = env.R()
    nit, a, b = case["nit"], case["a"], case["b"]
    ureg = env.ureg(nit)
    ra, rb = R.resolve(a), R.resolve(b)
    if ra.dim != rb.dim:
        raise Skip("not_same_dimension")
    exactable = not (ra.tainted or rb.tainted or ra.irrational or rb.irrational)
    ratio = _ratio(ra.factor, rb.factor)
    n_ops = ra.nops + rb.nops
    x = case["x"]
    # asked twice, and in both orders, in one registry: exposes a cache stored under a swapped key
    for rep in range(2):
        got = ureg.convert(x, a, b)
        compare(nit, got, x, ratio, exactable, n_ops, f"convert({x!r},{a!r},{b!r}) [ask {rep + 1}]")
        got = ureg.convert(x, b, a)
        compare(nit, got, x, 1 / ratio, exactable, n_ops, f"convert({x!r},{b!r},{a!r}) [ask {rep + 1}]")
    if case.get("full"):
        Q = ureg.Quantity
        q = Q(x, a)
        r = q.to(b)
        compare(nit, r.magnitude, x, ratio, exactable, n_ops, f"Q({x!r},{a!r}).to({b!r})")
        compare(nit, q.m_as(b), x, ratio, exactable, n_ops, f"Q({x!r},{a!r}).m_as({b!r})")
        q2 = Q(x, a)
        q2.ito(b)
        compare(nit, q2.magnitude, x, ratio, exactable, n_ops, f"Q({x!r},{a!r}).ito({b!r})")
        if q.magnitude != x or dict(q._units) != {a: 1}:
            raise Violation("operand_modified", f"Q({x!r},{a!r}) changed by to()/m_as()")


def run_pairs(task, tier, seed, col):
    R = env.R()
    nit = task["nit"]
    byd = _groups()
    allpairs = []
    for d, ns in sorted(byd.items()):
        for a in ns:
            for b in ns:
                if a < b:  # each unordered pair once; both orders are asked inside the case
                    allpairs.append((a, b))
    k = 0
    for a, b in shard(allpairs, task["shard"], task["nshard"]):
        k += 1
        ra, rb = R.resolve(a), R.resolve(b)
        ratio_is_one = ra.factor == rb.factor
        nt = (not ratio_is_one) and max(ra.depth, rb.depth) >= 2
        exactable = not (ra.tainted or rb.tainted)
        h = khash((a, b, seed))
        full = h % (13 if tier == "quick" else 3) == 0
        x = _x_for(nit, h)
        col.case((nit, a, b), nt, sample={"registry": nit, "a": a, "b": b, "x": x, "exact_ratio": str(_ratio(ra.factor, rb.factor))[:60]},
                 cls="exactable" if exactable else "float_tainted")
        if nt:
            col.count("nontrivial_pair")
        if exactable and nit == "Fraction":
            col.count("exact_checked")
        col.run_case(case_pair, {"nit": nit, "a": a, "b": b, "x": x, "full": full})
    col.exhaustive = True


# ------------------------------------------------------------------------------------- roots

def case_root(case):
    R = env.R()
    nit, a = case["nit"], case["a"]
    ureg = env.ureg(nit)
    ra = R.resolve(a)
    exactable = not (ra.tainted or ra.irrational)
    f, u = ureg.get_root_units(a)
    if env.uc_to_dict(u._units) != ra.root:
        raise Violation("root_units_differ", f"get_root_units({a!r}) units {dict(u._units)}, R {ra.root}")
    compare(nit, f, 1, Fraction(ra.factor), exactable, ra.nops, f"get_root_units({a!r}) factor")
    x = _x_for(nit, khash(a))
    q = ureg.Quantity(x, a).to_root_units()
    if env.uc_to_dict(q._units) != ra.root:
        raise Violation("root_units_differ", f"Q({a!r}).to_root_units() units {dict(q._units)}, R {ra.root}")
    compare(nit, q.magnitude, x, Fraction(ra.factor), exactable, ra.nops, f"Q({x!r},{a!r}).to_root_units()")
    # identity
    got = ureg.convert(x, a, a)
    if got != x or type(got) is not type(x):
        raise Violation("identity_conversion", f"convert({x!r},{a!r},{a!r}) returned {got!r}")


def run_roots(task, tier, seed, col):
    R = env.R()
    for a in env.unit_names("mult"):
        ra = R.resolve(a)
        col.case((task["nit"], "root", a), ra.depth >= 2, sample={"registry": task["nit"], "unit": a, "factor": str(ra.factor)[:50], "root": {k: str(v) for k, v in ra.root.items()}})
        col.run_case(case_root, {"nit": task["nit"], "a": a})
    col.exhaustive = True


# ------------------------------------------------------------------------------------- laws

def _entry_points(ureg, nit, x, a, b, ref):
    """Every way of asking for the same conversion gives the answer of ureg.convert(x, a, b): Quantity.to / ito / m_as, the same with a
    context name passed along (a context never changes a conversion inside one dimension), in-place and ndarray forms."""
    def same(v, what):
        ok = (v == ref) if nit == "Fraction" else (abs(float(v) - float(ref)) <= 1e-12 * abs(float(ref)) + 1e-300)
        if not ok:
            raise Violation(f"entry_points_disagree:{what.split('(')[0]}", f"{what} of {x!r} {a} -> {b} gives {v!r}, ureg.convert gives {ref!r}")

    Q = ureg.Quantity
    same(Q(x, a).to(b).magnitude, "Quantity.to")
    same(Q(x, a).m_as(b), "Quantity.m_as")
    q = Q(x, a)
    q.ito(b)
    same(q.magnitude, "Quantity.ito")
    same(Q(x, a).to(b, "sp").magnitude, "Quantity.to(ctx)")
    q = Q(x, a)
    q.ito(b, "sp")
    same(q.magnitude, "Quantity.ito(ctx)")
    with ureg.context("sp"):
        same(Q(x, a).to(b).magnitude, "Quantity.to(in context)")
    if nit == "float":
        import numpy as np

        ratio = float(ref) / float(x) if x else None
        if ratio is not None:
            arr = np.array([float(x), 2 * float(x), 0.5])
            want = arr * ratio
            for what, fn in (("convert(ndarray)", lambda: ureg.convert(arr.copy(), a, b)), ("convert(ndarray,inplace)", lambda: ureg.convert(arr.copy(), a, b, inplace=True)),
                             ("ito(ndarray)", lambda: (lambda qq: (qq.ito(b), qq.magnitude)[1])(Q(arr.copy(), a))), ("to(ndarray)", lambda: Q(arr.copy(), a).to(b).magnitude)):
                got = fn()
                if not np.allclose(got, want, rtol=1e-12, atol=0):
                    raise Violation(f"entry_points_disagree:{what.split('(')[0]}:ndarray", f"{what} {a} -> {b}: {got!r}, expected {want!r}")
            # a conversion that is not asked to work in place leaves its source alone - also while a context is active (rules of a context
            # never apply inside one dimension) and when asked twice
            for what, ctxs in (("to(ndarray)", ()), ("to(ndarray, in context)", ("sp",)), ("convert(ndarray, in context)", ("sp", "boltzmann"))):
                src = arr.copy()
                qsrc = Q(src, a)
                with ureg.context(*ctxs) if ctxs else contextlib.nullcontext():
                    outs = [ureg.convert(src, a, b) if what.startswith("convert") else qsrc.to(b).magnitude for _ in range(2)]
                if not np.array_equal(src, arr) or dict(qsrc._units) != dict(Q(1, a)._units):
                    raise Violation(f"conversion_modified_its_source:{what.split('(')[0]}{':context' if ctxs else ''}", f"{what} {a} -> {b}: the source array {arr!r} [{a}] is now {src!r} [{qsrc.units}]")
                for got in outs:
                    if not np.allclose(got, want, rtol=1e-12, atol=0):
                        raise Violation(f"entry_points_disagree:{what.split('(')[0]}:ndarray{':context' if ctxs else ''}", f"{what} {a} -> {b}: {got!r}, expected {want!r}")
            # integer arrays cannot hold a converted value in place: numpy's casting error or a correct result, never truncated numbers
            iarr = np.array([1500, 250, 3])
            for what, fn in (("ito(int ndarray)", lambda: (lambda qq: (qq.ito(b), qq.magnitude)[1])(Q(iarr.copy(), a))), ("convert(int ndarray,inplace)", lambda: ureg.convert(iarr.copy(), a, b, inplace=True))):
                s_, got = attempt(fn)
                if s_ == "ok" and not np.allclose(np.asarray(got, dtype=float), iarr * ratio, rtol=1e-12, atol=0):
                    raise Violation("inplace_conversion_of_integer_array_truncates", f"{what} {a} -> {b}: {got!r}, exact {iarr * ratio!r}")


def case_law(case):
    R = env.R()
    nit, a, b, c, x = case["nit"], case["a"], case["b"], case["c"], case["x"]
    ureg = env.ureg(nit)
    rs = [R.resolve(n) for n in (a, b, c)]
    exactable = not any(r.tainted or r.irrational for r in rs)
    ab = ureg.convert(x, a, b)
    abc = ureg.convert(ab, b, c)
    ac = ureg.convert(x, a, c)
    aba = ureg.convert(ab, b, a)
    n_ops = sum(r.nops for r in rs) * 2
    _entry_points(ureg, nit, x, a, b, ab)
    if nit == "Fraction" and exactable:
        if abc != ac:
            raise Violation("law:path_independence", f"{a}->{b}->{c} gives {abc}, {a}->{c} gives {ac}")
        if aba != x:
            raise Violation("law:inverse", f"{a}->{b}->{a} of {x!r} gives {aba}")
    elif nit == "Decimal":
        if not decimal_close(abc, Fraction(ac), n_ops) or not decimal_close(aba, Fraction(x), n_ops):
            raise Violation("law:path_or_inverse:Decimal", f"{a},{b},{c}: {abc} vs {ac}; {aba} vs {x}")
    else:
        if not float_close(float(abc), Fraction(ac), n_ops) or not float_close(float(aba), Fraction(x), n_ops):
            raise Violation(f"law:path_or_inverse:{nit}", f"{a},{b},{c}: {abc!r} vs {ac!r}; {aba!r} vs {x!r}")


def run_laws(task, tier, seed, col):
    byd = _groups()
    rnd = random.Random(seed * 977 + task["shard"])
    classes = [ns for ns in byd.values() if len(ns) >= 3]
    n = 3000 if tier == "quick" else 40000
    R = env.R()
    for i in range(n):
        ns = rnd.choice(classes)
        a, b, c = rnd.sample(ns, 3)
        x = _x_for(task["nit"], i)
        col.case((task["nit"], a, b, c), True, sample={"registry": task["nit"], "triple": [a, b, c], "x": x})
        col.run_case(case_law, {"nit": task["nit"], "a": a, "b": b, "c": c, "x": x})


# ------------------------------------------------------------------------------------- prefixed / plural spellings

def case_prefixed(case):
    """1 <p+u+s> -> <canonical u> equals the prefix value, applied exactly once."""
    R = env.R()
    ureg = env.ureg("Fraction")
    s, canon, pval = case["s"], case["canon"], case["pval"]
    r = R.resolve(canon)
    exactable = not (r.tainted or r.irrational)
    got = ureg.convert(1, s, canon)
    compare("Fraction", got, 1, Fraction(pval), exactable, 2 * r.nops + 1, f"convert(1,{s!r},{canon!r})")
    back = ureg.convert(1, canon, s)
    compare("Fraction", back, 1, 1 / Fraction(pval), exactable, 2 * r.nops + 1, f"convert(1,{canon!r},{s!r})")
    if case.get("float"):
        uf = env.ureg("float")
        g = uf.convert(1.0, s, canon)
        compare("float", g, 1, Fraction(pval), False, 2 * r.nops + 1, f"float convert(1,{s!r},{canon!r})")


def run_prefixed(task, tier, seed, col):
    R = env.R()
    mult = set(env.unit_names("mult"))
    spells = sorted(s for s, c in R.spell.items() if c in mult and "%" not in s and "‰" not in s)
    if tier == "quick":
        spells = [s for s in spells if khash((s, seed)) % 16 == 0]
    prefixes = sorted(R.pspell)
    work = [(p, s, suf) for s in spells for p in [""] + prefixes for suf in ("", "s")]
    skipped = 0
    for p, s, suf in shard(work, task["shard"], task["nshard"]):
        string = p + s + suf
        if not p and not suf:
            continue
        if string in R.spell:
            skipped += 1
            continue
        rs = R.readings(string)
        if len(rs) != 1:
            skipped += 1  # ambiguous or unreadable spellings are C08's
            continue
        pn, canon = rs[0]
        if canon not in mult:
            skipped += 1
            continue
        pval = R.prefixes[pn].value if pn else Fraction(1)
        col.case(("pre", string), True, sample={"string": string, "reads_as": [pn, canon], "prefix_value": str(pval)},
                 cls="plural" if suf and not p else ("prefix_plural" if suf else "prefix"))
        col.count("checked")
        col.run_case(case_prefixed, {"s": string, "canon": canon, "pval": pval, "float": khash(string) % 5 == 0})
    col.count("skipped_not_uniquely_readable", skipped)
    col.exhaustive = tier == "thorough"


# ------------------------------------------------------------------------------------- compound (Hypothesis)

def _compound_strategy(nit):
    R = env.R()
    byd = _groups()
    names = [n for ns in byd.values() for n in ns]
    key = {n: k for k, ns in byd.items() for n in ns}
    if nit == "Fraction":
        exps = st.one_of(st.integers(-3, 3).filter(bool), st.sampled_from([Fraction(1, 2), Fraction(-1, 2), Fraction(3, 2), Fraction(2, 3)]))
        xs = st.one_of(st.integers(-50, 50), st.fractions(-100, 100, max_denominator=50))
    elif nit == "Decimal":
        exps = st.integers(-3, 3).filter(bool)
        xs = st.one_of(st.integers(-50, 50), st.decimals(-100, 100, places=3))
    else:
        exps = st.one_of(st.integers(-3, 3).filter(bool), st.sampled_from([0.5, -0.5, 1.5]))
        xs = st.one_of(st.integers(-50, 50), st.floats(-1e6, 1e6, allow_nan=False, allow_subnormal=False))
    factor = st.tuples(st.sampled_from(names), exps)

    @st.composite
    def strat(draw):
        fa = draw(st.lists(factor, min_size=1, max_size=4, unique_by=lambda t: t[0]))
        fb = {}
        for n, e in fa:
            m = draw(st.sampled_from(byd[key[n]]))
            fb[m] = fb.get(m, 0) + e
        if draw(st.booleans()):
            x = draw(st.sampled_from(names))
            y = draw(st.sampled_from(byd[key[x]]))
            fb[x] = fb.get(x, 0) + 1
            fb[y] = fb.get(y, 0) - 1
        fb = [[n, e] for n, e in fb.items() if e != 0]
        return {"nit": nit, "a": [list(t) for t in fa], "b": fb, "x": draw(xs)}

    return strat()


def case_compound(case, col=None):
    R = env.R()
    nit = case["nit"]
    ureg = env.ureg(nit)
    fa, fb, x = case["a"], case["b"], case["x"]
    try:
        A = R.resolve_compound({n: Fraction(e) for n, e in fa})
        B = R.resolve_compound({n: Fraction(e) for n, e in fb})
    except DefError:
        raise Skip("fractional_power_of_negative_scale")
    if A[2] != B[2]:
        raise Skip("generator_dimension_mismatch")
    frac_exp = any(Fraction(e).denominator != 1 for _, e in fa + fb)
    exactable = not (A[3] or B[3] or isinstance(A[0], Decimal) or isinstance(B[0], Decimal))
    ratio = _ratio(A[0], B[0])
    if col is not None:
        col.case((nit, str(fa), str(fb)), ratio != 1, sample={"registry": nit, "a": fa, "b": fb, "x": x},
                 cls="exactable" if exactable else "float_tainted")
        if frac_exp:
            col.count("rational_exponent")
    ua = ureg.UnitsContainer({n: e for n, e in fa})
    ub = ureg.UnitsContainer({n: e for n, e in fb})
    if not fb:
        ub = ureg.UnitsContainer({})
    # float error bound: a relative error of the factor of a unit is multiplied by |exponent| when the unit is raised to it (d(f^n)/f^n = n df/f),
    # and pint raises every scale met while descending the definitions to that power
    n_ops = 2 + sum((R.resolve_spelling(n).nops + 1) * max(1, math.ceil(abs(Fraction(e)))) for n, e in fa + fb)
    big = abs(ratio) > Fraction(10) ** 250 or (ratio != 0 and abs(ratio) < Fraction(10) ** -250)
    if big and not (nit == "Fraction" and exactable):
        raise Skip("ratio_outside_float_range")
    wantf = abs(Fraction(x) * ratio)
    if wantf != 0 and nit != "Decimal" and not (nit == "Fraction" and exactable) and not (Fraction(10) ** -290 < wantf < Fraction(10) ** 290):
        raise Skip("result_outside_normal_float_range")
    got = ureg.convert(x, ua, ub)
    if ua == ub:
        if got != x:
            raise Violation("identity_conversion", f"convert({x!r}, u, u) = {got!r}")
        return
    if nit == "float" and isinstance(x, int):
        # int * float factor
        pass
    compare(nit, got, x, ratio, exactable, n_ops, f"convert({x!r},{fa},{fb})")
    q = ureg.Quantity(x, ua).to(ub)
    compare(nit, q.magnitude, x, ratio, exactable, n_ops, f"Q({x!r},{fa}).to({fb})")


def run_compound(task, tier, seed, col):
    n = 500 if tier == "quick" else 8000
    hyp_search(col, _compound_strategy(task["nit"]), lambda c: case_compound(c, col), max_examples=n,
               seed=seed * 131 + task["shard"])


# ------------------------------------------------------------------------------------- generated definition files

def case_generated(case, col=None):
    import logging

    import pint

    from ..gen import regmodel

    model, nit = case["model"], case["nit"]
    logging.disable(logging.CRITICAL)
    try:
        lines, _ = regmodel.render(model)
        path = case.get("path", "lines")
        if path == "lines" or case.get("autoreduce"):
            ureg = pint.UnitRegistry(lines, non_int_type=env.NIT[nit])
        else:
            # the same definitions through another loading path (file, @import, on-disk cache incl. one that another definition set has used)
            import shutil
            import tempfile

            from .c10 import load

            work = tempfile.mkdtemp(prefix="vf_gen_")
            try:
                ureg = load(model, path, nit, work)
            finally:
                shutil.rmtree(work, ignore_errors=True)
        res = regmodel.resolve(model)
        if col is not None:
            col.case(("gen", "\n".join(lines), nit), True, sample={"lines": lines, "registry": nit}, cls="generated_registry")
        names = sorted(res)
        pre = model["prefixes"]
        for a in names:
            for b in names:
                if res[a][1] != res[b][1]:
                    continue
                ratio = res[a][0] / res[b][0]
                x = _x_for(nit, hash((a, b)) & 7)
                for rep in range(2):
                    compare(nit, ureg.convert(x, a, b), x, ratio, True, 12, f"generated convert({x!r},{a!r},{b!r})")
                    compare(nit, ureg.convert(x, b, a), x, 1 / ratio, True, 12, f"generated convert({x!r},{b!r},{a!r})")
                if pre:
                    p = pre[hash(a) % len(pre)]
                    for sp_ in [p["name"]] + ([p["symbol"]] if p["symbol"] else []) + p["aliases"]:
                        compare(nit, ureg.convert(x, sp_ + a, b), x, ratio * p["value"], True, 14, f"generated convert({x!r},{sp_ + a!r},{b!r})")
                        compare(nit, ureg.convert(x, a + "s", sp_ + b), x, ratio / p["value"], True, 14, f"generated convert({x!r},{a + 's'!r},{sp_ + b!r})")
    finally:
        logging.disable(logging.NOTSET)


def run_generated(task, tier, seed, col):
    from ..gen import regmodel

    strat = st.builds(lambda m, nit, pa: {"model": m, "nit": nit, "path": pa}, regmodel.models(with_offset=False, with_groups=False, with_systems=False), st.sampled_from(["Fraction", "Fraction", "float", "Decimal"]),
                      st.sampled_from(["lines", "file", "import", "cache", "cache_lines", "cache_import"]))
    hyp_search(col, strat, lambda c: case_generated(c, col), max_examples=60 if tier == "quick" else 1500, seed=seed * 179 + task["shard"], shrink_budget_s=60)


# ------------------------------------------------------------------------------------- dispatch

def run_task(task, tier, seed, col):
    {"pairs": run_pairs, "roots": run_roots, "laws": run_laws, "prefixed": run_prefixed, "compound": run_compound, "generated": run_generated}[task["sub"]](task, tier, seed, col)


def replay(sub, case):
    return {"pairs": case_pair, "roots": case_root, "laws": case_law, "prefixed": case_prefixed, "compound": case_compound, "generated": case_generated}[sub](case)
