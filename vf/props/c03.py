"""C03 — arithmetic results do not depend on the units used to express the operands.

Oracles: (1) metamorphic — the same expression tree evaluated under two unit assignments of the same physical
leaves; (2) a reference evaluation of the tree over exact (base value, R-dimension) pairs.
"""
from __future__ import annotations

import copy
import math
import operator
from fractions import Fraction

from hypothesis import strategies as st

from .. import env
from ..core import Collector, Skip, Violation, attempt, exc_class, hyp_search

PROPERTY = "C03"
LEVEL = "exploration"
RULE = ("Hypothesis expression trees (depth <= 3) over + - * / // % divmod, integer powers, neg, abs and a comparison at the root; leaves are "
        "physical values with two independently drawn unit assignments (exact Fraction magnitudes), dimensionless units and bare numbers "
        "(int, Fraction, 0). exact: Fraction registry, both assignments and the reference model must give the same (value, dimension) or the "
        "same error class; forms: reflected and in-place operator forms equal the plain form and modify only the in-place target; float: "
        "float registry incl. small ndarrays and rational powers with 1e-9 relative tolerance; offsetcmp: == != < <= > >= between two temperatures, "
        "each expressed in kelvin/degC/degF/degR/millikelvin (incl. the values whose magnitude is 0 in one of the units), must equal the comparison in kelvin. Non-trivial = the two assignments differ on a "
        "leaf and some node combines operands in different units; distinct = distinct (tree, leaves)")
ASSUMPTIONS = ["leaf units are restricted to units with rational positive factors so that re-expression is exact",
               "offset/log units are C06's"]
MIN_COUNTS = {"quick": {"exact": {"evaluated": 400, "mixed_units_node": 300, "additive_node": 200}}}

ERR = ("DimensionalityError", "OffsetUnitCalculusError", "ZeroDivisionError", "ValueError", "OverflowError")


def tasks(tier, seed):
    t = [{"sub": "exact", "shard": i} for i in range(6)]
    t += [{"sub": "forms", "shard": i} for i in range(2)]
    t += [{"sub": "float", "shard": i} for i in range(3)]
    t += [{"sub": "errors", "shard": 0}, {"sub": "offsetcmp", "shard": 0}]
    return t


def _classes():
    R = env.R()
    byd = {}
    for n in env.unit_names("mult"):
        r = R.resolve(n)
        if r.tainted or r.irrational or r.factor <= 0:
            continue
        byd.setdefault(tuple(sorted(r.dim.items())), []).append(n)
    return {k: v for k, v in byd.items() if len(v) >= 2}


# ------------------------------------------------------------------------------------- tree generation

BIN = ["add", "sub", "mul", "div", "floordiv", "mod"]
ADDITIVE = ("add", "sub", "floordiv", "mod")


def _tree_strategy(exact=True, max_depth=3):
    R = env.R()
    classes = _classes()
    keys = sorted(classes)
    big = [k for k in keys if len(classes[k]) >= 4]
    if exact:
        xs = st.one_of(st.integers(-12, 12), st.fractions(-20, 20, max_denominator=12))
        nums = st.one_of(st.integers(-5, 5), st.fractions(-5, 5, max_denominator=6), st.just(0))
    else:
        xs = st.floats(-1e3, 1e3, allow_nan=False, allow_subnormal=False).filter(lambda v: v == 0 or abs(v) > 1e-3)
        nums = st.one_of(st.integers(-5, 5), st.floats(-5, 5, allow_nan=False, allow_subnormal=False), st.just(0))

    @st.composite
    def leaf(draw, key=None):
        if key is None and draw(st.integers(0, 5)) == 0:
            return {"t": "num", "n": draw(nums)}
        k = key if key is not None else draw(st.sampled_from(big if draw(st.booleans()) else keys))
        ua = draw(st.sampled_from(classes[k]))
        ub = draw(st.sampled_from(classes[k]))
        return {"t": "q", "k": list(k), "ua": ua, "ub": ub, "x": draw(xs)}

    def shape_like(draw, node):
        """a fresh subtree with the same dimension as `node` by construction (same shape, fresh leaves of the same classes)"""
        if node["t"] == "q":
            return draw(leaf(key=tuple(tuple(p) for p in node["k"])))
        if node["t"] == "num":
            return {"t": "num", "n": draw(nums)}
        if node["t"] == "un":
            return {"t": "un", "op": node["op"], "a": shape_like(draw, node["a"])}
        if node["t"] == "pow":
            return {"t": "pow", "k": node["k"], "a": shape_like(draw, node["a"])}
        return {"t": "bin", "op": node["op"] if node["op"] in ("mul", "div") else draw(st.sampled_from(["add", "sub"])) if node["op"] in ("add", "sub") else node["op"],
                "a": shape_like(draw, node["a"]), "b": shape_like(draw, node["b"])}

    @st.composite
    def tree(draw, depth=max_depth):
        if depth == 0 or draw(st.integers(0, 3)) == 0:
            return draw(leaf())
        kind = draw(st.sampled_from(["bin", "bin", "bin", "un", "pow"]))
        if kind == "un":
            return {"t": "un", "op": draw(st.sampled_from(["neg", "abs"])), "a": draw(tree(depth - 1))}
        if kind == "pow":
            ks = [2, 3, -1, -2, 0, 1] if exact else [2, 3, -1, 0.5, 1.5, 0]
            k = draw(st.sampled_from(ks))
            sub = draw(tree(depth - 1))
            if isinstance(k, float):  # real-valued fractional powers need a non-negative base
                sub = {"t": "un", "op": "abs", "a": sub}
            return {"t": "pow", "k": k, "a": sub}
        op = draw(st.sampled_from(BIN if exact else ["add", "sub", "mul", "div"]))
        a = draw(tree(depth - 1))
        if op in ADDITIVE and draw(st.integers(0, 9)) > 0:
            b = shape_like(draw, a)
        else:
            b = draw(tree(depth - 1))
        return {"t": "bin", "op": op, "a": a, "b": b}

    @st.composite
    def top(draw):
        t = draw(tree())
        root = draw(st.sampled_from([None, None, "lt", "le", "gt", "ge", "eq", "ne", "divmod"] if exact else [None, None, "lt", "le", "gt", "ge"]))
        if root:
            other = shape_like(draw, t) if draw(st.integers(0, 9)) > 0 else draw(tree(1))
            t = {"t": "root", "op": root, "a": t, "b": other}
        return {"tree": t}

    return top()


# ------------------------------------------------------------------------------------- evaluation

class ModelError(Exception):
    def __init__(self, kind):
        self.kind = kind


def _fexact(x):
    return Fraction(x)


def reexpress(R, x, ua, ub, exact):
    fa, fb = R.resolve(ua).factor, R.resolve(ub).factor
    if exact:
        return Fraction(x) * fa / fb
    return float(Fraction(x) * fa / fb)


_MAGTYPE = ["float"]


def eval_pint(node, which, ureg, R, exact, stats):
    t = node["t"]
    if t == "num":
        return node["n"]
    if t == "q":
        mt = (lambda v: Fraction(v)) if (_MAGTYPE[0] == "Fraction" and not exact) else (lambda v: v)  # exact rational magnitudes in the float registry
        if which == "a":
            return ureg.Quantity(Fraction(node["x"]) if exact else mt(node["x"]), node["ua"])
        return ureg.Quantity(mt(reexpress(R, node["x"], node["ua"], node["ub"], exact)), node["ub"])
    if t == "un":
        v = eval_pint(node["a"], which, ureg, R, exact, stats)
        return -v if node["op"] == "neg" else abs(v)
    if t == "pow":
        base = eval_pint(node["a"], which, ureg, R, exact, stats)
        if exact and isinstance(base, int):
            base = Fraction(base)
        return base ** node["k"]
    a = eval_pint(node["a"], which, ureg, R, exact, stats)
    b = eval_pint(node["b"], which, ureg, R, exact, stats)
    if exact and not hasattr(a, "_units") and not hasattr(b, "_units"):
        # both operands are plain Python numbers: keep them rational (int / int is Python's float, not pint's)
        a = Fraction(a) if isinstance(a, int) and not isinstance(a, bool) else a
        b = Fraction(b) if isinstance(b, int) and not isinstance(b, bool) else b
    if stats is not None and hasattr(a, "_units") and hasattr(b, "_units") and a._units != b._units:
        stats["mixed"] = True
    op = node["op"]
    if op in ADDITIVE and stats is not None:
        stats["additive"] = True
    return {"add": operator.add, "sub": operator.sub, "mul": operator.mul, "div": operator.truediv, "floordiv": operator.floordiv,
            "mod": operator.mod, "lt": operator.lt, "le": operator.le, "gt": operator.gt, "ge": operator.ge, "eq": operator.eq,
            "ne": operator.ne, "divmod": divmod}[op](a, b)


def eval_model(node, R):
    """Reference semantics over (exact value, dimension dict); bare numbers are dimensionless values tagged 'num'."""
    t = node["t"]
    if t == "num":
        return (Fraction(node["n"]), {}, True)
    if t == "q":
        r = R.resolve(node["ua"])
        return (Fraction(node["x"]) * r.factor, dict(r.dim), False)
    if t == "un":
        v, d, isnum = eval_model(node["a"], R)
        return ((-v if node["op"] == "neg" else abs(v)), d, isnum)
    if t == "pow":
        v, d, isnum = eval_model(node["a"], R)
        k = node["k"]
        if k < 0 and v == 0:
            raise ModelError("ZeroDivisionError")
        if isinstance(k, float):
            kk = Fraction(k)
            return (Fraction(float(v) ** k), {x: e * kk for x, e in d.items() if e * kk != 0}, isnum)
        return (v ** k, {x: e * k for x, e in d.items() if e * k != 0}, isnum)
    va, da, na = eval_model(node["a"], R)
    vb, db, nb = eval_model(node["b"], R)
    op = node["op"]
    if op in ("mul", "div"):
        if op == "div" and vb == 0:
            raise ModelError("ZeroDivisionError")
        d = dict(da)
        for x, e in db.items():
            d[x] = d.get(x, 0) + (e if op == "mul" else -e)
        return ((va * vb if op == "mul" else va / vb), {x: e for x, e in d.items() if e != 0}, na and nb)
    # additive family, comparisons: same dimension required; a bare number is accepted when the quantity is dimensionless or the number is 0
    if da != db:
        if (na and va == 0 and op in ("add", "sub", "lt", "le", "gt", "ge", "eq", "ne")) or (nb and vb == 0 and op in ("add", "sub", "lt", "le", "gt", "ge", "eq", "ne")):
            # q +/- 0 keeps q; comparisons with 0 use the sign of the magnitude
            if op == "add":
                return (va + vb, da if nb else db, False)
            if op == "sub":
                return (va - vb, da if nb else db, False)
            if op in ("eq", "ne"):
                res = (va == vb)
                return (res if op == "eq" else not res, None, True)
            return ({"lt": va < vb, "le": va <= vb, "gt": va > vb, "ge": va >= vb}[op], None, True)
        if op == "eq":
            return (False, None, True)
        if op == "ne":
            return (True, None, True)
        raise ModelError("DimensionalityError|ValueError")
    if op == "add":
        return (va + vb, da, na and nb)
    if op == "sub":
        return (va - vb, da, na and nb)
    if op in ("floordiv", "mod", "divmod"):
        if vb == 0:
            raise ModelError("ZeroDivisionError")
        q = math.floor(va / vb)
        if op == "floordiv":
            return (Fraction(q), {}, na and nb)
        if op == "mod":
            return (va - vb * q, da, na and nb)
        return ((Fraction(q), va - vb * q), da, na and nb)
    if op == "eq":
        return (va == vb, None, True)
    if op == "ne":
        return (va != vb, None, True)
    return ({"lt": va < vb, "le": va <= vb, "gt": va > vb, "ge": va >= vb}[op], None, True)


def normalise(res, R, exact):
    """pint result -> comparable (value, dimension) via R"""
    if isinstance(res, tuple):
        return tuple(normalise(r, R, exact) for r in res)
    if isinstance(res, (bool,)):
        return ("bool", res)
    if hasattr(res, "_units"):
        units = {k: Fraction(v) for k, v in res._units.items()}
        f, root, dim, tainted, nops = R.resolve_compound(units)
        m = res.magnitude
        if exact and not isinstance(f, Fraction):
            raise Skip("irrational_factor_of_reduced_units")  # auto-reduced units such as are ** 2.5: no exact comparison
        if exact:
            if isinstance(m, float):
                return ("q", "FLOAT", m * float(f), dim)
            return ("q", Fraction(m) * f, dim)
        # (float exponents produced by auto-reduction - meter * liter -> meter ** 3.9999999999999996 - are snapped to small rationals)
        # (float exponents from auto-reduced units are snapped to rationals; a residue like 1e-17 snaps to 0 and is no entry)
        return ("q", float(m) * float(f), {k: w for k, w in ((k_, Fraction(v).limit_denominator(10 ** 6)) for k_, v in dim.items()) if w != 0})
    if exact and isinstance(res, float):
        return ("q", "FLOAT", res)
    return ("q", Fraction(res) if exact else float(res), {})


def _run(fn):
    try:
        return ("ok", fn())
    except ZeroDivisionError as e:
        return ("err", "ZeroDivisionError", e)
    except OverflowError as e:
        raise Skip("float_range_overflow") from e
    except Exception as e:  # noqa: BLE001
        return ("err", type(e).__name__, e)


def _contains(node, pred):
    return pred(node) or any(_contains(node[k], pred) for k in ("a", "b") if k in node and isinstance(node[k], dict))


def _neg_pow_over_floordiv(node):
    """a negative power whose operand contains a floor division (Fraction // Fraction is an int in Python): the known finding
    int-magnitude-negative-power would turn everything above it into floats; excluded by construction and counted"""
    if node["t"] == "pow" and node["k"] < 0 and _contains(node["a"], lambda n: n["t"] in ("bin", "root") and n["op"] in ("floordiv", "divmod")):
        return True
    return any(_neg_pow_over_floordiv(node[k]) for k in ("a", "b") if k in node and isinstance(node[k], dict))


def _has_negative_pow(node):
    if node["t"] == "pow" and node["k"] < 0:
        return True
    return any(_has_negative_pow(node[k]) for k in ("a", "b") if k in node and isinstance(node[k], dict))


def _inexact_merge_risk(tree, R):
    names = set()

    def walk(n):
        if isinstance(n, dict):
            for k in ("ua", "ub"):
                if isinstance(n.get(k), str):
                    names.add(n[k])
            for v in n.values():
                if isinstance(v, (dict, list)):
                    walk(v)
        elif isinstance(n, list):
            for v in n:
                walk(v)

    walk(tree)
    dims = [R.resolve(n).dim for n in names]
    for i in range(len(dims)):
        for j in range(len(dims)):
            d1, d2 = dims[i], dims[j]
            if i != j and d1 and d2 and set(d1) == set(d2):
                rs = {Fraction(d2[k]) / Fraction(d1[k]) for k in d1}
                if len(rs) == 1:
                    r = next(iter(rs))
                    if r.denominator & (r.denominator - 1):  # not a power of two
                        return True
    return False


def case_exact(case, col=None, exact=True):
    R = env.R()
    # configurations: auto_reduce_dimensions (results are compared as physical values, so reduced units are fine); Fraction magnitudes in
    # the float registry
    kw = {"auto_reduce_dimensions": True} if case.get("autoreduce") else {}
    ureg = env.ureg("Fraction" if exact else "float", **kw)
    _MAGTYPE[0] = case.get("magtype", "float")
    if col is not None and (kw or _MAGTYPE[0] != "float"):
        col.count("config:" + ("autoreduce" if kw else "") + ("+fraction_magnitudes" if _MAGTYPE[0] != "float" else ""))
    tree = case["tree"]
    if kw and not exact and _inexact_merge_risk(tree, R):
        # known finding of C15 (reduced-units-inexact-exponent): with float exponents the merge of, say, liter into meter needs the exponent 1/3
        # and the registry then refuses its own result; the float tier with auto_reduce_dimensions stays on dyadic ratios (counted)
        raise Skip("autoreduce_inexact_exponent_float")
    if exact and _neg_pow_over_floordiv(tree):
        if col is not None:
            col.excluded += 1
        return
    stats = {}
    ra = _run(lambda: eval_pint(tree, "a", ureg, R, exact, stats))
    rb = _run(lambda: eval_pint(tree, "b", ureg, R, exact, None))
    try:
        model = ("ok", eval_model(tree, R))
    except ModelError as me:
        model = ("err", me.kind)
    except (ZeroDivisionError, OverflowError):
        model = ("err", "ZeroDivisionError")
    if not exact:
        try:
            err_bound(tree, R)
        except (ZeroDivisionError, OverflowError, ValueError):
            raise Skip("float_error_bound_undefined")
        # err_bound raises Skip for trees whose float evaluation is ill-conditioned (near-zero divisors, nested powers)
    if not exact and tree["t"] == "root" and model[0] == "ok":
        # order checks on floats are made only away from ties
        try:
            la, lb = eval_model(tree["a"], R), eval_model(tree["b"], R)
            if la[1] == lb[1] and abs(float(la[0]) - float(lb[0])) <= 1e-6 * max(abs(float(la[0])), abs(float(lb[0])), 1e-300):
                raise Skip("float_comparison_at_tie")
        except (ModelError, ZeroDivisionError, OverflowError):
            pass
    if col is not None:
        differ = _leaves_differ(tree)
        col.case(("e", _key(tree)), differ and stats.get("mixed", False), sample=_render(tree), cls="evaluated" if ra[0] == "ok" else "raised:" + ra[1])
        if stats.get("mixed"):
            col.count("mixed_units_node")
        if stats.get("additive"):
            col.count("additive_node")
    # (1) same kind of outcome under both unit assignments
    if ra[0] != rb[0] or (ra[0] == "err" and ra[1] != rb[1]):
        raise Violation(f"outcome_depends_on_units:{ra[0]}:{ra[1] if ra[0] == 'err' else 'value'}/{rb[1] if rb[0] == 'err' else 'value'}",
                        f"{_render(tree)}: assignment A -> {_short(ra)}, assignment B -> {_short(rb)}")
    if ra[0] == "err":
        if ra[1] not in ERR:
            raise Violation(f"unexpected_exception:{ra[1]}", f"{_render(tree)}: {ra[2]!r}")
        if model[0] == "ok" and ra[1] in ("DimensionalityError",):
            raise Violation("refused_valid_expression", f"{_render(tree)}: raised {ra[1]} but the reference model evaluates it")
        return
    na, nb = normalise(ra[1], R, exact), normalise(rb[1], R, exact)
    if model[0] == "err":
        if not exact and _absorbed_to_zero(tree):
            raise Skip("float_absorption_to_zero")  # -2 + (2 + 2e-116) is exactly 0.0 in floats: pint sees a bare zero, the exact model does not
        if "DimensionalityError" in model[1]:
            raise Violation("accepted_dimension_mismatch", f"{_render(tree)}: returned {_short(ra)} although operands of +,-,//,% or an ordering differ in dimension")
        raise Violation("accepted_invalid_expression", f"{_render(tree)}: returned {_short(ra)}; model: {model[1]}")
    if exact and case.get("autoreduce"):
        # auto-reduction merges units through fractional powers of their factors (meter * lambda -> meter ** 4 needs a cube root), which
        # pint evaluates in floats in every registry: the values are compared, not their exactness
        def _f(n):
            return tuple(_f(x) for x in n) if isinstance(n, tuple) and n and isinstance(n[0], tuple) else ((n[0],) + tuple(float(x) if isinstance(x, (int, Fraction, float)) and not isinstance(x, bool) else x for x in n[1:]))
        fa, fb, fw = _f(tuple(x for x in na if x != "FLOAT")), _f(tuple(x for x in nb if x != "FLOAT")), _f(_model_norm(model[1]))
        if not _close(fa, fb, 0.0) or not _close(fa, fw, 0.0):
            raise Violation("value_depends_on_units:autoreduce", f"{_render(tree)}: A -> {na}, B -> {nb}, reference {_model_norm(model[1])}")
    elif exact:
        if "FLOAT" in repr(na) or "FLOAT" in repr(nb):
            k = "float_contamination_in_exact_arithmetic"
            if _has_negative_pow(tree):
                # known finding: Python's int ** negative int is a float and pint does not cast int magnitudes in __pow__
                k += ":int_magnitude_pow_negative"
            raise Violation(k, f"{_render(tree)}: results {_short(ra)} / {_short(rb)}")
        if na != nb:
            raise Violation("value_depends_on_units", f"{_render(tree)}: A -> {na}, B -> {nb}")
        mv = model[1]
        want = _model_norm(mv)
        if na != want:
            raise Violation("value_differs_from_reference", f"{_render(tree)}: pint {na}, reference {want}")
    else:
        try:
            _, eb_ = err_bound(tree, R)
        except (ZeroDivisionError, OverflowError, ValueError):
            raise Skip("float_error_bound_undefined")
        if not math.isfinite(eb_):
            raise Skip("float_error_bound_undefined")
        tol = 1000 * eb_
        if tree["t"] == "root":
            try:
                d_, e_ = err_bound(tree, R)
            except (ZeroDivisionError, OverflowError, ValueError):
                raise Skip("float_error_bound_undefined")
            if abs(d_) <= 1000 * e_:
                raise Skip("float_comparison_at_tie")
            tol = 0.0
        if not _close(na, nb, tol):
            raise Violation("value_depends_on_units:float", f"{_render(tree)}: A -> {na}, B -> {nb}")
        if not _close(na, _model_norm(model[1], False), tol):
            raise Violation("value_differs_from_reference:float", f"{_render(tree)}: pint {na}, reference {_model_norm(model[1], False)}")


def _model_norm(mv, exact=True):
    v, d, isnum = mv
    if isinstance(v, tuple):
        return (("q", v[0], {}), ("q", v[1], d))
    if isinstance(v, bool):
        return ("bool", v)
    if d is None:
        return ("bool", v)
    return ("q", v if exact else float(v), d)


def err_bound(node, R, mult=1.0):
    """(value, absolute error bound) of the float evaluation of a tree, by first-order propagation of 1e-12 relative leaf errors.
    Trees that raise a unit to a total power > 4 are skipped: pint multiplies the scales of the whole definition chain
    (e**9 * hbar**9 ...) and intermediate products leave the float range although the final factor does not."""
    t = node["t"]
    if mult > 4:
        raise Skip("float_range_nested_powers")
    if t == "num":
        return float(node["n"]), abs(float(node["n"])) * 1e-15
    if t == "q":
        v = float(Fraction(node["x"]) * R.resolve(node["ua"]).factor)
        return v, abs(v) * 1e-12
    if t == "un":
        v, e = err_bound(node["a"], R, mult)
        return (-v if node["op"] == "neg" else abs(v)), e
    if t == "pow":
        k = node["k"]
        v, e = err_bound(node["a"], R, mult * max(1.0, abs(k)))
        if k < 0 and abs(v) <= 1000 * e:
            raise Skip("float_division_by_near_zero")
        if v == 0:
            return (0.0 if k > 0 else 1.0), (e ** k if k > 0 else 0.0) + 1e-300
        r = abs(v) ** k if isinstance(k, float) else v ** k
        _in_float_range(r)
        return r, abs(r) * (abs(k) * e / abs(v) + 1e-12)
    (va, ea), (vb, eb) = err_bound(node["a"], R, mult), err_bound(node["b"], R, mult)
    op = node["op"]
    if op == "add":
        return va + vb, ea + eb
    if op == "sub":
        return va - vb, ea + eb
    if op == "mul":
        if va != 0 and vb != 0:
            _in_float_range(va * vb)
        return va * vb, ea * abs(vb) + eb * abs(va) + ea * eb
    if op == "div":
        if abs(vb) <= 1000 * eb:
            raise Skip("float_division_by_near_zero")
        if va != 0:
            _in_float_range(va / vb)
        return va / vb, ea / abs(vb) + abs(va) * eb / (vb * vb)
    return va - vb, ea + eb  # comparisons: the difference decides


def _absorbed_to_zero(node):
    """does some number-only subtree evaluate to exactly 0.0 in float arithmetic although its exact value is not zero?"""
    def ev(n):
        # (float value, exact value) of a number-only subtree, or None
        t = n["t"]
        if t == "num":
            return float(n["n"]), Fraction(n["n"])
        if t == "un":
            r = ev(n["a"])
            return None if r is None else ((-r[0], -r[1]) if n["op"] == "neg" else (abs(r[0]), abs(r[1])))
        if t in ("q", "pow", "root"):
            return None
        a, b = ev(n["a"]), ev(n["b"])
        if a is None or b is None:
            return None
        try:
            f = {"add": lambda x, y: x + y, "sub": lambda x, y: x - y, "mul": lambda x, y: x * y, "div": lambda x, y: x / y}.get(n["op"])
            return None if f is None else (f(a[0], b[0]), f(a[1], b[1]))
        except (ZeroDivisionError, OverflowError):
            return None

    r = ev(node)
    if r is not None and r[0] == 0 and r[1] != 0:
        return True
    return any(_absorbed_to_zero(node[k]) for k in ("a", "b") if k in node and isinstance(node[k], dict))


def _in_float_range(r):
    """a non-zero intermediate that under- or overflows (1e-188 ** 2 == 0.0) changes what pint sees (a bare 0 is accepted next to any
    dimension): outside the domain of the float tier"""
    if r == 0 or not (1e-280 < abs(r) < 1e280):
        raise Skip("float_range_underflow_or_overflow")


def _close(a, b, tol=0.0):
    if isinstance(a, tuple) and a and isinstance(a[0], tuple):
        return all(_close(x, y) for x, y in zip(a, b))
    if a[0] == "bool" or b[0] == "bool":
        return a == b
    if a[-1] != b[-1] and not (a[0] != b[0]):
        return False
    va, vb = float(a[1]), float(b[1])
    if math.isnan(va) or math.isnan(vb):
        return math.isnan(va) and math.isnan(vb)
    return abs(va - vb) <= 1e-9 * max(abs(va), abs(vb)) + tol + 1e-300


def _short(r):
    if r[0] == "err":
        return f"{r[1]}"
    v = r[1]
    if isinstance(v, tuple):
        return "(" + ", ".join(_short(("ok", x)) for x in v) + ")"
    if hasattr(v, "_units"):
        return f"{v.magnitude!r} {dict(v._units)}"
    return repr(v)


def _render(n):
    t = n["t"]
    if t == "num":
        return repr(n["n"])
    if t == "q":
        return f"<{n['x']} {n['ua']}|{n['ub']}>"
    if t == "un":
        return f"{n['op']}({_render(n['a'])})"
    if t == "pow":
        return f"({_render(n['a'])})**{n['k']}"
    return f"{n['op']}({_render(n['a'])}, {_render(n['b'])})"


def _key(n):
    return _render(n)


def _leaves_differ(n):
    if n["t"] == "q":
        return n["ua"] != n["ub"]
    return any(_leaves_differ(n[k]) for k in ("a", "b") if k in n and isinstance(n[k], dict))


def run_exact(task, tier, seed, col):
    strat = st.builds(lambda c, ar: dict(c, autoreduce=ar), _tree_strategy(True), st.sampled_from([False, False, False, True]))
    hyp_search(col, strat, lambda c: case_exact(c, col, True), max_examples=700 if tier == "quick" else 12000,
               seed=seed * 83 + task["shard"])


def case_float(case, col=None):
    return case_exact(case, col, exact=False)


def run_float(task, tier, seed, col):
    strat = st.builds(lambda c, mt, ar: dict(c, magtype=mt, autoreduce=ar), _tree_strategy(False), st.sampled_from(["float", "float", "Fraction"]), st.sampled_from([False, False, False, True]))
    hyp_search(col, strat, lambda c: case_float(c, col), max_examples=500 if tier == "quick" else 8000, seed=seed * 89 + task["shard"])


# ------------------------------------------------------------------------------------- operator forms

FORMS = {"add": ("__add__", "__radd__", "__iadd__"), "sub": ("__sub__", "__rsub__", "__isub__"), "mul": ("__mul__", "__rmul__", "__imul__"),
         "div": ("__truediv__", "__rtruediv__", "__itruediv__"), "floordiv": ("__floordiv__", "__rfloordiv__", "__ifloordiv__"),
         "mod": ("__mod__", "__rmod__", "__imod__"), "pow": ("__pow__", "__rpow__", "__ipow__")}


def _forms_strategy():
    classes = _classes()
    keys = sorted(classes)
    xs = st.one_of(st.integers(-9, 9).filter(bool), st.fractions(-9, 9, max_denominator=8).filter(bool))
    dimless = [n for n in ("percent", "ppm", "radian", "count", "permille", "bit") ]

    @st.composite
    def strat(draw):
        op = draw(st.sampled_from(sorted(FORMS)))
        arr = draw(st.booleans())
        k = draw(st.sampled_from(keys))
        mode = draw(st.sampled_from(["qq", "qq", "qn", "nq", "dimless_n", "n_dimless"]))
        ua = draw(st.sampled_from(classes[k] if "dimless" not in mode else dimless))
        ub = draw(st.sampled_from(classes[k]))
        return {"op": op, "mode": mode, "ua": ua, "ub": ub, "x": draw(xs), "y": draw(xs), "n": draw(st.one_of(st.integers(-4, 4), st.just(0), xs)), "array": arr}

    return strat()


def case_forms(case, col=None):
    """reflected and in-place forms agree with the plain form; operands are not modified (except the in-place target)."""
    import numpy as np

    R = env.R()
    op, mode, arr = case["op"], case["mode"], case["array"]
    plain, refl, inpl = FORMS[op]
    ureg = env.ureg("float" if arr else "Fraction")
    conv = (lambda v: np.array([float(v), 2 * float(v)])) if arr else (lambda v: v)
    x, y, n = case["x"], case["y"], case["n"]
    if arr:
        n = float(n)
    if op == "pow":
        n = int(n) if isinstance(n, int) else 2
        y = 2
    a = ureg.Quantity(conv(x), case["ua"])
    if mode in ("qq",):
        b = ureg.Quantity(conv(y), case["ub"]) if op != "pow" else 2
    else:
        b = n
    if col is not None:
        col.case(("f", op, mode, case["ua"], case["ub"], str(x), str(y), str(n), arr), mode == "qq" and case["ua"] != case["ub"], sample=case, cls=f"{op}:{mode}{':array' if arr else ''}")

    def snap(v):
        if hasattr(v, "_units"):
            m = v.magnitude
            return ("q", m.copy().tolist() if hasattr(m, "copy") and arr else m, tuple(sorted(v._units.items())), id(v))
        return ("n", v)

    def same(r1, r2):
        if r1[0] != r2[0]:
            return False
        if r1[0] == "err":
            return r1[1] == r2[1]
        v1, v2 = r1[1], r2[1]
        if hasattr(v1, "_units") != hasattr(v2, "_units"):
            return False
        if hasattr(v1, "_units"):
            if dict(v1._units) != dict(v2._units):
                return False
            m1, m2 = v1.magnitude, v2.magnitude
        else:
            m1, m2 = v1, v2
        if arr:
            return bool(np.allclose(np.asarray(m1, dtype=float), np.asarray(m2, dtype=float), rtol=1e-12, atol=0, equal_nan=True))
        return m1 == m2 and type(m1) is type(m2)

    fn = getattr(operator, {"add": "add", "sub": "sub", "mul": "mul", "div": "truediv", "floordiv": "floordiv", "mod": "mod", "pow": "pow"}[op])
    if mode in ("nq", "n_dimless"):
        # number on the left: Python dispatches to the reflected method of the quantity
        sa = snap(a)
        r_op = _run(lambda: fn(b, a))
        r_dunder = _run(lambda: getattr(a, refl)(b))
        if r_dunder[0] == "ok" and r_dunder[1] is NotImplemented:
            return
        if not same(r_op, r_dunder):
            raise Violation(f"reflected_form_differs:{op}", f"{b!r} {op} Q({x},{case['ua']}): operator -> {_short(r_op)}, {refl} -> {_short(r_dunder)}")
        if snap(a) != sa:
            raise Violation(f"operand_modified:{refl}", f"Q({x},{case['ua']})")
        # commutative / anti-commutative relations with the plain form
        if op in ("add", "mul"):
            r_plain = _run(lambda: fn(a, b))
            if not same(r_op, r_plain):
                raise Violation(f"reflected_form_differs_from_plain:{op}", f"{b!r} {op} q -> {_short(r_op)}; q {op} {b!r} -> {_short(r_plain)}")
        if op == "sub":
            r_plain = _run(lambda: -(fn(a, b)))
            if not same(r_op, r_plain):
                raise Violation("reflected_form_differs_from_plain:sub", f"{b!r} - q -> {_short(r_op)}; -(q - {b!r}) -> {_short(r_plain)}")
        if op == "div" and r_op[0] == "ok" and not arr:
            want = Fraction(b) / Fraction(x)
            got = r_op[1]
            if isinstance(got.magnitude, float):
                raise Violation("float_contamination_in_exact_arithmetic:rtruediv", f"{b!r} / Q({x},{case['ua']}) -> {_short(r_op)} in the Fraction registry")
            if got.magnitude != want or {k: Fraction(v) for k, v in got._units.items()} != {case["ua"]: Fraction(-1)}:
                raise Violation("reflected_form_wrong_value:div", f"{b!r} / Q({x},{case['ua']}) -> {_short(r_op)}, expected {want} 1/{case['ua']}")
        return
    sa, sb = snap(a), snap(b)
    r_plain = _run(lambda: fn(a, b))
    if snap(a) != sa or snap(b) != sb:
        raise Violation(f"operand_modified:{plain}", f"{case}")
    target = copy.copy(a) if not arr else ureg.Quantity(a.magnitude.copy(), a.units)
    keep_b = snap(b)

    def do_inplace():
        t = target
        t2 = getattr(operator, "i" + {"add": "add", "sub": "sub", "mul": "mul", "div": "truediv", "floordiv": "floordiv", "mod": "mod", "pow": "pow"}[op])(t, b)
        return t2

    r_in = _run(do_inplace)
    if not arr and r_plain[0] == "ok" and hasattr(r_plain[1], "_units") and isinstance(r_plain[1].magnitude, float):
        if op == "pow" and isinstance(x, int) and isinstance(b, int) and b < 0:
            raise Violation("float_contamination_in_exact_arithmetic:int_magnitude_pow_negative", f"Q({x},{case['ua']}) ** {b} -> {_short(r_plain)} in the Fraction registry")
        raise Violation(f"float_contamination_in_exact_arithmetic:{op}", f"{_render_case(case)} -> {_short(r_plain)} in the Fraction registry")
    if not same(r_plain, r_in):
        raise Violation(f"inplace_form_differs:{op}{':array' if arr else ''}", f"{_render_case(case)}: plain -> {_short(r_plain)}, in-place -> {_short(r_in)}")
    if snap(b) != keep_b:
        raise Violation(f"operand_modified:{inpl}", f"right operand changed by in-place {op}: {_render_case(case)}")
    if snap(a) != sa:
        raise Violation(f"operand_modified:{inpl}:source", f"in-place {op} on a copy changed the original: {_render_case(case)}")
    if arr and op in ("mul", "div", "add", "sub", "floordiv", "mod") and r_plain[0] == "ok":
        # in-place forms NumPy refuses although the plain form works (the result does not fit the integer dtype of the target, or its shape):
        # the refusal must leave the target denoting what it denoted (never new units on the old numbers)
        for label, mk_t, mk_b in (("int_target", lambda: ureg.Quantity(np.array([int(x) * 3, int(x) * 5 + 1], dtype=np.int64), a.units), lambda: b),
                                  ("wider_operand", lambda: ureg.Quantity(a.magnitude.copy(), a.units), lambda: (ureg.Quantity(np.array([[float(y), 2.0], [3.0, 4.0]]), b.units) if hasattr(b, "_units") else np.array([[float(n) or 1.0, 2.0], [3.0, 4.0]])))):
            t, bb = mk_t(), mk_b()
            before = (t.magnitude.copy(), dict(t._units))
            phys = lambda q_: (lambda r_: (np.asarray(q_.magnitude, dtype=float) * float(r_[0]), r_[2]))(R.resolve_compound({k: Fraction(v) for k, v in q_._units.items()}))  # noqa: E731
            phys_before = phys(t)
            keep = snap(bb) if hasattr(bb, "_units") else None
            r_t = _run(lambda: getattr(operator, "i" + {"add": "add", "sub": "sub", "mul": "mul", "div": "truediv", "floordiv": "floordiv", "mod": "mod"}[op])(t, bb))
            if r_t[0] != "err" or r_t[1] not in ("TypeError", "ValueError", "UFuncTypeError", "_UFuncOutputCastingError", "UFuncOutputCastingError"):
                continue
            col.count("refused_inplace_form") if col is not None else None
            # (judged physically: a target re-expressed in an equivalent unit, e.g. radian -> dimensionless, still denotes the same quantity)
            phys_after = phys(t)
            if phys_after[1] != phys_before[1] or phys_after[0].shape != phys_before[0].shape or not np.allclose(phys_after[0], phys_before[0], rtol=1e-12, atol=0):
                raise Violation(f"failed_inplace_form_changed_target:{op}:{label}", f"{_render_case(case)} [{label}]: the in-place form raised {r_t[1]} and left the target as {t!r}; it was {before[0]!r} {before[1]}")
            if keep is not None and snap(bb) != keep:
                raise Violation(f"operand_modified:{inpl}:after_refusal", f"{_render_case(case)} [{label}]")


def _render_case(case):
    return f"Q({case['x']},{case['ua']}) {case['op']} " + (f"Q({case['y']},{case['ub']})" if case["mode"] == "qq" else repr(case["n"])) + (" [array]" if case["array"] else "")


def case_inplace_chain(case, col=None):
    """A quantity that has been looked at (added to itself, compared), then changed by an in-place form, then used again behaves like the result of the
    plain form: same dimensionality, addable to / comparable with / equal to that result expressed in another unit. Exponents -3..3 of one unit on
    both sides (what an object remembers about its units must not outlive them)."""
    import numpy as np

    ureg = env.ureg("float")
    e1, e2, op, arr = case["e1"], case["e2"], case["op"], case["array"]
    mk = (lambda v: np.array([v, 2 * v, 3 * v], dtype=float)) if arr else (lambda v: float(v))
    u1, alt = case["unit"], case["alt"]
    a = ureg.Quantity(mk(3.0), ureg.UnitsContainer({u1: e1}))
    b = ureg.Quantity(mk(2.0), ureg.UnitsContainer({u1: e2})) if op in ("mul", "div") else e2
    if col is not None:
        col.case(("ic", u1, e1, e2, op, arr), True, sample=case, cls="inplace_chain:" + op)
    plain = _run(lambda: {"mul": lambda: a * b, "div": lambda: a / b, "pow": lambda: a ** b}[op]())
    if plain[0] != "ok":
        raise Skip("plain_form_refused")
    t = ureg.Quantity(mk(3.0), ureg.UnitsContainer({u1: e1}))
    # look at the target first
    _ = t.dimensionality
    _ = t + t
    _ = t == t
    r_in = _run(lambda: {"mul": operator.imul, "div": operator.itruediv, "pow": operator.ipow}[op](t, b))
    if r_in[0] != "ok":
        raise Violation(f"inplace_form_differs:{op}:chain", f"{case}: plain -> {_short(plain)}, in-place raised {r_in[1]}")
    t = r_in[1]
    want = plain[1]
    if dict(t.dimensionality) != dict(want.dimensionality):
        raise Violation(f"stale_dimensionality_after_inplace:{op}", f"{case}: the target now has units {dict(t._units)} and reports dimensionality {dict(t.dimensionality)}; the plain form gives {dict(want.dimensionality)}")
    other = want.to(ureg.UnitsContainer({alt: dict(want._units).get(u1, 0)})) if dict(want._units) else want
    for tag, fn in (("add", lambda x: x + other), ("sub", lambda x: x - other), ("lt", lambda x: x < other), ("eq", lambda x: x == other), ("to", lambda x: x.to(other.units))):
        r1, r2 = _run(lambda: fn(t)), _run(lambda: fn(want))
        same = r1[0] == r2[0] and (r1[0] == "err" and r1[1] == r2[1] or r1[0] == "ok" and bool(np.all(np.isclose(np.asarray(getattr(r1[1], "magnitude", r1[1]), dtype=float), np.asarray(getattr(r2[1], "magnitude", r2[1]), dtype=float), rtol=1e-12, atol=0)))
                                   and dict(getattr(r1[1], "_units", {})) == dict(getattr(r2[1], "_units", {})))
        if not same:
            raise Violation(f"inplace_then_{tag}_differs_from_plain:{op}", f"{case}: after the in-place form, {tag} with {other!r} -> {_short(r1)}; on the plain result -> {_short(r2)}")


DELTA_PAIRS = [("delta_degree_Fahrenheit", "kelvin"), ("delta_degree_Celsius", "degree_Rankine"), ("delta_degree_Celsius", "millikelvin"), ("delta_degree_Fahrenheit", "delta_degree_Celsius"),
               ("kelvin", "delta_degree_Fahrenheit"), ("degree_Rankine", "delta_degree_Celsius"), ("delta_degree_Celsius", "degree_Celsius"), ("degree_Fahrenheit", "delta_degree_Celsius"), ("meter", "inch")]


def case_plain_twice(case, col=None):
    """a plain (not in-place) + or - on array quantities leaves both operands what they were - evaluating the same expression again gives the same
    result - also when one operand is a delta quantity and the other determines the unit of the result"""
    import numpy as np

    ureg = env.ureg("float")
    ua, ub, op = case["ua"], case["ub"], case["op"]
    if col is not None:
        col.case(("pt", ua, ub, op, case["dtype"]), ua != ub, sample=case, cls="plain_twice")
    dt = float if case["dtype"] == "float" else np.int64
    a, b = ureg.Quantity(np.array([10, 20, 30], dtype=dt), ua), ureg.Quantity(np.array([1, 2, 4], dtype=dt), ub)
    ka, kb = (a.magnitude.copy(), dict(a._units)), (b.magnitude.copy(), dict(b._units))
    fn = operator.add if op == "add" else operator.sub
    r1 = _run(lambda: fn(a, b))
    same_ops = np.array_equal(a.magnitude, ka[0]) and dict(a._units) == ka[1] and np.array_equal(b.magnitude, kb[0]) and dict(b._units) == kb[1]
    if not same_ops:
        raise Violation(f"operand_modified:plain_{op}:array", f"Q([10 20 30],{ua}) {op} Q([1 2 4],{ub}) ({case['dtype']}): the operands are now {a!r} and {b!r}")
    r2 = _run(lambda: fn(a, b))
    if r1[0] != r2[0] or (r1[0] == "ok" and not (np.allclose(np.asarray(r1[1].magnitude, dtype=float), np.asarray(r2[1].magnitude, dtype=float), rtol=1e-12, atol=0) and dict(r1[1]._units) == dict(r2[1]._units))):
        raise Violation(f"same_expression_twice_differs:{op}", f"Q([10 20 30],{ua}) {op} Q([1 2 4],{ub}): first {_short(r1)}, then {_short(r2)}")


def run_forms(task, tier, seed, col):
    if task["shard"] == 1:
        for ua, ub in DELTA_PAIRS:
            for op in ("add", "sub"):
                for dtp in ("float", "int"):
                    col.run_case(lambda c: case_plain_twice(c, col), {"ua": ua, "ub": ub, "op": op, "dtype": dtp})
    if task["shard"] == 0:
        for unit, alt in (("second", "millisecond"), ("meter", "inch")):
            for e1 in (-3, -2, -1, 1, 2, 3):
                for op, e2s in (("mul", (-3, -2, -1, 1, 2, 3)), ("div", (-3, -2, -1, 1, 2, 3)), ("pow", (-2, -1, 2, 3))):
                    for e2 in e2s:
                        for arr in (False, True):
                            col.run_case(lambda c: case_inplace_chain(c, col), {"unit": unit, "alt": alt, "e1": e1, "e2": e2, "op": op, "array": arr})
    hyp_search(col, _forms_strategy(), lambda c: case_forms(c, col), max_examples=700 if tier == "quick" else 12000, seed=seed * 97 + task["shard"])


# ------------------------------------------------------------------------------------- error clause, directly

def _errors_strategy():
    R = env.R()
    names = [n for n in env.unit_names("mult") if not (R.resolve(n).tainted or R.resolve(n).irrational)]
    xs = st.one_of(st.integers(-9, 9), st.fractions(-9, 9, max_denominator=8))
    return st.builds(lambda a, b, x, y, op, n: {"ua": a, "ub": b, "x": x, "y": y, "op": op, "n": n}, st.sampled_from(names), st.sampled_from(names), xs, xs,
                     st.sampled_from(["add", "sub", "lt", "le", "gt", "ge", "radd", "rsub", "iadd", "isub"]),
                     st.one_of(st.integers(-3, 3), st.just(0), st.just(float("nan")), xs))


def case_errors(case, col=None):
    """+, - and ordering across dimensions raise DimensionalityError; a bare number is accepted by +/- only if the quantity is
    dimensionless or the number is zero/NaN."""
    import pint

    R = env.R()
    ureg = env.ureg("Fraction")
    ua, ub, op = case["ua"], case["ub"], case["op"]
    da, db = R.resolve(ua).dim, R.resolve(ub).dim
    a, b = ureg.Quantity(case["x"], ua), ureg.Quantity(case["y"], ub)
    n = case["n"]
    if col is not None:
        col.case(("er", ua, ub, op, str(n)), da != db, sample=case, cls="same_dim" if da == db else "diff_dim")
    if op in ("add", "sub", "lt", "le", "gt", "ge", "iadd", "isub"):
        f = {"add": operator.add, "sub": operator.sub, "lt": operator.lt, "le": operator.le, "gt": operator.gt, "ge": operator.ge,
             "iadd": operator.iadd, "isub": operator.isub}[op]
        r = _run(lambda: f(copy.copy(a), b))
        if da != db:
            if r[0] == "ok":
                raise Violation(f"accepted_dimension_mismatch:{op}", f"Q({case['x']},{ua}) {op} Q({case['y']},{ub}) returned {_short(r)}")
            if r[1] != "DimensionalityError":
                raise Violation(f"wrong_exception_for_dimension_mismatch:{r[1]}", f"{ua} {op} {ub}: {r[2]!r}")
        elif r[0] == "err":
            raise Violation(f"refused_same_dimension:{op}:{r[1]}", f"Q({case['x']},{ua}) {op} Q({case['y']},{ub}) raised {r[2]!r}")
    # bare number with + / -
    f = operator.add if "add" in op or op in ("lt", "gt") else operator.sub
    for tag, fn in (("q_op_n", lambda: f(a, n)), ("n_op_q", lambda: f(n, a))):
        r = _run(fn)
        nan = isinstance(n, float) and n != n
        allowed = (not da) or n == 0 or nan
        if allowed and r[0] == "err":
            raise Violation(f"number_refused:{tag}", f"Q({case['x']},{ua}) with {n!r}: {r[2]!r}")
        if not allowed:
            if r[0] == "ok":
                raise Violation(f"number_accepted_for_dimensional_quantity:{tag}", f"Q({case['x']},{ua}) +/- {n!r} returned {_short(r)}")
            if r[1] != "DimensionalityError":
                raise Violation(f"number_wrong_exception:{r[1]}", f"{r[2]!r}")
    if not (R.resolve(ua).tainted or R.resolve(ua).irrational) and R.resolve(ua).factor > 0:
        _number_ordering(case, a, n, da, R)


def _number_ordering(case, a, n, da, R):
    """ordering / equality with a bare number: defined for dimensionless quantities (by value, whatever the dimensionless unit) and for zero"""
    nan = isinstance(n, float) and n != n
    if nan:
        return
    value = Fraction(case["x"]) * Fraction(R.resolve(case["ua"]).factor)
    for tag, fn, want in (("q<n", lambda: a < n, value < n), ("n<q", lambda: n < a, n < value), ("q>=n", lambda: a >= n, value >= n), ("q==n", lambda: a == n, value == n), ("n==q", lambda: n == a, value == n)):
        r = _run(fn)
        if (not da) or n == 0:
            if "==" in tag and da and n == 0:
                want = value == 0
            if r[0] == "err":
                raise Violation(f"number_comparison_refused:{tag}", f"Q({case['x']},{case['ua']}) {tag} with n={n!r}: {r[2]!r}")
            if bool(r[1]) != want:
                raise Violation(f"number_comparison_wrong:{tag}", f"Q({case['x']},{case['ua']}) {tag} with n={n!r} is {r[1]}, by value {want}")
        elif "==" in tag:
            if r[0] == "err" or bool(r[1]):
                raise Violation(f"number_equal_to_dimensional_quantity:{tag}", f"Q({case['x']},{case['ua']}) {tag} with n={n!r}: {_short(r)}")
        elif r[0] == "ok":
            raise Violation(f"number_ordered_against_dimensional_quantity:{tag}", f"Q({case['x']},{case['ua']}) {tag} with n={n!r} returned {r[1]!r}")


NONMULT = ["degree_Celsius", "degree_Fahrenheit", "delta_degree_Celsius", "kelvin", "decibel", "decibelmilliwatt", "neper"]


def case_errors_nonmult(case, col=None):
    """the dimension rule comes first: an operand in an offset or logarithmic unit next to an operand of another dimension is a dimension mismatch
    (DimensionalityError) like the same temperature or level expressed in a plain unit - whatever the order, also for arrays and in-place forms"""
    import numpy as np

    ureg = env.ureg("float")
    ua, ub, op, swap, arr = case["ua"], case["ub"], case["op"], case["swap"], case["array"]
    mk = (lambda v: np.array([v, v + 1.0])) if arr else (lambda v: v)
    a, b = ureg.Quantity(mk(20.0), ua), ureg.Quantity(mk(3.0), ub)
    if swap:
        a, b = b, a
    if col is not None:
        col.case(("en", ua, ub, op, swap, arr), True, sample=case, cls="nonmult_diff_dim")
    f = {"add": operator.add, "sub": operator.sub, "lt": operator.lt, "ge": operator.ge, "iadd": operator.iadd, "isub": operator.isub}[op]
    r = _run(lambda: f(a, b))
    if r[0] == "ok":
        raise Violation(f"accepted_dimension_mismatch:{op}:nonmultiplicative", f"Q(20,{dict(a._units)}) {op} Q(3,{dict(b._units)}) returned {_short(r)}")
    if r[1] != "DimensionalityError":
        raise Violation(f"wrong_exception_for_dimension_mismatch:{r[1]}:nonmultiplicative", f"{dict(a._units)} {op} {dict(b._units)} ({'array' if arr else 'scalar'}): {r[2]!r}; the dimensions differ")


def run_errors(task, tier, seed, col):
    for ua in NONMULT:
        for ub in ("meter", "second"):
            for op in ("add", "sub", "lt", "ge", "iadd", "isub"):
                for swap in (False, True):
                    for arr in (False, True):
                        col.run_case(lambda c: case_errors_nonmult(c, col), {"ua": ua, "ub": ub, "op": op, "swap": swap, "array": arr})
    hyp_search(col, _errors_strategy(), lambda c: case_errors(c, col), max_examples=800 if tier == "quick" else 12000, seed=seed * 101)


# ------------------------------------------------------------------------------------- comparisons across offset units

TEMP_UNITS = {"kelvin": (Fraction(1), Fraction(0)), "degree_Celsius": (Fraction(1), Fraction(27315, 100)), "degree_Fahrenheit": (Fraction(5, 9), Fraction(45967, 180)),
              "degree_Rankine": (Fraction(5, 9), Fraction(0)), "millikelvin": (Fraction(1, 1000), Fraction(0))}
CMP_OPS = {"==": operator.eq, "!=": operator.ne, "<": operator.lt, "<=": operator.le, ">": operator.gt, ">=": operator.ge}


def case_offsetcmp(case, col=None):
    """Equality and ordering of two temperatures must not depend on the (absolute, offset, prefixed) units that express them."""
    ureg = env.ureg("Fraction")
    Ta, Tb, op = Fraction(case["Ta"]), Fraction(case["Tb"]), case["op"]
    want = CMP_OPS[op](Ta, Tb)
    if col is not None:
        zero = any((T - TEMP_UNITS[u][1]) == 0 for T, u in ((Ta, case["ua"]), (Tb, case["ub"])))
        col.case(("oc", str(Ta), str(Tb), case["ua"], case["ub"], op), case["ua"] != case["ub"], sample=case, cls="zero_magnitude" if zero else "plain")
    sa, oa = TEMP_UNITS[case["ua"]]
    sb, ob = TEMP_UNITS[case["ub"]]
    a, b = ureg.Quantity((Ta - oa) / sa, case["ua"]), ureg.Quantity((Tb - ob) / sb, case["ub"])
    s, got = attempt(CMP_OPS[op], a, b)
    if s == "err":
        raise Violation(f"comparison_across_offset_units_raised:{op}:{exc_class(got)}", f"{a!r} {op} {b!r}: {got!r}")
    if bool(got) != want:
        raise Violation(f"comparison_depends_on_units:offset:{op}", f"Q({a.magnitude},{case['ua']}) {op} Q({b.magnitude},{case['ub']}) is {got}; both in kelvin: {Ta} {op} {Tb} is {want}")


def run_offsetcmp(task, tier, seed, col):
    zeros = sorted({o for _, o in TEMP_UNITS.values()})
    names = sorted(TEMP_UNITS)

    @st.composite
    def strat(draw):
        ua, ub = draw(st.sampled_from(names)), draw(st.sampled_from(names))
        # half of the operands have magnitude 0 in their own unit (the both-zero shortcut of __eq__ lives there)
        def temp(u):
            return draw(st.one_of(st.just(TEMP_UNITS[u][1]), st.just(TEMP_UNITS[u][1]), st.sampled_from(zeros), st.fractions(0, 1000, max_denominator=100)))
        Ta, Tb = temp(ua), temp(ub)
        if draw(st.integers(0, 4)) == 0:
            Tb = Ta
        return {"Ta": Ta, "Tb": Tb, "ua": ua, "ub": ub, "op": draw(st.sampled_from(sorted(CMP_OPS)))}

    hyp_search(col, strat(), lambda c: case_offsetcmp(c, col), max_examples=1500 if tier == "quick" else 30000, seed=seed * 229)


def run_task(task, tier, seed, col):
    if task["sub"] == "offsetcmp":
        return run_offsetcmp(task, tier, seed, col)
    {"exact": run_exact, "float": run_float, "forms": run_forms, "errors": run_errors}[task["sub"]](task, tier, seed, col)


def replay(sub, case):
    if sub == "offsetcmp":
        return case_offsetcmp(case)
    if sub == "forms" and "e1" in case:
        return case_inplace_chain(case)
    if sub == "forms" and "dtype" in case:
        return case_plain_twice(case)
    if sub == "errors" and "swap" in case:
        return case_errors_nonmult(case)
    return {"exact": case_exact, "float": case_float, "forms": case_forms, "errors": case_errors}[sub](case)
