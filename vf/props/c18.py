"""C18 — copy, pickle and tuple serialisation preserve objects; registries stay isolated.

Oracles: round-trip equality of the serialised content (magnitude, type/dtype, unit items, class family, owning registry); for exceptions
same type, fields and message; ValueError for every binary operation across registries; independence of a deep-copied registry; the lazily
built default registry compared with an explicitly built one in a fresh interpreter.
"""
from __future__ import annotations

import copy
import json
import logging
import os
import pickle
import subprocess
import sys
from decimal import Decimal
from fractions import Fraction

from hypothesis import strategies as st

from .. import env
from ..core import Collector, Skip, Violation, attempt, exc_class, hyp_search

PROPERTY = "C18"
LEVEL = "exploration"
RULE = ("roundtrip: Hypothesis quantities/units/measurements/unit containers/parser helpers over the whole registry (prefixed units the receiving registry has never "
        "parsed included), magnitudes int/float/Fraction/Decimal/ndarray, registries with non_int_type float/Fraction/Decimal and fractional exponents x pickle protocols 0-5, copy, deepcopy, to_tuple/from_tuple; unpickling happens under a "
        "sequence of freshly installed application registries, and the unpickled object must be usable there (format '~', conversion); errors: every exception "
        "class of pint.errors with random arguments incl. falsy non-None ones; cross: every binary operator and ordering between objects of two registries "
        "must raise ValueError (core of the space enumerated: operators x operand kinds incl. attribute-obtained units x fresh/copy/copy-of-copy x side); deepcopy: edits on one side of a deep-copied pair never change the other side, and objects reached through the copy belong to it; "
        "lazy: the lazily built default registry answers like an explicitly built one. Non-trivial = an object mentioning a prefixed or lazily registered unit, "
        "a non-float magnitude, or protocol <= 1; distinct = distinct (object, transport)")
ASSUMPTIONS = ["unpickled objects belong to the application registry by design, so round-trip equality is judged on (magnitude, unit items, class family), not with =="]
MIN_COUNTS = {"quick": {"roundtrip": {"_evaluations": 600, "prefixed_unit": 80}, "errors": {"_evaluations": 200}}}

PREFIXED = ["kilometer", "millisecond", "microgram", "megawatt", "nanofarad", "gigahertz", "centipoise", "picocoulomb", "kibibyte", "milliinch", "microsecond", "millivolt"]


def tasks(tier, seed):
    t = [{"sub": "roundtrip", "shard": i} for i in range(4)]
    t += [{"sub": "errors", "shard": 0}, {"sub": "cross", "shard": 0}]
    t += [{"sub": "deepcopy", "shard": i} for i in range(2)]
    t += [{"sub": "lazy", "shard": 0}]
    t += [{"sub": "xproc", "shard": 0}]  # pickles written by one interpreter run and read by another (shared with C04)
    return t


# ------------------------------------------------------------------------------------- round trips

def _rt_strategy():
    names = list(env.unit_names("all"))
    mags = st.one_of(st.integers(-10 ** 6, 10 ** 6), st.floats(-1e9, 1e9, allow_nan=False), st.fractions(-100, 100, max_denominator=50).map(lambda f: ("F", f.numerator, f.denominator)),
                     st.decimals(-1000, 1000, places=3, allow_nan=False).map(lambda d: ("D", str(d))), st.lists(st.floats(-1e3, 1e3, allow_nan=False), min_size=1, max_size=4).map(lambda l: ("A", l)),
                     st.lists(st.integers(-50, 50), min_size=1, max_size=4).map(lambda l: ("I", l)))
    exps = st.one_of(st.integers(-3, 3).filter(bool), st.integers(-3, 3).filter(bool), st.sampled_from([("F", 1, 3), ("F", 1, 2), ("F", -2, 3), ("F", 3, 2), ("F", 1, 10), ("F", -1, 7)]))
    unit = st.dictionaries(st.sampled_from(names + PREFIXED * 25), exps, min_size=0, max_size=3)
    # the registry's number type for non-integers: exponents like 1/3 are floats, Fractions or Decimals accordingly, and must come back as what they were
    return st.builds(lambda kind, u, m, tr, proto, swaps, nit: {"kind": kind, "units": u, "m": m, "transport": tr, "proto": proto, "swaps": swaps, "nit": nit},
                     st.sampled_from(["Quantity", "Quantity", "Unit", "Measurement", "UnitsContainer", "ParserHelper"]), unit, mags,
                     st.sampled_from(["pickle", "pickle", "pickle", "copy", "deepcopy", "tuple", "tuple"]), st.integers(0, 5), st.integers(1, 2), st.sampled_from(["float", "float", "Fraction", "Decimal"]))


def _mag(m):
    import numpy as np

    if isinstance(m, (tuple, list)):
        if m[0] == "F":
            return Fraction(m[1], m[2])
        if m[0] == "D":
            return Decimal(m[1])
        if m[0] == "A":
            return np.array(m[1], dtype=float)
        if m[0] == "I":
            return np.array(m[1], dtype=np.int64)
    return m


def _content(obj):
    """serialisable view: (class family, magnitude repr+type, unit items)"""
    import numpy as np

    fam = [c.__name__ for c in type(obj).__mro__ if c.__name__ in ("PlainQuantity", "PlainUnit", "Measurement", "UnitsContainer", "ParserHelper")]
    fam = fam[0] if fam else type(obj).__name__
    if type(obj).__name__ == "Measurement" or any(c.__name__ == "Measurement" for c in type(obj).__mro__):
        fam = "Measurement"
    units = None
    mag = None
    if hasattr(obj, "_units"):
        units = tuple(sorted((k, type(v).__name__, str(v)) for k, v in obj._units.items()))
    elif hasattr(obj, "items"):
        units = tuple(sorted((k, type(v).__name__, str(v)) for k, v in obj.items()))
    if hasattr(obj, "scale") and not hasattr(obj, "_units"):
        mag = (type(obj.scale).__name__, repr(obj.scale))
    if hasattr(obj, "_magnitude"):
        m = obj._magnitude
        if isinstance(m, np.ndarray):
            mag = ("ndarray", str(m.dtype), m.shape, m.tolist())
        elif hasattr(m, "nominal_value"):
            mag = ("ufloat", repr(m.nominal_value), repr(m.std_dev))
        else:
            mag = (type(m).__name__, repr(m))
    return (fam, mag, units)


def case_roundtrip(case, col=None):
    import pint
    from pint.util import ParserHelper, UnitsContainer

    nit = case.get("nit", "float")
    kind, transport = case["kind"], case["transport"]
    if nit != "float" and transport == "pickle":
        nit = "float"  # unpickled objects live in the application registry, whose number type is its own; the other transports stay in the source registry
    src = env.ureg(nit)
    units = {k: (_mag(tuple(v)) if isinstance(v, (tuple, list)) else v) for k, v in case["units"].items()}
    if nit == "Decimal":
        units = {k: (Decimal(v.numerator) / Decimal(v.denominator) if isinstance(v, Fraction) and v.denominator in (2, 10) else (v if isinstance(v, int) else int(v) or 1)) for k, v in units.items()}
    if any(not isinstance(e, int) and env.R().resolve_spelling(n).factor < 0 for n, e in units.items()):
        raise Skip("fractional_power_of_negative_valued_unit")  # e.g. electron_g_factor ** (1/3) is not a real number
    m = _mag(case["m"])
    if nit != "float" and isinstance(m, float):
        m = env.NIT[nit](str(m))
    for n in units:
        src.get_name(n)
    uc = src.UnitsContainer(dict(units))
    if kind == "Quantity":
        obj = src.Quantity(m, uc)
    elif kind == "Unit":
        obj = src.Unit(uc)
    elif kind == "Measurement":
        if not isinstance(m, (int, float)):
            raise Skip("measurement_needs_plain_magnitude")
        obj = src.Measurement(float(m), abs(float(m)) * 0.01 + 0.5, uc)
    elif kind == "UnitsContainer":
        obj = src.UnitsContainer(dict(units))
    else:
        obj = ParserHelper(3, dict(units), non_int_type=env.NIT[nit])
    before = _content(obj)
    prefixed = any(n in PREFIXED for n in units)
    if col is not None:
        col.case(("rt", kind, str(sorted(units.items())), str(case["m"]), transport, case["proto"], case["swaps"]), prefixed or not isinstance(m, float) or case["proto"] <= 1,
                 sample={"kind": kind, "units": units, "magnitude": str(case["m"])[:40], "transport": transport, "protocol": case["proto"]}, cls=f"{kind}:{transport}")
        if prefixed:
            col.count("prefixed_unit")
    if transport == "copy":
        back = copy.copy(obj)
        owner = getattr(obj, "_REGISTRY", None)
    elif transport == "deepcopy":
        back = copy.deepcopy(obj)
        owner = getattr(obj, "_REGISTRY", None)
    elif transport == "tuple":
        if kind not in ("Quantity",):
            raise Skip("to_tuple_is_for_quantities")
        t = obj.to_tuple()
        back = src.Quantity.from_tuple(t)
        owner = src
    else:
        data = pickle.dumps(obj, protocol=case["proto"])
        old = pint.application_registry.get()
        try:
            back = None
            for i_ in range(case["swaps"]):
                # a freshly built application registry that has never parsed any of the (prefixed) names, installed through either of the
                # two public ways (pint.set_application_registry / the ApplicationRegistry proxy's set())
                fresh = pint.UnitRegistry()
                if (i_ + case["proto"]) % 2 == 0:
                    pint.set_application_registry(fresh)
                else:
                    pint.get_application_registry().set(fresh)
                s, back = attempt(pickle.loads, data)
                if s == "err":
                    raise Violation(f"unpickle_raised:{kind}:{exc_class(back)}", f"unpickling {kind} {units} (protocol {case['proto']}) raised {type(back).__name__}: {back}")
                owner = fresh
                if hasattr(back, "_REGISTRY"):
                    if back._REGISTRY is not fresh:
                        raise Violation("unpickled_object_not_in_application_registry", f"{kind} {units}")
                    # usable in the receiving registry: every name is registered there
                    u = back if kind == "Unit" else getattr(back, "units", None)
                    for fn, tag in ((lambda: format(back, "~"), "format ~"), (lambda: format(back, "~P"), "format ~P"), (lambda: (1 * u if kind == "Unit" else back).to_root_units(), "to_root_units")):
                        s2, r2 = attempt(fn)
                        if s2 == "err" and not (tag == "to_root_units" and type(r2).__name__ in ("OffsetUnitCalculusError", "DimensionalityError")):
                            raise Violation(f"unpickled_object_unusable:{tag}:{exc_class(r2)}", f"{kind} {units} unpickled under a fresh application registry: {tag} raised {type(r2).__name__}: {r2}")
        finally:
            pint.set_application_registry(old)
    after = _content(back)
    if after != before:
        raise Violation(f"roundtrip_changed_object:{kind}:{transport}", f"{transport} (protocol {case['proto']}) of {before} gave {after}")
    if transport in ("copy", "deepcopy") and hasattr(obj, "_REGISTRY") and back._REGISTRY is not obj._REGISTRY:
        raise Violation("copy_changed_registry", f"{kind}")
    if transport in ("copy", "deepcopy", "tuple") and kind == "Quantity":
        s, eq = attempt(lambda: back == obj)
        import numpy as np

        if s == "err" or not bool(np.all(eq)):
            raise Violation(f"roundtrip_not_equal:{transport}", f"{before}")
        # and it takes the original's place in the registry's arithmetic
        for tag, fn in (("dimensionality", lambda: back.dimensionality == obj.dimensionality), ("difference", lambda: bool(np.all((back - obj).magnitude == 0))),
                        ("ratio", lambda: (back / obj).dimensionless if not hasattr(m, "shape") or bool(np.all(m != 0)) else True)):
            if tag == "ratio" and not (hasattr(m, "shape") or m != 0):
                continue
            s2, r2 = attempt(fn)
            if s2 == "err" and type(r2).__name__ in ("OffsetUnitCalculusError", "ZeroDivisionError", "DivisionByZero", "InvalidOperation", "LogarithmicUnitCalculusError", "OverflowError"):
                continue
            if s2 == "err" or r2 is not True:
                raise Violation(f"roundtrip_result_unusable:{transport}:{tag}", f"{transport} of {before} (registry non_int_type={nit}): {tag} with the original -> {r2!r}")
    if transport == "deepcopy" and kind == "Quantity" and hasattr(m, "shape") and back._magnitude is obj._magnitude:
        raise Violation("deepcopy_shares_array", f"{before}")
    if _content(obj) != before:
        raise Violation("serialisation_modified_original", f"{before}")


def run_roundtrip(task, tier, seed, col):
    hyp_search(col, _rt_strategy(), lambda c: case_roundtrip(c, col), max_examples=220 if tier == "quick" else 5000, seed=seed * 271 + task["shard"], shrink_budget_s=60)


# ------------------------------------------------------------------------------------- exceptions

def _error_instances(draw_args):
    import pint
    from pint import errors
    from pint.util import UnitsContainer

    a, b, c, d = draw_args
    vals = {"s": ["meter", "", "x y", "degC"][a % 4], "t": [None, "", 0, "second", UnitsContainer({}), UnitsContainer({"second": 1})][b % 6], "u": ["[length]", "", None][c % 3], "m": ["", " extra", "msg: é"][d % 3]}
    out = [
        errors.DefinitionError("name" + vals["s"], int, vals["m"] or "m"),
        errors.DefinitionSyntaxError("bad " + vals["s"]),
        errors.RedefinitionError(vals["s"] or "x", float),
        errors.UndefinedUnitError(vals["s"] or "x"),
        errors.UndefinedUnitError((vals["s"] or "x", "other")),
        errors.DimensionalityError(vals["s"], vals["t"] if vals["t"] is not None else "second", vals["u"], "[time]", vals["m"]),
        errors.DimensionalityError(UnitsContainer({"meter": 1}), UnitsContainer({"second": 1})),
        errors.OffsetUnitCalculusError(vals["s"], vals["t"]),
        errors.OffsetUnitCalculusError(UnitsContainer({"degree_Celsius": 1}), vals["t"]),
        errors.LogarithmicUnitCalculusError(vals["s"], vals["t"]),
        errors.UnitStrippedWarning("stripped " + vals["s"]),
        errors.UndefinedBehavior("undefined " + vals["s"]),
        errors.PintTypeError("t" + vals["s"]),
        errors.PintError("p" + vals["s"]),
    ]
    try:
        from pint.delegates.txt_defparser.common import DefinitionSyntaxError as DSE2

        e = DSE2("syntax " + vals["s"])
        out.append(e)
    except Exception:  # noqa: BLE001
        pass
    return out


def _exc_view(e):
    d = {}
    for k, v in vars(e).items():
        if k.startswith("_"):
            continue  # private bookkeeping (e.g. the parser's _statement) is not a field of the error
        d[k] = (type(v).__name__, repr(v))
    # "same type, fields and message": Exception.args is an implementation detail of the reconstruction and is not compared
    return (type(e).__module__, type(e).__qualname__, tuple(sorted(d.items())), str(e))


def case_error(case, col=None):
    insts = _error_instances(case["args"])
    e = insts[case["which"] % len(insts)]
    tr = case["transport"]
    if col is not None:
        col.case(("ex", type(e).__name__, str(case["args"]), tr, case["proto"]), True, sample={"class": type(e).__name__, "str": str(e)[:80], "transport": tr}, cls=type(e).__name__)
    before = _exc_view(e)
    if tr == "pickle":
        s, back = attempt(lambda: pickle.loads(pickle.dumps(e, protocol=case["proto"])))
    elif tr == "copy":
        s, back = attempt(copy.copy, e)
    else:
        s, back = attempt(copy.deepcopy, e)
    if s == "err":
        raise Violation(f"exception_transport_raised:{type(e).__name__}:{tr}:{exc_class(back)}", f"{before}: {back!r}")
    after = _exc_view(back)
    if after != before:
        diff = [x for x, y in zip(before, after) if x != y][:2]
        raise Violation(f"exception_changed:{type(e).__name__}:{tr}", f"{tr} of {before[1]}: {diff} became {[y for x, y in zip(before, after) if x != y][:2]}")


def run_errors(task, tier, seed, col):
    strat = st.builds(lambda a, w, tr, p: {"args": a, "which": w, "transport": tr, "proto": p}, st.tuples(*[st.integers(0, 11)] * 4), st.integers(0, 20), st.sampled_from(["pickle", "pickle", "copy", "deepcopy"]), st.integers(0, 5))
    hyp_search(col, strat, lambda c: case_error(c, col), max_examples=400 if tier == "quick" else 6000, seed=seed * 277)


# ------------------------------------------------------------------------------------- cross-registry operations

OPS2 = ["add", "sub", "mul", "truediv", "floordiv", "mod", "divmod", "pow", "lt", "le", "gt", "ge", "iadd", "isub", "imul", "itruediv"]


def case_cross(case, col=None):
    import operator

    import numpy as np

    import pint

    a_reg = env.ureg("float")
    how = case["other"]
    if how == "fresh":
        b_reg = _other_registry()
    elif how == "deepcopy":
        b_reg = _copied_registry()
    elif how == "deepcopy2":
        a_reg, b_reg = _copied_registry(), _copied_registry(2)  # a copy and the copy of that copy
    else:
        b_reg = pint.get_application_registry().get()
        if b_reg is a_reg:
            raise Skip("same_registry")
    ua, ub = case["ua"], case["ub"]
    arr = case["array"]
    mk = lambda reg, x, u: reg.Quantity(np.array([x, x + 1.0]) if arr else x, u)  # noqa: E731
    objs_a = {"q": mk(a_reg, 2.0, ua), "u": a_reg.Unit(ua), "attr": getattr(a_reg, ua or "dimensionless")}
    objs_b = {"q": mk(b_reg, 3.0, ub), "u": b_reg.Unit(ub), "attr": getattr(b_reg, ub or "dimensionless")}
    for tag_, reg_, o_ in (("first", a_reg, objs_a["attr"]), ("second", b_reg, objs_b["attr"])):
        if o_._REGISTRY is not reg_:
            raise Violation("registry_attribute_belongs_to_another_registry", f"{how}: the unit obtained as an attribute of the {tag_} registry belongs to another registry")
    op = case["op"]
    la, lb = case["left"], case["right"]
    x, y = objs_a[la], objs_b[lb]
    if case.get("swap"):
        x, y = objs_b[la], objs_a[lb]  # the younger registry's object on the left
    la, lb = ("u" if la == "attr" else la), ("u" if lb == "attr" else lb)
    if col is not None:
        col.case(("x", op, case["left"], case["right"], ua, ub, how, arr, bool(case.get("swap"))), True, sample=case, cls=f"{op}:{la}{lb}")
    f = divmod if op == "divmod" else getattr(operator, op)
    if op.startswith("i") and la == "u":
        raise Skip("inplace_on_unit")
    if op == "pow" and la == "u":
        raise Skip("unit_power_by_quantity_is_not_an_operation")
    s, r = attempt(f, x, y)
    if s == "ok" and r is NotImplemented:
        return
    if s == "ok":
        raise Violation(f"cross_registry_operation_returned:{op}:{la}{lb}", f"{la}({ua}) {op} {lb}({ub}) of another registry ({how}) returned {r!r}")
    if not isinstance(r, ValueError):
        if isinstance(r, TypeError) and la == "u" and lb == "u" and op in ("add", "sub", "floordiv", "mod", "divmod", "pow"):
            return  # these operators are not defined between Unit objects at all
        raise Violation(f"cross_registry_wrong_exception:{op}:{la}{lb}:{exc_class(r)}", f"{la}({ua}) {op} {lb}({ub}): {type(r).__name__}: {r}")


_OTHER = []
_COPIED = []


def _other_registry():
    import pint

    if not _OTHER:
        _OTHER.append(pint.UnitRegistry())
    return _OTHER[0]


def _copied_registry(gen=1):
    if not _COPIED:
        src = env.ureg("float")
        for n in ("meter", "second", "dimensionless", "radian", "kilometer"):
            getattr(src, n)  # names reached as attributes before the copy is taken
        _COPIED.append(copy.deepcopy(src))
        _COPIED.append(copy.deepcopy(_COPIED[0]))
    return _COPIED[gen - 1]


def run_cross(task, tier, seed, col):
    units = ["meter", "second", "", "radian", "kilometer"]
    strat = st.builds(lambda op, l, r, ua, ub, how, arr: {"op": op, "left": l, "right": r, "ua": ua, "ub": ub, "other": how, "array": arr}, st.sampled_from(OPS2), st.sampled_from(["q", "q", "u", "attr"]),
                      st.sampled_from(["q", "q", "u", "attr"]), st.sampled_from(units), st.sampled_from(units), st.sampled_from(["fresh", "deepcopy", "deepcopy2", "application"]), st.booleans()).flatmap(lambda c: st.booleans().map(lambda b: dict(c, swap=b)))
    # the core of the space is small enough to enumerate: every operator x operand kinds x way the second registry came about x which side it stands on
    for op in OPS2:
        for l_ in ("q", "u", "attr"):
            for r_ in ("q", "u", "attr"):
                for how in ("fresh", "deepcopy", "deepcopy2"):
                    for swap in (False, True):
                        col.run_case(lambda c: case_cross(c, col), {"op": op, "left": l_, "right": r_, "ua": "meter", "ub": "second", "other": how, "array": False, "swap": swap})
    hyp_search(col, strat, lambda c: case_cross(c, col), max_examples=300 if tier == "quick" else 8000, seed=seed * 281)


# ------------------------------------------------------------------------------------- deep-copied registries evolve independently

BATTERY = [("convert", 1, "inch", "centimeter"), ("convert", 1, "pound", "gram"), ("root", "newton"), ("compat", "meter"), ("name", "km"), ("sysmembers", "mks"), ("group", "Textile"),
           ("format", 3, "kilometer", "~P"), ("base", "inch"), ("ctx", 500, "nanometer", "terahertz"), ("newunit", "smoot"), ("newunit", "hexameter"), ("newunit", "metro_x"), ("newunit", "zollstock")]


def _battery(reg):
    out = []
    for q in BATTERY:
        try:
            if q[0] == "convert":
                r = reg.convert(q[1], q[2], q[3])
            elif q[0] == "root":
                f, u = reg.get_root_units(q[1])
                r = (f, tuple(sorted(u._units.items())))
            elif q[0] == "compat":
                r = tuple(sorted(next(iter(x._units)) for x in reg.get_compatible_units(q[1])))
            elif q[0] == "name":
                r = reg.get_name(q[1])
            elif q[0] == "sysmembers":
                r = len(reg.get_system(q[1], False).members)
            elif q[0] == "group":
                r = tuple(sorted(reg.get_group(q[1], False).members))
            elif q[0] == "format":
                r = format(reg.Quantity(q[1], q[2]), q[3])
            elif q[0] == "base":
                f, u = reg.get_base_units(q[1])
                r = (f, tuple(sorted(u._units.items())))
            elif q[0] == "ctx":
                r = reg.Quantity(q[1], q[2]).to(q[3], "sp").magnitude
            else:
                r = reg.convert(1, q[1], "meter")
            out.append(("ok", repr(r)))
        except Exception as e:  # noqa: BLE001
            out.append(("err", type(e).__name__))
    return out


EDITS = ["define_unit", "define_prefix", "redefine_ctx", "group_add", "default_system", "default_format", "enable_context", "add_context", "define_alias", "system_group", "preprocessor"]


def _edit(reg, e):
    import pint

    if e == "define_unit":
        reg.define("smoot = 1.7018 * meter")
    elif e == "define_prefix":
        reg.define("hexa- = 16")
    elif e == "redefine_ctx":
        c = pint.Context("redef_" + str(id(reg) % 1000))
        c.redefine("inch = 3 * centimeter")
        reg.add_context(c)
        reg.enable_contexts(c)
    elif e == "group_add":
        reg.get_group("Textile").add_units("meter")
    elif e == "default_system":
        reg.default_system = "cgs"
    elif e == "default_format":
        reg.formatter.default_format = "~L"
    elif e == "enable_context":
        reg.enable_contexts("sp")
    elif e == "add_context":
        c = pint.Context("extra")
        c.add_transformation("[length]", "[time]", lambda ureg, x: x / ureg.Quantity(3, "meter/second"))
        reg.add_context(c)
    elif e == "define_alias":
        reg.define("@alias meter = metro_x")
    elif e == "system_group":
        reg.get_system("mks").add_groups("Textile")
    elif e == "preprocessor":
        reg.preprocessors.append(lambda s_: s_.replace("zollstock", "inch"))


def case_deepcopy(case, col=None):
    import pint

    logging.disable(logging.CRITICAL)
    try:
        if col is not None:
            col.case(("dc", str(case)), True, sample=case, cls="edit_" + case["side"])
        src = pint.UnitRegistry()
        for w in case["warm"]:
            _battery(src) if w else None
            # names reached as attributes of the source before the copy is taken
            (src.kilogram, src.meter, src.second, src.sys.cgs.centimeter, src.sys.imperial.pint) if w else None
        cp = copy.deepcopy(src)
        b_src, b_cp = _battery(src), _battery(cp)
        if b_src != b_cp:
            raise Violation("deepcopy_answers_differ", f"{[(q, a, b) for q, a, b in zip(BATTERY, b_src, b_cp) if a != b][:2]}")
        edited, other = (src, cp) if case["side"] == "source" else (cp, src)
        before = _battery(other)
        for e in case["edits"]:
            s, r = attempt(_edit, edited, e)
            if s == "err":
                raise Violation(f"edit_on_{case['side']}_raised:{e}:{exc_class(r)}", f"{r!r}")
            after = _battery(other)
            if after != before:
                diff = [(q, a, b) for q, a, b in zip(BATTERY, before, after) if a != b][:2]
                raise Violation(f"deepcopy_not_independent:{e}:{case['side']}", f"after {e} on the {case['side']}: the other registry changed {diff}")
        # objects reached through the copy belong to the copy
        for tag, fn in (("Quantity", lambda: cp.Quantity(1, "meter")), ("Unit", lambda: cp.Unit("second")), ("parse", lambda: cp.parse_expression("3 km")), ("attr", lambda: cp.kilogram), ("attr2", lambda: cp.meter),
                        ("sys.attr", lambda: cp.sys.cgs.centimeter), ("sys.imperial.pint", lambda: cp.sys.imperial.pint), ("group", lambda: cp.get_group("Textile")), ("system", lambda: cp.get_system("mks")),
                        ("compat", lambda: next(iter(cp.get_compatible_units("meter")))), ("formatter", lambda: cp.formatter),
                        ("Measurement", lambda: cp.Measurement(1.0, 0.1, "meter")), ("plus_minus", lambda: cp.Quantity(2.0, "meter").plus_minus(0.1)),
                        ("parse_uncertainty", lambda: cp.parse_expression("(2.0 +/- 0.1) m")), ("Measurement.to", lambda: cp.Measurement(1.0, 0.1, "meter").to("cm")),
                        ("Quantity.units", lambda: cp.Quantity(1, "meter").units), ("Quantity.to", lambda: cp.Quantity(1, "meter").to("inch")), ("Unit*Unit", lambda: cp.Unit("m") * cp.Unit("s"))):
            s, o = attempt(fn)
            if s == "err":
                raise Violation(f"copy_object_raised:{tag}:{exc_class(o)}", f"{o!r}")
            owner = getattr(o, "_REGISTRY", getattr(o, "_registry", None))
            if owner is not None and owner is not cp:
                which = "source" if owner is src else "another registry"
                raise Violation(f"copy_object_belongs_to_source:{tag}", f"{tag} obtained from the deep copy belongs to {which}")
        # and they combine with the copy's quantities
        s, r = attempt(lambda: cp.Quantity(2, "meter") * cp.sys.cgs.centimeter + cp.Quantity(1, "meter") * cp.Unit("cm"))
        if s == "err":
            raise Violation(f"copy_objects_do_not_combine:{exc_class(r)}", f"{r!r}")
        s, r = attempt(lambda: (cp.Measurement(1.0, 0.1, "meter") + cp.Quantity(2.0, "meter"), cp.Quantity(2.0, "meter").plus_minus(0.1) * cp.Quantity(2.0, "second")))
        if s == "err":
            raise Violation(f"copy_objects_do_not_combine:Measurement:{exc_class(r)}", f"{r!r}")
        # and never with the source's (all of them are registry-bound)
        for tag, fn in (("Measurement+Quantity", lambda: cp.Measurement(1.0, 0.1, "meter") + src.Quantity(2.0, "meter")), ("Quantity*Unit", lambda: cp.Quantity(1.0, "meter") * src.Unit("second")),
                        ("Measurement<Quantity", lambda: cp.Quantity(1.0, "meter").plus_minus(0.1) < src.Quantity(2.0, "meter"))):
            s, r = attempt(fn)
            if s == "ok" or not isinstance(r, ValueError):
                raise Violation(f"copy_and_source_objects_combine:{tag}", f"{tag}: {'returned ' + repr(r) if s == 'ok' else repr(r)}")
    finally:
        logging.disable(logging.NOTSET)


def run_deepcopy(task, tier, seed, col):
    strat = st.builds(lambda side, edits, warm: {"side": side, "edits": edits, "warm": warm}, st.sampled_from(["source", "copy"]), st.lists(st.sampled_from(EDITS), min_size=1, max_size=4, unique=True), st.lists(st.booleans(), min_size=0, max_size=1))
    hyp_search(col, strat, lambda c: case_deepcopy(c, col), max_examples=25 if tier == "quick" else 400, seed=seed * 283 + task["shard"], shrink_budget_s=90)


# ------------------------------------------------------------------------------------- the lazily built default registry

_LAZY_CODE = r"""
import json, sys, logging
logging.disable(logging.CRITICAL)
import pint
def battery(mk_q, reg):
    out = []
    for fn in (lambda: repr(mk_q(1, "inch").to("centimeter").magnitude), lambda: repr(mk_q(3, "kilometer/hour").to_base_units()), lambda: format(mk_q(2.5, "kg*m/s**2"), "~P"),
               lambda: repr(reg.get_name("km")), lambda: sorted(next(iter(u._units)) for u in reg.get_compatible_units("meter")), lambda: repr(reg.get_base_units("pound")),
               lambda: repr(mk_q(25, "degC").to("degF").magnitude), lambda: repr(reg.parse_expression("3 m/s * 2 s")), lambda: repr(mk_q(1, "nope")), lambda: repr(mk_q(500, "nm").to("THz", "sp").magnitude),
               lambda: reg.default_system, lambda: repr(mk_q(1, "m") + mk_q(1, "s"))):
        try:
            out.append(["ok", fn()])
        except Exception as e:
            out.append(["err", type(e).__name__])
    return out
mode = sys.argv[1]
if mode == "lazy":
    res = battery(lambda m, u: pint.Quantity(m, u), pint.get_application_registry())
else:
    r = pint.UnitRegistry(on_redefinition="raise")
    res = battery(lambda m, u: r.Quantity(m, u), r)
print(json.dumps(res))
"""


def case_lazy(case, col=None):
    if col is not None:
        col.case(("lazy", 0), True, sample={"note": "two fresh interpreters: lazily built default registry vs UnitRegistry(on_redefinition='raise')"})
        col.case(("lazy", 1), True)
    outs = {}
    for mode in ("lazy", "explicit"):
        p = subprocess.run([sys.executable, "-c", _LAZY_CODE, mode], capture_output=True, text=True, timeout=300, env=dict(os.environ))
        if p.returncode != 0:
            raise Violation(f"lazy_registry_probe_failed:{mode}", p.stderr[-400:])
        outs[mode] = json.loads(p.stdout.strip().splitlines()[-1])
    if outs["lazy"] != outs["explicit"]:
        diff = [(i, a, b) for i, (a, b) in enumerate(zip(outs["lazy"], outs["explicit"])) if a != b][:3]
        raise Violation("lazy_default_registry_differs", f"{diff}")


def run_lazy(task, tier, seed, col):
    col.run_case(lambda c: case_lazy(c, col), {})
    col.exhaustive = True


def run_task(task, tier, seed, col):
    if task["sub"] == "xproc":
        from .c04 import case_xproc_pickle

        return col.run_case(lambda c: case_xproc_pickle(c, col), {"writer": 2 + seed % 3, "readers": [9, 2 + seed % 3]})
    {"roundtrip": run_roundtrip, "errors": run_errors, "cross": run_cross, "deepcopy": run_deepcopy, "lazy": run_lazy}[task["sub"]](task, tier, seed, col)


def replay(sub, case):
    if sub == "xproc":
        from .c04 import case_xproc_pickle

        return case_xproc_pickle(case)
    return {"roundtrip": case_roundtrip, "errors": case_error, "cross": case_cross, "deepcopy": case_deepcopy, "lazy": case_lazy}[sub](case)
