"""C11 — context conversions apply the declared rules along a shortest chain.

Oracle: own graph search over dimension vectors (all shortest paths by BFS, most recently enabled context wins an edge) and own
evaluation of the rule equations (monomials) in exact arithmetic with the unit factors of R.
"""
from __future__ import annotations

import copy
import itertools
from collections import deque
from fractions import Fraction

from hypothesis import strategies as st

from .. import env
from ..core import Collector, Skip, Violation, attempt, exc_class, hyp_search
from ..oracle.defreader import V, parse_expr

PROPERTY = "C11"
LEVEL = "exploration"
RULE = ("bundled: for every bundled context every relation and every 2-/3-hop chain it enables, source/target units drawn from all rational units of the two "
        "dimension classes, parameters drawn, in every activation form (with-block, enable/disable, per-call contexts of to()/ito(), decorator, alias, "
        "Context object); generated: random rule graphs over 3-5 dimensions of the default registry with monomial equations, rational constants that make "
        "different chains give different values, parameters with declared defaults / keywords / enclosing contexts, overlapping rules in stacks of up to 4 "
        "contexts: the result must equal the value of SOME shortest chain (own BFS), unreachable targets raise DimensionalityError, same-dimension "
        "conversions are unchanged; redef: contexts with unit redefinitions, the redefined unit and units depending on it convert by R re-resolved with the "
        "override while active and by the original outside. Non-trivial = a conversion through >= 2 hops, an edge declared by >= 2 active contexts, a parameter "
        "resolved by inheritance, or a redefinition seen through a dependent unit; distinct = distinct (contexts, stack, units, value)")
ASSUMPTIONS = ["rule equations are monomials (true for all bundled contexts and for the generated ones)",
               "with two enclosing contexts that give different values to one parameter the statement does not say which is inherited: not asserted, counted"]
MIN_COUNTS = {"quick": {"generated": {"multi_hop": 40, "tie_or_collision": 20}, "bundled": {"_evaluations": 300}, "redef": {"_evaluations": 100}}}

DIMS = {"L": ("[length]", ["meter", "inch", "kilometer", "foot"]), "T": ("[time]", ["second", "minute", "hour"]), "M": ("[mass]", ["gram", "kilogram", "pound"]),
        "I": ("[current]", ["ampere", "biot"]), "N": ("[substance]", ["mole"]), "J": ("[luminosity]", ["candela"]),
        # derived dimension names: rules written with them are normalised to base dimensions by pint (at load or at first activation)
        "F": ("[frequency]", ["hertz", "kilohertz"]), "E": ("[energy]", ["joule", "erg"]), "A": ("[area]", ["are", "hectare"]), "V": ("[velocity]", ["knot", "mile_per_hour"])}


def dname_key(R, dname):
    """base-dimension key of a (possibly derived) dimension name"""
    from ..oracle.defreader import V as _V

    return dimkey(R.dim_of_dimexpr(_V(Fraction(1), {dname: Fraction(1)})))


def _api_func(rule, ureg):
    ua, ub = DIMS[rule["a"]][1][0], DIMS[rule["b"]][1][0]
    c = rule["c"]
    k = lambda reg: c * reg.Quantity(1, ub) / reg.Quantity(1, ua)  # noqa: E731
    if rule["form"] == "mul":
        return lambda reg, value, **kw: value * k(reg)
    if rule["form"] == "div":
        return lambda reg, value, **kw: c * reg.Quantity(1, ub) * reg.Quantity(1, ua) / value
    if rule["form"] == "pmul":
        return lambda reg, value, p, **kw: value * p * k(reg)
    return lambda reg, value, p, **kw: value / p * k(reg)


def tasks(tier, seed):
    t = [{"sub": "bundled", "shard": i} for i in range(2)]
    t += [{"sub": "generated", "shard": i} for i in range(4)]
    t += [{"sub": "redef", "shard": i} for i in range(2)] + [{"sub": "params", "shard": 0}]
    return t


# ------------------------------------------------------------------------------------- oracle: rule evaluation and graph search

def dimkey(d):
    return tuple(sorted((k, Fraction(v)) for k, v in d.items() if v != 0))


def apply_equation(R, eq: V, value, vec, params):
    """eq: monomial parsed by R's expression parser.  value: number in root units, vec: root-unit exponents. -> (value, vec)"""
    out_val = eq.scale if isinstance(eq.scale, Fraction) else Fraction(eq.scale)
    out_vec = {}
    exactness = True
    for name, e in eq.units.items():
        if name == "value":
            f, v = value, vec
        elif name in params:
            f, v = Fraction(params[name]), {}
        else:
            pval, canon = R.lookup(name)
            r = R.resolve(canon)
            f = (r.factor if not r.irrational else Fraction(r.factor)) * pval
            v = r.root
            if r.tainted or r.irrational:
                exactness = False
        if e.denominator != 1:
            exactness = False
            f = Fraction(float(f) ** float(e))
        else:
            if f == 0 and e < 0:
                raise ZeroDivisionError
            f = f ** int(e)
        out_val *= f
        for k, x in v.items():
            out_vec[k] = out_vec.get(k, 0) + x * e
    return out_val, {k: x for k, x in out_vec.items() if x != 0}, exactness


def shortest_paths(edges, src, dst):
    """edges: {(a,b)}; returns all shortest paths (lists of nodes) from src to dst; [] when unreachable; [[src]] if equal"""
    if src == dst:
        return [[src]]
    adj = {}
    for a, b in edges:
        adj.setdefault(a, []).append(b)
    dist = {src: 0}
    dq = deque([src])
    while dq:
        n = dq.popleft()
        for m in adj.get(n, ()):
            if m not in dist:
                dist[m] = dist[n] + 1
                dq.append(m)
    if dst not in dist:
        return []
    out = []

    def back(path):
        n = path[-1]
        if n == dst:
            out.append(list(path))
            return
        for m in adj.get(n, ()):
            if dist.get(m) == dist[n] + 1 and dist[m] <= dist[dst]:
                back(path + [m])

    back([src])
    return out


def rootdim(R, vec):
    d = {}
    for u, e in vec.items():
        for k, x in R.resolve(u).dim.items():
            d[k] = d.get(k, 0) + x * e
    return dimkey(d)


# ------------------------------------------------------------------------------------- bundled contexts

def bundled_rules(R, name):
    """[(src dimkey, dst dimkey, equation V)] incl. both directions of <->"""
    out = []
    for src, dst, bi, eq in R.contexts[name].relations:
        a, b = dimkey(R.dim_of_dimexpr(src)), dimkey(R.dim_of_dimexpr(dst))
        v = parse_expr(eq)
        out.append((a, b, v))
        if bi:
            out.append((b, a, v))
    return out


def _units_by_dim(with_tainted=False):
    R = env.R()
    byd = {}
    for n in env.unit_names("mult"):
        r = R.resolve(n)
        if ((r.tainted or r.irrational) and not with_tainted) or r.factor <= 0:
            continue
        byd.setdefault(dimkey(r.dim), []).append(n)
    return byd


def check_conversion(ureg, R, stack, x, src_unit, dst_unit, how, kwargs=None, col=None, tag=""):
    """stack: list of (name or Context object used for activation, rules [(a,b,V)], params dict) oldest first.
    how: activation form.  Returns classification string."""
    import pint

    kwargs = kwargs or {}
    rs, rd = R.resolve_spelling(src_unit), R.resolve_spelling(dst_unit)
    a, b = dimkey(rs.dim), dimkey(rd.dim)
    # most recently enabled context wins when an edge is declared twice
    edge_rule = {}
    for ctx, rules, params in stack:
        for (p, q, eq) in rules:
            edge_rule[(p, q)] = (eq, params)
    paths = shortest_paths(set(edge_rule), a, b)
    expected = []
    exact = True
    if rs.tainted or rd.tainted or rs.irrational or rd.irrational:
        exact = False
    for path in paths:
        val, vec = Fraction(x) * Fraction(rs.factor), dict(rs.root)
        ok = True
        for p, q in zip(path[:-1], path[1:]):
            eq, params = edge_rule[(p, q)]
            try:
                val, vec, ex = apply_equation(R, eq, val, vec, params)
            except ZeroDivisionError:
                ok = False
                break
            exact = exact and ex
        if ok:
            if rootdim(R, vec) != b:
                raise Skip("rule_equation_dimensionally_inconsistent")
            expected.append(val / Fraction(rd.factor))
    q = ureg.Quantity(x, src_unit)
    names = [c for c, _, _ in stack]

    def run():
        if how == "with":
            with ureg.context(*names, **kwargs):
                return q.to(dst_unit)
        if how == "enable":
            ureg.enable_contexts(*names, **kwargs)
            try:
                return q.to(dst_unit)
            finally:
                ureg.disable_contexts(len(names))
        if how == "to":
            return q.to(dst_unit, *names, **kwargs)
        if how == "ito":
            q2 = ureg.Quantity(x, src_unit)
            q2.ito(dst_unit, *names, **kwargs)
            return q2
        if how == "convert":
            with ureg.context(*names, **kwargs):
                return ureg.Quantity(ureg.convert(x, src_unit, dst_unit), dst_unit)
        if how == "decorator":
            inner = names[-1]

            @ureg.with_context(inner, **kwargs)
            def f(qq):
                return qq.to(dst_unit)

            if len(names) > 1:
                with ureg.context(*names[:-1], **kwargs):
                    return f(q)
            return f(q)
        if how == "nested":
            from contextlib import ExitStack

            with ExitStack() as es:
                for n in names:
                    es.enter_context(ureg.context(n, **kwargs))
                return q.to(dst_unit)
        raise ValueError(how)

    s, r = attempt(run)
    if ureg._active_ctx.contexts:
        ureg.disable_contexts()
        raise Violation("context_left_active_after_call", f"{how} with {names}")
    if not paths:
        if s == "ok":
            raise Violation("unreachable_target_converted", f"Q({x},{src_unit}).to({dst_unit}) with {tag} returned {r.magnitude!r}; no chain of rules links {a} to {b}")
        if not isinstance(r, pint.DimensionalityError):
            raise Violation(f"unreachable_target_wrong_exception:{exc_class(r)}", f"{r!r}")
        return "unreachable"
    if not expected:
        raise Skip("division_by_zero_on_every_path")
    if s == "err":
        if isinstance(r, ZeroDivisionError):
            raise Skip("division_by_zero")
        raise Violation(f"declared_chain_refused:{how}:{exc_class(r)}", f"Q({x},{src_unit}).to({dst_unit}) with {tag} ({how}) raised {type(r).__name__}: {r}")
    got = r.magnitude
    if exact:
        ok = (not isinstance(got, float)) and any(Fraction(got) == e for e in expected)
    else:
        ok = any(abs(float(got) - float(e)) <= 1e-9 * abs(float(e)) for e in expected)
    if not ok:
        k = "same_dimension_changed" if len(paths[0]) == 1 else ("single_hop" if len(paths[0]) == 2 else "multi_hop")
        raise Violation(f"wrong_context_conversion:{k}", f"Q({x},{src_unit}).to({dst_unit}) with {tag} ({how}) = {got!r}; shortest chains {paths} give {[str(e)[:40] for e in expected]}")
    if dict(r._units) != {dst_unit: 1}:
        raise Violation("context_conversion_wrong_unit", f"{dict(r._units)}")
    return "same" if len(paths[0]) == 1 else ("hop1" if len(paths[0]) == 2 else "multi")


PARAMS = {"spectroscopy": {"n": [Fraction(1), Fraction(3, 2), Fraction(133, 100)]}, "chemistry": {}}
HOWS = ["with", "enable", "to", "ito", "convert", "decorator", "nested"]


def case_bundled(case, col=None):
    R = env.R()
    ureg = env.ureg("Fraction")
    ctxname, use, how = case["ctx"], case["use"], case["how"]
    rules = bundled_rules(R, ctxname)
    params = {k: v.scale for k, v in R.contexts[ctxname].defaults.items()}
    kwargs = {}
    for k, v in (case.get("kwargs") or {}).items():
        kwargs[k] = Fraction(v)
    params_eff = dict(params, **kwargs)
    if col is not None:
        col.case(("b", ctxname, use, how, case["src"], case["dst"], str(case["x"]), str(sorted(kwargs.items()))), True,
                 sample={"context": use, "how": how, "x": case["x"], "src": case["src"], "dst": case["dst"], "kwargs": kwargs}, cls=ctxname)
    res = check_conversion(ureg, R, [(use, rules, params_eff)], Fraction(case["x"]), case["src"], case["dst"], how, kwargs, tag=f"context {use} {kwargs}")
    if col is not None:
        col.count("result:" + res)
    if res != "unreachable" and how in ("with", "to", "convert", "enable"):
        _array_followup(use, kwargs, float(Fraction(case["x"])), case["src"], case["dst"], how, col)


def _array_followup(use, kwargs, x, src, dst, how, col):
    """the same conversion on an ndarray magnitude (float registry): element-wise equal to the scalar conversions, asked twice, and the source quantity
    (its array and its unit) is what it was - a conversion that is not in place never writes into its source, whether or not a rule applied"""
    import numpy as np

    ureg = env.ureg("float")
    kw = {k: float(v) for k, v in kwargs.items()}
    vals = [x, 2 * x, x / 4]

    def one(v):
        with ureg.context(use, **kw):
            return ureg.Quantity(v, src).to(dst).magnitude

    s0, scal = attempt(lambda: [one(v) for v in vals])
    if s0 == "err":
        return
    arr = np.array(vals, dtype=float)
    keep = arr.copy()
    q = ureg.Quantity(arr, src)
    outs = []
    for _ in range(2):
        if how == "to":
            outs.append(q.to(dst, use, **kw).magnitude)
        elif how == "convert":
            with ureg.context(use, **kw):
                outs.append(ureg.convert(arr, src, dst))
        elif how == "enable":
            ureg.enable_contexts(use, **kw)
            try:
                outs.append(q.to(dst).magnitude)
            finally:
                ureg.disable_contexts(1)
        else:
            with ureg.context(use, **kw):
                outs.append(q.to(dst).magnitude)
    if col is not None:
        col.count("array_followup")
    if not np.array_equal(arr, keep) or dict(q._units) != dict(ureg.Quantity(1, src)._units):
        raise Violation(f"context_conversion_modified_its_source:{how}", f"Q({keep!r},{src}).to({dst}) with context {use} ({how}): the source is now {q!r}")
    for got in outs:
        if not np.allclose(np.asarray(got, dtype=float), np.asarray(scal, dtype=float), rtol=1e-9, atol=0):
            raise Violation(f"wrong_context_conversion:ndarray:{how}", f"Q({keep!r},{src}).to({dst}) with context {use} ({how}) = {got!r}; the scalar conversions give {scal!r}")


def _bundled_strategy():
    R = env.R()
    byd = _units_by_dim()
    byd_t = _units_by_dim(True)
    for k, v in byd_t.items():
        byd.setdefault(k, v)  # dimension classes that only have float-tainted units (Gaussian / ESU charges, fields ...)
    cases = []
    for cname, cd in R.contexts.items():
        rules = bundled_rules(R, cname)
        nodes = sorted({a for a, _, _ in rules} | {b for _, b, _ in rules})
        nodes = [n for n in nodes if n in byd]
        uses = [cname] + cd.aliases
        cases.append((cname, uses, nodes))
    xs = st.one_of(st.integers(1, 900), st.fractions(1, 500, max_denominator=20))

    @st.composite
    def strat(draw):
        cname, uses, nodes = draw(st.sampled_from(cases))
        a = draw(st.sampled_from(nodes))
        b = draw(st.sampled_from(nodes))
        kwargs = {}
        if cname == "spectroscopy" and draw(st.booleans()):
            kwargs["n"] = draw(st.sampled_from([Fraction(3, 2), Fraction(133, 100), 2]))
        if cname == "chemistry":
            kwargs = {"mw": draw(st.sampled_from([Fraction(18), Fraction(5844, 100)])), "volume": draw(st.sampled_from([2, Fraction(1, 2)])), "solvent_mass": draw(st.sampled_from([3, Fraction(3, 4)]))}
            # parameters of the chemistry context are quantities in real use; plain numbers keep the equations monomial in base units
        return {"ctx": cname, "use": draw(st.sampled_from(uses)), "how": draw(st.sampled_from(HOWS)), "src": draw(st.sampled_from(byd[a])), "dst": draw(st.sampled_from(byd[b])),
                "x": draw(xs), "kwargs": kwargs}

    return strat()


def run_bundled(task, tier, seed, col):
    hyp_search(col, _bundled_strategy(), lambda c: case_bundled(c, col), max_examples=300 if tier == "quick" else 5000, seed=seed * 181 + task["shard"])


# ------------------------------------------------------------------------------------- generated contexts

_COUNTER = itertools.count()


def _generated_strategy():
    keys = sorted(DIMS)
    consts = [Fraction(2), Fraction(3), Fraction(5), Fraction(7), Fraction(1, 2), Fraction(11, 3), Fraction(13), Fraction(1, 10)]

    @st.composite
    def ctx(draw, idx, nodes):
        nrules = draw(st.integers(2, 5))
        rules = []
        for _ in range(nrules):
            a, b = draw(st.sampled_from(nodes)), draw(st.sampled_from(nodes))
            if a == b:
                continue
            form = draw(st.sampled_from(["mul", "div", "pmul", "pdiv"]))
            rules.append({"a": a, "b": b, "c": draw(st.sampled_from(consts)), "form": form, "bi": draw(st.integers(0, 3)) == 0})
        has_param = any(r["form"] in ("pmul", "pdiv") for r in rules)
        return {"name": f"g{idx}", "rules": rules, "default": draw(st.sampled_from([None, Fraction(2), Fraction(9, 4)])) if has_param else None,
                "alias": draw(st.booleans())}

    @st.composite
    def strat(draw):
        nodes = draw(st.lists(st.sampled_from(keys), min_size=3, max_size=4, unique=True))
        nctx = draw(st.integers(1, 4))
        ctxs = [draw(ctx(i, nodes)) for i in range(nctx)]
        a = draw(st.sampled_from(nodes))
        b = draw(st.sampled_from([k for k in nodes if k != a] * 3 + [a] + [k for k in keys if k not in nodes][:1]))  # mostly another node of the graph
        how = draw(st.sampled_from(HOWS))
        kw = draw(st.sampled_from([None, None, Fraction(5), Fraction(1, 3)]))
        return {"ctxs": ctxs, "src": draw(st.sampled_from(DIMS[a][1])), "dst": draw(st.sampled_from(DIMS[b][1])), "x": draw(st.one_of(st.integers(1, 50), st.fractions(1, 20, max_denominator=9))),
                "how": how, "kw": kw, "use_object": draw(st.booleans()), "build": draw(st.sampled_from(["lines_to_base", "lines_plain", "api"]))}

    return strat()


def _equation(rule):
    """text of the equation and its parsed monomial: value [*|/] p * c * unit_b / unit_a  (dimensionally consistent by construction)"""
    ua, ub = DIMS[rule["a"]][1][0], DIMS[rule["b"]][1][0]
    c = rule["c"]
    cs = f"{c.numerator} / {c.denominator}" if c.denominator != 1 else str(c.numerator)
    if rule["form"] == "mul":
        return f"value * {cs} * {ub} / {ua}"
    if rule["form"] == "div":
        # the reciprocal rule: b = c / a
        return f"{cs} * {ub} * {ua} / value"
    if rule["form"] == "pmul":
        return f"value * p * {cs} * {ub} / {ua}"
    return f"value / p * {cs} * {ub} / {ua}"


def case_generated(case, col=None):
    import pint

    R = env.R()
    ureg = env.ureg("Fraction")
    uid = next(_COUNTER)
    stack = []
    objs = []
    amb_param = False
    try:
        for c in case["ctxs"]:
            name = f"{c['name']}_{uid}"
            head = "@context" + (f"(p={c['default'].numerator}/{c['default'].denominator})" if c["default"] is not None else "") + f" {name}" + (f" = {name}a" if c["alias"] else "")
            lines = [head]
            rules = []
            for r in c["rules"]:
                eq = _equation(r)
                da, db = DIMS[r["a"]][0], DIMS[r["b"]][0]
                lines.append(f"    {da} {'<->' if r['bi'] else '->'} {db}: {eq}")
                v = parse_expr(eq)
                ka, kb = dname_key(R, da), dname_key(R, db)
                rules.append((ka, kb, v))
                if r["bi"]:
                    rules.append((kb, ka, v))
            if not c["rules"]:
                continue
            if c["default"] is not None and not any(r["form"] in ("pmul", "pdiv") for r in c["rules"]):
                continue
            build = case.get("build", "lines_to_base")
            if build == "api":
                # the same context through the Python API: Context() + add_transformation with the dimension names as written
                def mk():
                    o = pint.Context(name, aliases=((name + "a",) if c["alias"] else ()), defaults=({"p": c["default"]} if c["default"] is not None else None))
                    for r in c["rules"]:
                        da_, db_ = DIMS[r["a"]][0], DIMS[r["b"]][0]
                        o.add_transformation(da_, db_, _api_func(r, ureg))
                        if r["bi"]:
                            o.add_transformation(db_, da_, _api_func(r, ureg))
                    return o
                s, obj = attempt(mk)
            elif build == "lines_plain":
                s, obj = attempt(lambda: pint.Context.from_lines(lines, non_int_type=Fraction))
            else:
                s, obj = attempt(lambda: pint.Context.from_lines(lines, ureg.get_dimensionality, non_int_type=Fraction))
            if s == "err":
                raise Violation(f"valid_context_refused:{exc_class(obj)}", f"{lines}: {obj!r}")
            ureg.add_context(obj)
            objs.append(obj)
            uses_p = any(r["form"] in ("pmul", "pdiv") for r in c["rules"])
            stack.append({"act": obj if case["use_object"] else (name + "a" if c["alias"] else name), "rules": rules, "default": c["default"], "uses_p": uses_p})
        if not stack:
            raise Skip("empty_context_stack")
        kwargs = {"p": case["kw"]} if case["kw"] is not None else {}
        # parameter resolution: keyword > declared default.  (Inheritance from an enclosing context is asserted only in the unambiguous
        # case of a stack entered in ONE call, where every context receives the same keyword.)
        st_ = []
        for ent in stack:
            if ent["uses_p"]:
                if case["kw"] is not None:
                    pv = case["kw"]
                elif ent["default"] is not None:
                    pv = ent["default"]
                else:
                    raise Skip("parameter_without_value")
                if case["kw"] is None and case["how"] in ("nested", "decorator") and len([e for e in stack if e["default"] is not None]) > 0 and len(stack) > 1:
                    # nested activation: inner contexts inherit the enclosing context's defaults; with several declared defaults the
                    # statement does not fix the outcome
                    amb_param = True
            else:
                pv = None
            st_.append((ent["act"], ent["rules"], {"p": pv} if pv is not None else {}))
        if amb_param:
            if col is not None:
                col.count("skipped:ambiguous_parameter_inheritance")
            return
        if col is not None:
            edges = [set((a, b) for a, b, _ in rules) for _, rules, _ in st_]
            collision = any(edges[i] & edges[j] for i in range(len(edges)) for j in range(i + 1, len(edges)))
            col.case(("g", str(case)), True, sample={"contexts": [{"rules": [_equation(r) for r in c["rules"]], "default": c["default"]} for c in case["ctxs"]],
                                                    "x": case["x"], "src": case["src"], "dst": case["dst"], "how": case["how"], "kw": case["kw"]}, cls=case["how"])
            if collision:
                col.count("tie_or_collision")
        res = check_conversion(ureg, R, st_, Fraction(case["x"]), case["src"], case["dst"], case["how"], kwargs, tag=f"generated contexts {[c['name'] for c in case['ctxs']]}")
        if col is not None:
            col.count("result:" + res)
            if res == "multi":
                col.count("multi_hop")
        # compatibility predicate follows reachability
        with ureg.context(*[a for a, _, _ in st_], **kwargs):
            comp = ureg.Quantity(1, case["src"]).is_compatible_with(case["dst"])
        if comp != (res != "unreachable"):
            raise Violation("is_compatible_with_disagrees_with_reachability", f"{case['src']} -> {case['dst']}: {comp} vs {res}")
    finally:
        if ureg._active_ctx.contexts:
            ureg.disable_contexts()
        for obj in objs:
            try:
                ureg.remove_context(obj.name)
            except Exception:  # noqa: BLE001
                pass


def run_generated(task, tier, seed, col):
    hyp_search(col, _generated_strategy(), lambda c: case_generated(c, col), max_examples=500 if tier == "quick" else 8000, seed=seed * 191 + task["shard"])


# ------------------------------------------------------------------------------------- redefinitions

REDEFS = [("pound", "0.5 * kilogram", ["pound", "ounce", "stone", "ton", "grain"], "kilogram"),
          ("inch", "3 * centimeter", ["inch", "thou", "hand", "pica", "point"], "meter"),
          ("hour", "50 * minute", ["hour", "day", "week", "year"], "second"),
          ("liter", "2 * decimeter ** 3", ["liter"], "meter ** 3"),
          ("calorie", "4 * joule", ["calorie", "ton_TNT", "clausius"], None)]


def _override(R, name, expr):
    R2 = copy.copy(R)
    R2.units = dict(R.units)
    u = copy.copy(R.units[name])
    u.expr = parse_expr(expr)
    R2.units[name] = u
    R2._res = {}
    return R2


def case_redef(case, col=None):
    import pint

    R = env.R()
    ureg = env.ureg("Fraction")
    name, expr, deps, _ = REDEFS[case["redef"]]
    R2 = _override(R, name, expr)
    uid = next(_COUNTER)
    cname = f"rd_{uid}"
    lines = [f"@context{'(p=2)' if case['with_param'] else ''} {cname}", f"    {name} = {expr}"]
    if case["with_param"]:
        lines.append("    [length] -> [time]: value * p * second / meter")
    dep = deps[case["dep"] % len(deps)]
    x = Fraction(case["x"])
    how = case["how"]
    kwargs = {"p": Fraction(3)} if (case["with_param"] and case["kw"]) else {}
    outer = case["outer"]
    if col is not None:
        col.case(("r", name, dep, how, case["with_param"], case["kw"], outer, str(x)), dep != name or outer is not None,
                 sample={"lines": lines, "unit": dep, "how": how, "kwargs": kwargs, "outer": outer}, cls=how + (":kw" if kwargs else "") + (f":in_{outer}" if outer else ""))
    ctx = pint.Context.from_lines(lines, ureg.get_dimensionality, non_int_type=Fraction)
    ureg.add_context(ctx)
    try:
        r0, r1 = R.resolve(dep), R2.resolve(dep)
        root = ureg.Unit(ureg.UnitsContainer({k: v for k, v in r0.root.items()}))
        q = ureg.Quantity(x, dep)
        before = q.to(root).magnitude
        if Fraction(before) != x * r0.factor:
            raise Violation("redefinition_visible_before_activation", f"{dep}: {before!r}")

        def inside():
            if how == "with":
                with ureg.context(cname, **kwargs):
                    return ureg.Quantity(x, dep).to(root).magnitude, ureg.get_root_units(dep)[0], ureg.Quantity(x, dep).to_root_units().magnitude
            if how == "enable":
                ureg.enable_contexts(cname, **kwargs)
                try:
                    return ureg.Quantity(x, dep).to(root).magnitude, ureg.get_root_units(dep)[0], ureg.Quantity(x, dep).to_root_units().magnitude
                finally:
                    ureg.disable_contexts(1)
            if how == "to":
                m = ureg.Quantity(x, dep).to(root, cname, **kwargs).magnitude
                return m, None, None
            if how == "decorator":
                @ureg.with_context(cname, **kwargs)
                def f():
                    return ureg.Quantity(x, dep).to(root).magnitude, ureg.get_root_units(dep)[0], ureg.Quantity(x, dep).to_root_units().magnitude
                return f()
            raise ValueError(how)

        if outer:
            with ureg.context(outer):
                got = inside()
                # back in the outer context only: original definition
                mid = ureg.Quantity(x, dep).to(root).magnitude
                if Fraction(mid) != x * r0.factor:
                    raise Violation("redefinition_survives_leaving_inner_context", f"{dep} inside {outer} after leaving {cname}: {mid!r}")
        else:
            got = inside()
        want = x * r1.factor
        labels = ("to(root units)", "get_root_units factor", "to_root_units")
        wants = (want, r1.factor, want)
        for lab, g, w in zip(labels, got, wants):
            if g is None:
                continue
            if isinstance(g, float) or Fraction(g) != w:
                k = "dependent_unit" if dep != name else "redefined_unit"
                raise Violation(f"redefinition_not_applied:{k}:{how}{':kw' if kwargs else ''}{':nested' if outer else ''}",
                                f"{lab} of {x} {dep} inside {cname} ({how}, {kwargs}, outer={outer}) = {g!r}, expected {w} (original {x * r0.factor})")
        after = ureg.Quantity(x, dep).to(root).magnitude
        if Fraction(after) != x * r0.factor:
            raise Violation("redefinition_survives_deactivation", f"{dep} after leaving {cname}: {after!r}, original {x * r0.factor}")
        f_after = ureg.get_root_units(dep)[0]
        if Fraction(f_after) != r0.factor:
            raise Violation("redefinition_survives_deactivation:get_root_units", f"{dep}: {f_after!r}")
    finally:
        if ureg._active_ctx.contexts:
            ureg.disable_contexts()
        ureg.remove_context(cname)


def run_redef(task, tier, seed, col):
    strat = st.builds(lambda r, d, x, how, wp, kw, outer: {"redef": r, "dep": d, "x": x, "how": how, "with_param": wp, "kw": kw, "outer": outer},
                      st.integers(0, len(REDEFS) - 2), st.integers(0, 4), st.one_of(st.integers(1, 40), st.fractions(1, 9, max_denominator=7)),
                      st.sampled_from(["with", "enable", "to", "decorator"]), st.booleans(), st.booleans(), st.sampled_from([None, None, "sp", "boltzmann", "energy"]))
    hyp_search(col, strat, lambda c: case_redef(c, col), max_examples=200 if tier == "quick" else 3000, seed=seed * 193 + task["shard"])


# ------------------------------------------------------------------------------------- parameter resolution, parameter by parameter

_PARAM_REG = []


def _param_registry():
    import pint

    if not _PARAM_REG:
        ureg = env.fresh("Fraction")
        ureg.add_context(pint.Context.from_lines(["@context(p=5) pouter", "    [mass] -> [time]: value * p * second / kilogram"], non_int_type=Fraction))
        ureg.add_context(pint.Context.from_lines(["@context(p=2, q=3) pinner = pinn", "    [length] -> [time]: value * p * q * second / meter"], non_int_type=Fraction))
        # contexts that declare no parameter at all (a redefinition only; nothing): at the bottom of the stack they must not hide what the
        # contexts above them provide
        ureg.add_context(pint.Context.from_lines(["@context predef", "    furlong = 200 * meter"], non_int_type=Fraction))
        ureg.add_context(pint.Context("pempty"))
        _PARAM_REG.append(ureg)
    return _PARAM_REG[0]


def case_params(case, col=None):
    """each parameter on its own: keyword of the call, else the enclosing active context, else the declared default"""
    ureg = _param_registry()
    outer, how, kw = case["outer"], case["how"], {k: Fraction(v) for k, v in case["kw"].items()}
    if col is not None:
        col.case(("pa", str(case)), bool(kw) and outer != "off", sample=case, cls=f"{how}:{'+'.join(sorted(kw)) or 'none'}:{outer}")
    p_enclosing = None if outer == "off" else (Fraction(5) if outer == "default" else Fraction(outer))
    p_eff = kw.get("p", p_enclosing if p_enclosing is not None else Fraction(2))
    q_eff = kw.get("q", Fraction(3))
    want = p_eff * q_eff
    q = ureg.Quantity(Fraction(1), "meter")
    try:
        if case.get("bottom"):
            ureg.enable_contexts(case["bottom"])
        if outer != "off":
            ureg.enable_contexts("pouter", **({} if outer == "default" else {"p": Fraction(outer)}))
        if how == "to":
            s_, r = attempt(lambda: q.to("second", "pinner", **kw))
        elif how == "to_alias":
            s_, r = attempt(lambda: q.to("second", "pinn", **kw))
        elif how == "ito":
            def f():
                x = ureg.Quantity(Fraction(1), "meter")
                x.ito("second", "pinner", **kw)
                return x
            s_, r = attempt(f)
        elif how == "with":
            def f():
                with ureg.context("pinner", **kw):
                    return q.to("second")
            s_, r = attempt(f)
        else:
            def f():
                ureg.enable_contexts("pinner", **kw)
                try:
                    return q.to("second")
                finally:
                    ureg.disable_contexts(1)
            s_, r = attempt(f)
    finally:
        ureg.disable_contexts()
    if s_ == "err":
        raise Violation(f"parameter_resolution_raised:{exc_class(r)}", f"{case}: {r!r}")
    if Fraction(r.magnitude) != want:
        raise Violation(f"parameter_not_resolved_per_parameter:{how}", f"{case}: 1 m -> {r.magnitude} s, expected p*q = {p_eff}*{q_eff} = {want}")
    # the enclosing context still uses its own value
    if outer != "off":
        try:
            ureg.enable_contexts("pouter", **({} if outer == "default" else {"p": Fraction(outer)}))
            m = ureg.Quantity(Fraction(1), "kilogram").to("second").magnitude
        finally:
            ureg.disable_contexts()
        if Fraction(m) != p_enclosing:
            raise Violation("enclosing_context_parameter_changed", f"{case}: 1 kg -> {m} s, expected {p_enclosing}")


# physical anchors for the bundled contexts, written from the defining relations (lambda * nu = c / n, E = h nu, sigma = 1 / lambda, E = k T,
# E = m c^2, n = m / M): an error in the bundled rules is otherwise invisible to an oracle that reads the same rules
C_ = Fraction(299792458)
H_ = Fraction(662607015, 10 ** 42)
K_ = Fraction(1380649, 10 ** 29)
ANCHORS = [
    ("sp", {}, (500, "nanometer"), "terahertz", C_ / Fraction(500, 10 ** 9) / 10 ** 12),
    ("sp", {"n": Fraction(3, 2)}, (500, "nanometer"), "terahertz", C_ / Fraction(3, 2) / Fraction(500, 10 ** 9) / 10 ** 12),
    ("sp", {"n": Fraction(3, 2)}, (1000, "1/centimeter"), "micrometer", Fraction(10)),
    ("sp", {}, (1000, "1/centimeter"), "micrometer", Fraction(10)),
    ("sp", {"n": Fraction(3, 2)}, (10, "micrometer"), "1/centimeter", Fraction(1000)),
    ("sp", {}, (1, "terahertz"), "joule", H_ * 10 ** 12),
    ("sp", {"n": Fraction(2)}, (1, "terahertz"), "joule", H_ * 10 ** 12),
    ("sp", {"n": Fraction(2)}, (100, "1/centimeter"), "hertz", C_ / 2 * 10000),
    ("sp", {}, (100, "1/centimeter"), "hertz", C_ * 10000),
    ("boltzmann", {}, (300, "kelvin"), "joule", K_ * 300),
    ("energy", {}, (2, "gram"), "joule", Fraction(2, 1000) * C_ * C_),
]


def case_anchor(case, col=None):
    ureg = env.ureg("Fraction")
    name, kw, (x, ua), ub, want = ANCHORS[case["i"]]
    if col is not None:
        col.case(("an", case["i"], case["how"]), True, sample={"context": name, "kw": {k: str(v) for k, v in kw.items()}, "from": [x, ua], "to": ub}, cls=name)
    q = ureg.Quantity(Fraction(x), ua)
    if case["how"] == "to":
        s_, r = attempt(lambda: q.to(ub, name, **kw))
    else:
        def f():
            with ureg.context(name, **kw):
                return q.to(ub)
        s_, r = attempt(f)
    if s_ == "err":
        raise Violation(f"bundled_context_anchor_raised:{name}:{exc_class(r)}", f"Q({x},{ua}).to({ub}, {name}, {kw}): {r!r}")
    got = r.magnitude
    if abs(float(got) - float(want)) > 1e-12 * abs(float(want)):
        raise Violation(f"bundled_context_differs_from_physics:{name}", f"Q({x},{ua}).to({ub}) in {name} {kw} = {float(got)!r}, the defining relation gives {float(want)!r}")


def run_params(task, tier, seed, col):
    for i in range(len(ANCHORS)):
        for how in ("to", "with"):
            col.run_case(lambda c: case_anchor(c, col), {"i": i, "how": how})
    for outer in ("off", "default", 7):
        for how in ("to", "to_alias", "ito", "with", "enable"):
            for kw in ({}, {"p": 11}, {"q": 10}, {"p": 11, "q": 10}):
                for bottom in (None, "predef", "pempty"):
                    col.run_case(lambda c: case_params(c, col), {"outer": outer, "how": how, "kw": kw, "bottom": bottom})
    col.exhaustive = True


def run_task(task, tier, seed, col):
    if task["sub"] == "params":
        return run_params(task, tier, seed, col)
    {"bundled": run_bundled, "generated": run_generated, "redef": run_redef}[task["sub"]](task, tier, seed, col)


def replay(sub, case):
    if sub == "params" and "i" in case:
        return case_anchor(case)
    if sub == "params":
        return case_params(case)
    return {"bundled": case_bundled, "generated": case_generated, "redef": case_redef}[sub](case)
