"""C12 — context activation is scoped, stack-like, atomic and leaves no residue.

Oracle: a reference stack model interpreted next to the registry; after every operation a probe battery (conversions that exist only
inside a context, parameter-dependent values, redefined and dependent units, compatible-unit listings) is compared with what the
model's stack implies; with an empty model stack the battery must equal the one recorded before the first activation.
"""
from __future__ import annotations

import itertools
import logging
from fractions import Fraction

from hypothesis import strategies as st

from .. import env
from ..core import Collector, Skip, Violation, attempt, exc_class, hyp_search, khash

PROPERTY = "C12"
LEVEL = "exploration"
RULE = ("bfs: every operation sequence up to length 3 (quick; 4 thorough, length-4 seed-strided in quick) over the alphabet {enable(c[,p]), disable(n in 0,1,2,all), "
        "with-enter(c..), with-exit, raise-inside-with, activation-that-fails (4 kinds of invalid redefinition), define-new-unit} on a fresh tiny registry "
        "(exhaustive breadth-first), the battery checked after every step; random: Hypothesis sequences of up to 25 operations; shared: one Context "
        "object used by two registries and re-entered with different parameters is never modified. Non-trivial = a sequence containing a failing activation "
        "or an exception inside a with-block followed by a probe, or a re-entry of the same context combination; distinct = distinct sequence")
ASSUMPTIONS = ["the reference model is a plain list of (context, effective parameters); 'with' exits remove as many contexts as the block entered",
               "parameter inheritance from several enclosing contexts with different values is not asserted (under-specified)"]
MIN_COUNTS = {"quick": {"bfs": {"_evaluations": 1500, "with_failed_activation": 200, "with_exception_in_block": 100}, "random": {"_evaluations": 100}}}

LINES = """
@defaults
    group = international
    system = sysx
@end
xm = [xlen]
xs = [xtime]
xg = [xmass]
kila- = 1000
foo = 3 * xm
bar = 5 * foo
baz = 2 * xs
sp0 = 2 * foo
sp1 = 3 * foo
sp2 = 5 * foo
sp3 = 7 * foo
sp4 = 11 * foo
sp5 = 13 * foo
@context ca = caa
    [xlen] -> [xtime]: value * 2 * xs / xm
@end
@context(p=3) cb
    [xlen] -> [xtime]: value * p * xs / xm
    [xtime] -> [xmass]: value * 7 * xg / xs
@end
@context cr
    foo = 4 * xm
@end
@context(p=5) cm
    foo = 10 * xm
    [xlen] -> [xmass]: value * p * xg / xm
@end
@context bad_undefined
    nope = 2 * xm
@end
@context bad_dimension
    foo = 2 * xs
@end
@context bad_base
    xm = 2 * xs
@end
@context bad_prefixed
    kilafoo = 3 * xm
@end
@system sysx
    xm
@end
""".strip().splitlines()

CTX = {  # name: (rules {(a,b): (const, uses_p)}, foo redefinition or None, declared default p)
    "ca": ({("L", "T"): (Fraction(2), False)}, None, None),
    "cb": ({("L", "T"): (Fraction(1), True), ("T", "M"): (Fraction(7), False)}, None, Fraction(3)),
    "cr": ({}, Fraction(4), None),
    "cm": ({("L", "M"): (Fraction(1), True)}, Fraction(10), Fraction(5)),
}
BAD = ["bad_undefined", "bad_dimension", "bad_base", "bad_prefixed"]

OPS = ([("enable", c, None) for c in CTX] + [("enable", "cb", Fraction(11)), ("enable", "caa", None)] + [("disable", n) for n in (0, 1, 2, None)]
       + [("with", ("ca",), None), ("with", ("cr", "cb"), None), ("with", ("cm",), Fraction(2)), ("with", (), None), ("exit",), ("raise",)]
       + [("fail", b) for b in BAD] + [("failwith", "bad_undefined")] + [("define",)]
       # per-call contexts (Quantity.to / ito with a context name): scoped to the call, also when the conversion fails (ca has no path to mass)
       + [("call", "to", "xs"), ("call", "ito", "xs"), ("call", "to", "xg"), ("call", "ito", "xg")]
       # a rules-only context activated with a parameter value that cannot be hashed: refused while the active contexts redefine units (the
       # combination is keyed by its parameters), accepted otherwise; either way nothing may be left behind once it is gone again
       + [("trykw", "cb")])


def tasks(tier, seed):
    t = [{"sub": "bfs", "shard": i, "nshard": 12} for i in range(12)]
    t += [{"sub": "random", "shard": i} for i in range(3)]
    t += [{"sub": "shared", "shard": 0}]
    return t


def new_registry():
    import pint

    # on_redefinition='raise': activating a context switches the policy off while its redefinitions are applied; it must come back
    return pint.UnitRegistry(LINES, non_int_type=Fraction, on_redefinition="raise")


# ------------------------------------------------------------------------------------- model

class Model:
    def __init__(self):
        self.stack = []  # entries: {"name", "p"}  oldest first
        self.blocks = []  # sizes of entered with-blocks
        self.defined = False
        self.ambiguous = False

    def inherited_p(self):
        """'else from the enclosing active context': asserted only when every enclosing context carries the same value; with several
        enclosing contexts that differ (or of which some carry none) the statement does not say which one is meant"""
        vals = {e["p"] for e in self.stack}
        if len(vals) > 1:
            self.ambiguous = True
            return None
        return next(iter(vals)) if vals else None

    def push(self, names, kw):
        inh = self.inherited_p()
        for n in names:
            n = "ca" if n == "caa" else n
            p = kw if kw is not None else (inh if inh is not None else CTX[n][2])
            self.stack.append({"name": n, "p": p})

    def pop(self, n):
        if n is None:
            self.stack = []
        elif n > 0:
            self.stack = self.stack[: max(0, len(self.stack) - n)]
        if not self.stack:
            self.ambiguous = False

    def expect(self):
        """battery implied by the stack"""
        foo = Fraction(3)
        edges = {}
        for e in self.stack:
            rules, red, _ = CTX[e["name"]]
            if red is not None:
                foo = red
            for k, (c, uses) in rules.items():
                edges[k] = (c, e["p"] if uses else None, uses)
        out = {"foo->xm": foo, "bar->xm": 5 * foo, "kilafoo->xm": 1000 * foo}

        def hop(a, b):
            if (a, b) not in edges:
                return None
            c, p, uses = edges[(a, b)]
            if uses and (p is None or self.ambiguous):
                return "?"
            return c * (p if uses else 1)

        # xm -> xs : direct edge only ; xm -> xg : direct (cm) or two hops via T (cb); shortest chain wins
        lt = hop("L", "T")
        out["xm->xs"] = lt
        lm = hop("L", "M")
        if lm is not None:
            out["xm->xg"] = lm
        else:
            tm = hop("T", "M")
            if lt is None or tm is None:
                out["xm->xg"] = None
            elif lt == "?" or tm == "?":
                out["xm->xg"] = "?"
            else:
                out["xm->xg"] = lt * tm
        out["xs->xg"] = hop("T", "M")
        out["xs->xm"] = None
        out["active"] = len(self.stack)
        out["newu"] = "?" if self.defined == "?" else (Fraction(2) if self.defined else None)
        return out


def observe(ureg):
    import pint

    out = {}

    def conv(x, a, b):
        try:
            return Fraction(ureg.Quantity(x, a).to(b).magnitude)
        except pint.DimensionalityError:
            return None
        except pint.UndefinedUnitError:
            return None

    out["foo->xm"] = conv(1, "foo", "xm")
    out["bar->xm"] = Fraction(ureg.get_root_units("bar")[0])
    out["bar->xm:to_root"] = Fraction(ureg.Quantity(1, "bar").to_root_units().magnitude)
    out["bar->xm:base"] = Fraction(ureg.get_base_units("bar")[0])
    out["kilafoo->xm"] = conv(1, "kilafoo", "xm")
    out["xm->xs"] = conv(1, "xm", "xs")
    out["xm->xg"] = conv(1, "xm", "xg")
    out["xs->xg"] = conv(1, "xs", "xg")
    out["xs->xm"] = conv(1, "xs", "xm")
    out["foo->xs"] = conv(1, "foo", "xs")
    out["active"] = len(ureg._active_ctx.contexts)
    out["newu"] = conv(1, "newu", "xm")
    out["compatible(xm)"] = tuple(sorted(next(iter(u._units)) for u in ureg.get_compatible_units("xm")))
    s_, r_ = attempt(ureg.define, "baz = 2 * xs")  # the definition baz already has: refused under the registry's redefinition policy
    out["redefinition_policy"] = "raise" if s_ == "err" and type(r_).__name__ == "RedefinitionError" else f"{s_}:{type(r_).__name__}"
    return out


KNOWN_BASE = "state_differs_from_stack_model:redefinition:get_base_units"


def compare(obs, exp, base, where, skip=()):
    for k, want in exp.items():
        if want == "?":
            continue
        got = obs[k]
        if got != want:
            kind = "stack_size" if k == "active" else ("redefinition" if k in ("foo->xm", "bar->xm", "kilafoo->xm") else ("new_unit" if k == "newu" else "rule"))
            raise Violation(f"state_differs_from_stack_model:{kind}", f"{where}: {k} = {got}, the operations imply {want}")
    # derived observations
    if obs["bar->xm:to_root"] != exp["bar->xm"]:
        raise Violation("state_differs_from_stack_model:redefinition:to_root_units", f"{where}: Q(1,bar).to_root_units() = {obs['bar->xm:to_root']}, implied {exp['bar->xm']}")
    if obs["bar->xm:base"] != exp["bar->xm"] and KNOWN_BASE not in skip:
        raise Violation(KNOWN_BASE, f"{where}: get_base_units(bar) = {obs['bar->xm:base']}, implied {exp['bar->xm']}")
    if exp["xm->xs"] not in (None, "?") and obs["foo->xs"] != exp["xm->xs"] * exp["foo->xm"]:
        raise Violation("state_differs_from_stack_model:rule_after_redefinition", f"{where}: foo->xs = {obs['foo->xs']}, implied {exp['xm->xs'] * exp['foo->xm']}")
    if obs["redefinition_policy"] != "raise":
        raise Violation("redefinition_policy_changed", f"{where}: define() of an existing name under on_redefinition='raise' -> {obs['redefinition_policy']}")
    if exp["active"] == 0:
        for k, v in base.items():
            if k == "newu" or k.startswith("compatible") or (k == "bar->xm:base" and KNOWN_BASE in skip):
                continue
            if obs[k] != v:
                raise Violation("residue_after_leaving_all_contexts", f"{where}: {k} = {obs[k]}, before the first activation it was {v}")
        if exp["newu"] is None and obs["compatible(xm)"] != base["compatible(xm)"]:
            raise Violation("residue_after_leaving_all_contexts:compatible_units", f"{where}: {obs['compatible(xm)']} vs {base['compatible(xm)']}")


class Boom(Exception):
    pass


SPARE = [("sp0", 2), ("sp1", 3), ("sp2", 5), ("sp3", 7), ("sp4", 11), ("sp5", 13)]


def cold_probe(ureg, model, used, where):
    """a unit that nothing has asked about yet in this sequence (the battery warms every cache it touches, and a warm cache hides a lost units
    overlay): its value must follow the redefinitions in force according to the model"""
    if len(used) >= len(SPARE):
        return
    name, mult = SPARE[len(used)]
    used.append(name)
    got = Fraction(ureg.Quantity(1, name).to("xm").magnitude)
    want = mult * model.expect()["foo->xm"]
    if got != want:
        raise Violation("state_differs_from_stack_model:redefinition:unit_not_asked_before", f"{where}: first question about {name} (= {mult} foo): {got} xm, the operations imply {want}")


def run_sequence(ops, col=None):
    logging.disable(logging.CRITICAL)
    # a listed known finding is excluded by construction (the comparison it concerns is skipped and counted), so that the rest of every
    # sequence is still checked; without a collector (replay of a witness) nothing is skipped
    skip = tuple(col.known_classes) if col is not None else ()
    try:
        ureg = new_registry()
        model = Model()
        base = observe(ureg)
        compare(base, model.expect(), base, "fresh registry", skip)
        managers = []
        trace = []
        cold_used = []
        for op in ops:
            op = tuple(op)
            trace.append(op)
            where = f"after {trace}"
            kind = op[0]
            if kind == "enable":
                kw = {"p": op[2]} if op[2] is not None else {}
                ureg.enable_contexts(op[1], **kw)
                model.push([op[1]], op[2])
            elif kind == "disable":
                ureg.disable_contexts(op[1])
                model.pop(op[1])
            elif kind == "with":
                kw = {"p": op[2]} if op[2] is not None else {}
                cm = ureg.context(*op[1], **kw)
                cm.__enter__()
                managers.append((cm, len(op[1])))
                model.push(list(op[1]), op[2])
            elif kind in ("exit", "raise"):
                if not managers:
                    continue
                cm, n = managers.pop()
                if kind == "exit":
                    cm.__exit__(None, None, None)
                else:
                    try:
                        raise Boom()
                    except Boom as e:
                        swallowed = cm.__exit__(Boom, e, e.__traceback__)
                        if swallowed:
                            raise Violation("with_block_swallowed_exception", where)
                model.pop(n)
            elif kind in ("fail", "failwith"):
                before = observe(ureg)
                if kind == "fail":
                    s, r = attempt(ureg.enable_contexts, op[1])
                else:
                    def blk():
                        with ureg.context(op[1]):
                            return "entered"
                    s, r = attempt(blk)
                if s == "ok":
                    raise Violation(f"invalid_activation_accepted:{op[1]}", f"{where}: activating {op[1]} did not raise")
                after = observe(ureg)
                if KNOWN_BASE in skip:
                    before.pop("bar->xm:base", None)
                    after.pop("bar->xm:base", None)
                if model.defined == "?":
                    # see 'define': the fate of a unit defined inside a redefining context is C13's clause
                    before = {k: v for k, v in before.items() if k != "newu" and not k.startswith("compatible")}
                    after = {k: v for k, v in after.items() if k in before}
                if after != before:
                    diff = {k: (before[k], after[k]) for k in before if before[k] != after[k]}
                    raise Violation(f"failed_activation_changed_state:{'with' if kind == 'failwith' else 'enable'}", f"{where}: activation of {op[1]} raised {type(r).__name__} but changed {diff}")
                cold_probe(ureg, model, cold_used, where)
            elif kind == "trykw":
                before = observe(ureg)
                s, r = attempt(ureg.enable_contexts, op[1], p=[1, 2])
                if s == "ok":
                    ureg.disable_contexts(1)
                after = observe(ureg)
                if model.defined == "?":
                    before = {k: v for k, v in before.items() if k != "newu" and not k.startswith("compatible")}
                    after = {k: v for k, v in after.items() if k in before}
                if KNOWN_BASE in skip:
                    before.pop("bar->xm:base", None)
                    after.pop("bar->xm:base", None)
                if after != before:
                    diff = {k: (before[k], after[k]) for k in before if before[k] != after[k]}
                    raise Violation(f"failed_activation_changed_state:unhashable_parameter:{'accepted' if s == 'ok' else 'refused'}", f"{where}: enable_contexts({op[1]!r}, p=[1, 2]) {'was accepted and disabled again' if s == 'ok' else 'raised ' + type(r).__name__} but changed {diff}")
                cold_probe(ureg, model, cold_used, where)
            elif kind == "call":
                before = observe(ureg)
                q = ureg.Quantity(1, "xm")
                s, r = attempt(q.to if op[1] == "to" else q.ito, op[2], "ca")
                reachable = op[2] == "xs" or before["xm->xg"] is not None or (before["xs->xg"] is not None)
                if not reachable and s == "ok":
                    raise Violation("per_call_context_converted_without_rule", f"{where}: Q(1,xm).{op[1]}({op[2]!r}, 'ca') returned {r!r}")
                if op[2] == "xs" and s == "err":
                    raise Violation(f"per_call_context_refused:{exc_class(r)}", f"{where}: Q(1,xm).{op[1]}('xs', 'ca') raised {r!r}")
                after = observe(ureg)
                if model.defined == "?":
                    before = {k: v for k, v in before.items() if k != "newu" and not k.startswith("compatible")}
                    after = {k: v for k, v in after.items() if k in before}
                if after != before:
                    diff = {k: (before[k], after[k]) for k in before if before[k] != after[k]}
                    raise Violation(f"per_call_context_left_residue:{op[1]}:{'ok' if s == 'ok' else 'failed'}", f"{where}: Q(1,xm).{op[1]}({op[2]!r}, 'ca') changed {diff}")
            elif kind == "define":
                if not model.defined:
                    ureg.define("newu = 2 * xm")
                    model.defined = True
                    # a unit defined while a redefining context is active lives in that context's overlay: whether it should outlive the
                    # context is C13's question (history independence), not C12's
                    if any(CTX[e["name"]][1] is not None for e in model.stack):
                        model.defined = "?"
            o = observe(ureg)
            if col is not None and KNOWN_BASE in skip and o["bar->xm:base"] != model.expect()["bar->xm"]:
                col.excluded += 1
            compare(o, model.expect(), base, where, skip)
        # leave everything: unwinding the blocks and disabling the rest restores the initial answers
        while managers:
            cm, n = managers.pop()
            cm.__exit__(None, None, None)
            model.pop(n)
        ureg.disable_contexts()
        model.pop(None)
        compare(observe(ureg), model.expect(), base, f"after {trace} + unwinding", skip)
    finally:
        logging.disable(logging.NOTSET)


def case_seq(case, col=None):
    ops = case["ops"]
    if col is not None:
        kinds = {o[0] for o in ops}
        col.case(("s", str(ops)), bool(kinds & {"fail", "failwith", "raise"}) or len(ops) != len({str(o) for o in ops}), sample={"ops": [list(map(str, o)) for o in ops]},
                 cls="with_failed_activation" if kinds & {"fail", "failwith"} else ("with_exception_in_block" if "raise" in kinds else "plain"))
        if "raise" in kinds:
            col.count("with_exception_in_block")
    run_sequence(ops, col)


def run_bfs(task, tier, seed, col):
    maxlen = 3 if tier == "quick" else 4
    k = 0
    for n in range(1, maxlen + 1):
        for ops in itertools.product(OPS, repeat=n):
            k += 1
            if k % task["nshard"] != task["shard"]:
                continue
            col.run_case(lambda c: case_seq(c, col), {"ops": [list(o) for o in ops]})
    if tier == "quick":
        for ops in itertools.product(OPS, repeat=4):
            k += 1
            if k % task["nshard"] != task["shard"] or khash((str(ops), seed)) % 400:
                continue
            col.run_case(lambda c: case_seq(c, col), {"ops": [list(o) for o in ops]})
    col.exhaustive = True
    col.notes.append(f"all sequences up to length {maxlen} over {len(OPS)} operations")


def run_random(task, tier, seed, col):
    strat = st.lists(st.sampled_from(OPS), min_size=5, max_size=25).map(lambda ops: {"ops": [list(o) for o in ops]})
    hyp_search(col, strat, lambda c: case_seq(c, col), max_examples=120 if tier == "quick" else 3000, seed=seed * 197 + task["shard"], shrink_budget_s=60)


# ------------------------------------------------------------------------------------- shared Context objects are never modified

def ctx_snapshot(ctx):
    return (ctx.name, tuple(ctx.aliases), tuple(sorted((k, str(v)) for k, v in ctx.defaults.items())), len(ctx.funcs), tuple(str(r) for r in ctx.redefinitions))


def case_shared(case, col=None):
    import pint

    logging.disable(logging.CRITICAL)
    try:
        a, b = new_registry(), new_registry()
        ctx = pint.Context.from_lines(["@context(p=3) shared", "    [xlen] -> [xtime]: value * p * xs / xm", "    foo = 6 * xm"], a.get_dimensionality, non_int_type=Fraction)
        a.add_context(ctx)
        b.add_context(ctx)
        a.enable_contexts("shared")  # first activation may re-key derived dimensions: snapshot afterwards
        a.disable_contexts()
        snap = ctx_snapshot(ctx)
        if col is not None:
            col.case(("sh", str(case["ops"])), True, sample=case, cls="shared")
        for reg_i, p in case["ops"]:
            reg = (a, b)[reg_i]
            kw = {"p": Fraction(p)} if p else {}
            with reg.context("shared", **kw):
                got = Fraction(reg.Quantity(1, "xm").to("xs").magnitude)
                want = Fraction(p) if p else Fraction(3)
                if got != want:
                    raise Violation("shared_context_parameter_leak", f"registry {reg_i}, p={p}: xm->xs = {got}, expected {want}")
                if Fraction(reg.Quantity(1, "foo").to("xm").magnitude) != 6:
                    raise Violation("shared_context_redefinition_missing", f"registry {reg_i}")
                other = (b, a)[reg_i]
                if Fraction(other.Quantity(1, "foo").to("xm").magnitude) != 3 or other._active_ctx.contexts:
                    raise Violation("shared_context_leaks_into_other_registry", f"registry {1 - reg_i} sees the activation made in registry {reg_i}")
            if ctx_snapshot(ctx) != snap:
                raise Violation("context_object_modified_by_activation", f"{snap} -> {ctx_snapshot(ctx)}")
    finally:
        logging.disable(logging.NOTSET)


def case_samename(case, col=None):
    """Context objects come and go: the same name given to another object, an anonymous context passed as an object, a context that gains a
    redefinition between two activations.  Inside each activation the registry shows that object's redefinition; outside, none."""
    import pint

    logging.disable(logging.CRITICAL)
    try:
        ureg = new_registry()
        base = observe(ureg)
        if col is not None:
            col.case(("sn", str(case)), True, sample=case, cls="context_objects")
        live = None
        for step in case["steps"]:
            kind, c = step[0], Fraction(step[1])
            if kind in ("named", "anonymous"):
                if live is not None and kind == "named":
                    ureg.remove_context("same")
                ctx = pint.Context("same" if kind == "named" else None)
                ctx.redefine(f"foo = {c.numerator}/{c.denominator} * xm")
                if kind == "named":
                    ureg.add_context(ctx)
                    live = ctx
                act = "same" if kind == "named" else ctx
            else:  # 'extend': the live named context gets another redefinition of the same unit
                if live is None:
                    continue
                live.redefine(f"foo = {c.numerator}/{c.denominator} * xm")
                act = "same"
            with ureg.context(act):
                o = observe(ureg)
                for k, want in (("foo->xm", c), ("bar->xm", 5 * c), ("bar->xm:to_root", 5 * c), ("bar->xm:base", 5 * c), ("kilafoo->xm", 1000 * c)):
                    if o[k] != want:
                        raise Violation(f"context_object_state_mixed_up:{kind}:{k.split(':')[-1] if ':' in k else 'conversion'}", f"steps {case['steps']}: inside the {kind} context with foo = {c} xm, {k} = {o[k]}, expected {want}")
            o = observe(ureg)
            for k in ("foo->xm", "bar->xm", "bar->xm:to_root", "bar->xm:base", "kilafoo->xm", "active"):
                if o[k] != base[k]:
                    raise Violation("residue_after_leaving_all_contexts:context_objects", f"steps {case['steps']}: after leaving, {k} = {o[k]}, initially {base[k]}")
    finally:
        logging.disable(logging.NOTSET)


PARSE_LINES = ["xk = [xtemp]", "xs = [xtime]", "xm = [xlen]", "tX = 2 * xk; offset: 10", "@context cmult", "    tX = 4 * xk", "@end", "@context coff", "    tX = 8 * xk; offset: 3", "@end"]


def case_parse_scope(case, col=None):
    """how a compound unit string is read depends on the definitions in force (an offset unit inside a compound expression is read as its delta
    counterpart, a unit that a context makes multiplicative is not): entering and leaving the contexts changes the reading and the value back and
    forth, whatever was parsed before"""
    import pint

    ureg = pint.UnitRegistry(list(PARSE_LINES), non_int_type=Fraction)
    stack = []
    if col is not None:
        col.case(("ps", str(case["ops"])), any(o[0] == "enter" for o in case["ops"]) and any(o[0] == "ask" for o in case["ops"]), sample=case, cls="parse_scope")
    try:
        for op in case["ops"]:
            if op[0] == "enter":
                ureg.enable_contexts(op[1])
                stack.append(op[1])
            elif op[0] == "leave":
                if stack:
                    ureg.disable_contexts(1)
                    stack.pop()
            else:
                text = ("tX / xs", "xm * tX", "tX ** 2")[op[1]]
                top = stack[-1] if stack else None
                mult = top == "cmult"
                want_name = "tX" if mult else "delta_tX"
                scale = {None: 2, "cmult": 4, "coff": 8}[top]
                s_, u = attempt(ureg.parse_units, text)
                if s_ == "err":
                    raise Violation(f"parse_in_context_raised:{exc_class(u)}", f"after {case['ops']}: parse_units({text!r}) raised {u!r}")
                if want_name not in dict(u._units) or ("tX" if want_name != "tX" else "delta_tX") in dict(u._units):
                    raise Violation("reading_of_unit_string_not_scoped", f"after {case['ops']} (active: {stack}): parse_units({text!r}) = {dict(u._units)}, expected the offset unit read as {want_name!r}")
                e = dict(u._units)[want_name]
                tgt = {"tX / xs": "xk / xs", "xm * tX": "xm * xk", "tX ** 2": "xk ** 2"}[text]
                s2, v = attempt(lambda: ureg.Quantity(1, text).to(tgt).magnitude)
                if s2 == "err" or Fraction(v) != Fraction(scale) ** int(e):
                    raise Violation("value_of_unit_string_not_scoped", f"after {case['ops']} (active: {stack}): Q(1,{text!r}).to({tgt!r}) -> {v!r}, expected {Fraction(scale) ** int(e)}")
    finally:
        ureg.disable_contexts()


def case_unresolvable_endpoint(case, col=None):
    """a Context object whose rule names a unit the registry does not know cannot be activated - not the first time, not the second; nothing is left
    behind, and the same object still works in a registry that knows the unit"""
    import pint

    if col is not None:
        col.case(("ue", case["form"]), True, sample=case, cls="unresolvable_endpoint")
    a = pint.UnitRegistry(["xm = [xlen]", "xs = [xtime]"], non_int_type=Fraction)
    b = pint.UnitRegistry(["xm = [xlen]", "xs = [xtime]", "smoot = 17 * xm"], non_int_type=Fraction)
    ctx = pint.Context("cshared")
    src = {"name": "smoot", "unit": b.Unit("smoot"), "dict": {"smoot": 1}}[case["form"]]
    ctx.add_transformation(src, "[xtime]", lambda ureg, x: x * ureg.Quantity(3, "xs / xm"))
    for attempt_no in (1, 2, 3):
        s_, r_ = attempt(a.enable_contexts, ctx)
        if s_ == "ok":
            a.disable_contexts()
            raise Violation("invalid_activation_accepted:unresolvable_rule_endpoint", f"attempt {attempt_no}: a registry that does not define 'smoot' activated a context whose rule starts from it ({case['form']})")
        if a._active_ctx.contexts:
            raise Violation("failed_activation_changed_state:unresolvable_rule_endpoint", f"attempt {attempt_no}: raised {type(r_).__name__} but the context is on the stack")
    s2, v = attempt(lambda: b.Quantity(2, "smoot").to("xs", ctx).magnitude)
    if s2 == "err" or Fraction(v) != 2 * 17 * 3:
        raise Violation("shared_context_unusable_after_failed_activation_elsewhere", f"the registry that defines smoot: Q(2,'smoot').to('xs', ctx) -> {v!r}, expected 102")


def case_first_activation(case, col=None):
    """the first activation of a Context object answers like every later one - also when its rules are written with derived dimensions, unit names or
    Unit objects (rewritten to base dimensions on first use) and the activation carries a parameter, explicitly or handed down by an enclosing context"""
    import pint

    if col is not None:
        col.case(("fa", case["endpoint"], case["how"]), True, sample=case, cls="first_activation")
    ureg = pint.UnitRegistry(["xm = [xlen]", "xs = [xtime]", "[xspeed] = [xlen] / [xtime]", "spd = 2 * xm / xs", "@context(p=5) outerp", "    [xtime] -> [xlen]: value * p * xm / xs", "@end"], non_int_type=Fraction)
    ctx = pint.Context("cder", defaults={"p": 3})
    src = {"dimension": "[xspeed]", "name": "spd", "unit": ureg.Unit("spd"), "base": ureg.UnitsContainer({"[xlen]": 1, "[xtime]": -1})}[case["endpoint"]]
    ctx.add_transformation(src, "[xtime]", lambda ureg_, x, p=3: x * p * ureg_.Quantity(1, "xs ** 2 / xm"))
    ureg.add_context(ctx)
    want = {"kw": 7, "default": 3, "inherited": 11}[case["how"]] * 2 * 4  # 4 spd = 8 xm/xs
    answers = []
    for _ in range(3):
        if case["how"] == "kw":
            s_, v = attempt(lambda: ureg.Quantity(4, "spd").to("xs", "cder", p=7).magnitude)
        elif case["how"] == "default":
            s_, v = attempt(lambda: ureg.Quantity(4, "spd").to("xs", "cder").magnitude)
        else:
            def f():
                with ureg.context("outerp", p=11):
                    with ureg.context("cder"):
                        return ureg.Quantity(4, "spd").to("xs").magnitude
            s_, v = attempt(f)
        answers.append((s_, v if s_ == "ok" else type(v).__name__))
        if ureg._active_ctx.contexts:
            ureg.disable_contexts()
            raise Violation("per_call_context_left_residue:first_activation", f"{case}: contexts still active after the call")
    if any(a != ("ok", want) for a in answers):
        raise Violation("activation_answers_differ_between_first_and_later_use", f"{case}: three identical activations gave {answers}, expected {want} each time")


def run_shared(task, tier, seed, col):
    import itertools

    for endpoint in ("dimension", "name", "unit", "base"):
        for how in ("kw", "default", "inherited"):
            col.run_case(lambda c: case_first_activation(c, col), {"endpoint": endpoint, "how": how})

    alphabet = [("enter", "cmult"), ("enter", "coff"), ("leave",), ("ask", 0), ("ask", 1), ("ask", 2)]
    for n in (2, 3, 4):
        for i_, ops in enumerate(itertools.product(alphabet, repeat=n)):
            if sum(1 for o in ops if o[0] == "ask") and (n < 4 or i_ % 3 == seed % 3 or tier == "thorough"):
                col.run_case(lambda c: case_parse_scope(c, col), {"ops": [list(o) for o in ops]})
    for form in ("name", "unit", "dict"):
        col.run_case(lambda c: case_unresolvable_endpoint(c, col), {"form": form})
    sstrat = st.lists(st.tuples(st.sampled_from(["named", "named", "anonymous", "extend"]), st.sampled_from([4, 10, 6, 7])), min_size=2, max_size=5).map(lambda st_: {"steps": [list(x) for x in st_]})
    hyp_search(col, sstrat, lambda c: case_samename(c, col), max_examples=60 if tier == "quick" else 1000, seed=seed * 197)
    strat = st.lists(st.tuples(st.integers(0, 1), st.sampled_from([0, 2, 7, 0])), min_size=1, max_size=6).map(lambda ops: {"ops": [list(o) for o in ops]})
    hyp_search(col, strat, lambda c: case_shared(c, col), max_examples=80 if tier == "quick" else 1500, seed=seed * 199)


def run_task(task, tier, seed, col):
    {"bfs": run_bfs, "random": run_random, "shared": run_shared}[task["sub"]](task, tier, seed, col)


def replay(sub, case):
    if sub == "shared" and "steps" in case:
        return case_samename(case)
    if sub == "shared" and "form" in case:
        return case_unresolvable_endpoint(case)
    if sub == "shared" and "endpoint" in case:
        return case_first_activation(case)
    if sub == "shared" and case.get("ops") and isinstance(case["ops"][0][0], str):
        return case_parse_scope(case)
    if sub == "shared":
        return case_shared(case)
    return case_seq(case)
