"""C01 — conversion succeeds exactly between units of identical dimensionality.

Oracle: base-dimension vectors computed by R (vf/oracle/defreader.py) from the definition files;
nothing of pint's parser/registry takes part in the expected answer.
"""
from __future__ import annotations

import itertools
from fractions import Fraction

from hypothesis import strategies as st

from .. import env
from ..core import Collector, Violation, attempt, exc_class, hyp_search, khash, shard

PROPERTY = "C01"
LEVEL = "exploration"
RULE = ("pairs: every ordered pair of the multiplicative canonical units read by R (exhaustive), each converted with "
        "ureg.convert and, on a seed-chosen stride, through Quantity.to/ito/m_as and every compatibility predicate; "
        "spellings: pairs re-asked with alias/symbol/prefixed/plural spellings; compound: Hypothesis compound units "
        "(1-4 factors, integer and rational exponents) drawn same-dimension-by-construction or independent, plus closure "
        "laws; configs: Fraction/Decimal registries, case_sensitive=False, auto_reduce_dimensions. Non-trivial = a != b and "
        "(same dimension under different names, or different dimension sharing a base dimension, or a []-dimension unit); "
        "distinct = distinct (sub-check, unit pair/compound pair)")
ASSUMPTIONS = [
    "R (independent definition reader) reads default_en.txt/constants_en.txt correctly; validated unit-by-unit against the unchanged tree",
    "offset/log units are C06's; units added with define() after construction are C13's",
]
NSHARD = 16

MIN_COUNTS = {
    "quick": {"pairs": {"same_dim_distinct": 5000, "diff_dim": 100000, "stride_full": 1000},
              "compound": {"same": 100, "diff": 100}},
    "thorough": {"pairs": {"same_dim_distinct": 5000, "diff_dim": 100000}},
}


def tasks(tier, seed):
    t = [{"sub": "pairs", "shard": i, "cfg": "float"} for i in range(NSHARD)]
    t += [{"sub": "units", "shard": i} for i in range(4)]
    t += [{"sub": "spellings", "shard": i} for i in range(4 if tier == "quick" else 16)]
    t += [{"sub": "compound", "shard": i, "nit": nit} for i, nit in enumerate(["Fraction", "float", "Fraction", "float"])]
    cfgs = ["Fraction", "Decimal", "casei", "autoreduce"]
    for c in cfgs:
        n = 2 if tier == "quick" else 8
        t += [{"sub": "pairs_cfg", "shard": i, "nshard": n, "cfg": c} for i in range(n)]
    t += [{"sub": "listing", "shard": 0}, {"sub": "listing_xcache", "shard": 0}]
    t += [{"sub": "autoreduce", "shard": i} for i in range(2)]
    t += [{"sub": "generated", "shard": i} for i in range(2)]
    t += [{"sub": "checkdeco", "shard": i} for i in range(2)]
    return t


# ------------------------------------------------------------------------------------- helpers

def _dimkey(d):
    return tuple(sorted(d.items()))


def _registry(cfg):
    if cfg == "float":
        return env.ureg("float")
    if cfg == "Fraction":
        return env.ureg("Fraction")
    if cfg == "Decimal":
        return env.ureg("Decimal")
    if cfg == "casei":
        return env.ureg("float", case_sensitive=False)
    if cfg == "autoreduce":
        return env.ureg("float", auto_reduce_dimensions=True)
    raise ValueError(cfg)


def _is_number(x):
    import numbers

    return isinstance(x, numbers.Number)


def _nontrivial(R, a, b):
    if a == b:
        return False
    da, db = R.resolve(a).dim, R.resolve(b).dim
    if da == db:
        return R.resolve(a).root != R.resolve(b).root or True
    return bool(set(da) & set(db)) or not da or not db


def check_convert(ureg, a, b, same, tag="convert"):
    """ureg.convert(1, a, b) returns a number iff `same`, else raises DimensionalityError."""
    import pint

    st_, val = attempt(ureg.convert, 1, a, b)
    if same:
        if st_ == "err":
            raise Violation(f"{tag}:refused_same_dimension:{exc_class(val)}",
                            f"convert(1,{a!r},{b!r}) raised {type(val).__name__}: {val} although R says same dimension")
        if not _is_number(val):
            raise Violation(f"{tag}:not_a_number", f"convert(1,{a!r},{b!r}) returned {type(val).__name__}")
    else:
        if st_ == "ok":
            raise Violation(f"{tag}:accepted_different_dimension",
                            f"convert(1,{a!r},{b!r}) returned {val!r} although R says the dimensions differ")
        if not isinstance(val, pint.DimensionalityError):
            raise Violation(f"{tag}:wrong_exception:{exc_class(val)}",
                            f"convert(1,{a!r},{b!r}) raised {type(val).__name__}: {val} instead of DimensionalityError")


def check_all_points(ureg, a, b, same):
    """Every observation point of the statement must agree with the oracle.  a, b: unit strings
    or UnitsContainers."""
    import pint

    Q = ureg.Quantity
    qa, qb = Q(1, a), Q(1, b)
    ua, ub = qa.units, qb.units

    def expect(tag, fn, *args):
        s, v = attempt(fn, *args)
        if same:
            if s == "err":
                raise Violation(f"{tag}:refused_same_dimension:{exc_class(v)}", f"{tag}({a!r},{b!r}) raised {type(v).__name__}: {v}")
        else:
            if s == "ok":
                raise Violation(f"{tag}:accepted_different_dimension", f"{tag}({a!r},{b!r}) returned a value")
            if not isinstance(v, pint.DimensionalityError):
                raise Violation(f"{tag}:wrong_exception:{exc_class(v)}", f"{tag}({a!r},{b!r}) raised {type(v).__name__}: {v}")
        return v

    r = expect("Quantity.to", qa.to, b)
    if same and not isinstance(r, Q):
        raise Violation("Quantity.to:not_a_quantity", f"{type(r).__name__}")
    if same and r.units != ub:
        raise Violation("Quantity.to:wrong_units", f"to({b!r}) gave units {dict(r._units)!r}")
    expect("Quantity.m_as", qa.m_as, b)
    qc = Q(1, a)
    expect("Quantity.ito", qc.ito, b)
    if same and qc.units != ub:
        raise Violation("Quantity.ito:wrong_units", f"ito({b!r}) left units {dict(qc._units)!r}")
    if not same and (qc.units != ua or qc.magnitude != 1):
        raise Violation("Quantity.ito:modified_on_failure", f"ito({b!r}) failed but changed the quantity")
    expect("Quantity.to(Unit)", qa.to, ub)

    preds = [
        ("Quantity.is_compatible_with(Quantity)", lambda: qa.is_compatible_with(qb)),
        ("Quantity.is_compatible_with(Unit)", lambda: qa.is_compatible_with(ub)),
        ("Unit.is_compatible_with(Unit)", lambda: ua.is_compatible_with(ub)),
        ("Unit.is_compatible_with(Quantity)", lambda: ua.is_compatible_with(qb)),
        ("ureg.is_compatible_with(Quantity,Unit)", lambda: ureg.is_compatible_with(qa, ub)),
        ("dimensionality ==", lambda: qa.dimensionality == qb.dimensionality),
        ("Quantity.check(dimensionality)", lambda: qa.check(qb.dimensionality)),
    ]
    if isinstance(a, str) and isinstance(b, str):
        preds += [
            ("Quantity.is_compatible_with(str)", lambda: qa.is_compatible_with(b)),
            ("Unit.is_compatible_with(str)", lambda: ua.is_compatible_with(b)),
            ("ureg.is_compatible_with(str,str)", lambda: ureg.is_compatible_with(a, b)),
            ("ureg.is_compatible_with(str,Unit)", lambda: ureg.is_compatible_with(a, ub)),
        ]
    if isinstance(a, str) and isinstance(b, str):
        # the same unit held by an object of another registry (a second registry, or what unpickling hands back): the predicate still
        # says what a conversion to it does
        other = _foreign_registry()
        s_f, fub = attempt(other.Unit, b)
        same_meaning = s_f == "ok" and attempt(lambda: repr(other.get_root_units(b)) == repr(ureg.get_root_units(b)) and repr(other.get_root_units(a)) == repr(ureg.get_root_units(a))) == ("ok", True)
        if same_meaning and attempt(qa.to, fub)[0] == ("ok" if same else "err"):  # (only where both registries mean the same by the two names)
            fqb = other.Quantity(1, b)
            preds += [("Quantity.is_compatible_with(Unit of another registry)", lambda: qa.is_compatible_with(fub)), ("Quantity.is_compatible_with(Quantity of another registry)", lambda: qa.is_compatible_with(fqb)),
                      ("Unit.is_compatible_with(Unit of another registry)", lambda: ua.is_compatible_with(fub)), ("ureg.is_compatible_with(Quantity, Unit of another registry)", lambda: ureg.is_compatible_with(qa, fub))]
    for tag, fn in preds:
        s, v = attempt(fn)
        if s == "err":
            raise Violation(f"predicate_raised:{tag}:{exc_class(v)}", f"{tag} on ({a!r},{b!r}) raised {type(v).__name__}: {v}")
        if bool(v) != same:
            raise Violation(f"predicate_disagrees:{tag}", f"{tag} on ({a!r},{b!r}) is {v!r}, R says same_dimension={same}")

    # the ureg.check decorator: raises DimensionalityError exactly when the dimension differs
    dim_b = qb.dimensionality
    f = ureg.check(dim_b)(lambda x: 42)
    s, v = attempt(f, qa)
    if same and (s == "err" or v != 42):
        raise Violation("ureg.check:refused_same_dimension", f"check({dict(dim_b)!r}) refused {a!r}: {v!r}")
    if not same and (s == "ok" or not isinstance(v, pint.DimensionalityError)):
        raise Violation("ureg.check:accepted_different_dimension", f"check({dict(dim_b)!r}) accepted {a!r}: {v!r}")


_FOREIGN = []


def _foreign_registry():
    import pint

    if not _FOREIGN:
        _FOREIGN.append(pint.UnitRegistry())
    return _FOREIGN[0]


# ------------------------------------------------------------------------------------- sub-checks

def case_pair(case):
    """case = {cfg, a, b, full}"""
    R = env.R()
    ureg = _registry(case["cfg"])
    a, b = case["a"], case["b"]
    ra, rb = R.resolve_compound({a: 1}), R.resolve_compound({b: 1})
    same = ra[2] == rb[2]
    if case["cfg"] == "casei" and case.get("fold"):
        a2, b2 = a, b
    check_convert(ureg, a, b, same)
    if case.get("full"):
        check_all_points(ureg, a, b, same)


def run_pairs(task, tier, seed, col: Collector, cfg="float", nshard=NSHARD, stride_full=23, sub_stride=1):
    R = env.R()
    names = env.unit_names("mult")
    mine = shard(names, task["shard"], nshard)
    dims = {n: R.resolve(n).dim for n in names}
    roots = {n: R.resolve(n).root for n in names}
    n_done = 0
    for a in mine:
        da = dims[a]
        for b in names:
            h = khash((a, b, seed))
            if sub_stride > 1 and h % sub_stride:
                continue
            full = (h // 7) % stride_full == 0
            db = dims[b]
            same = da == db
            if a == b:
                nt, cls = False, "identical"
            elif same:
                nt, cls = True, "same_dim_distinct"
            else:
                nt = bool(set(da) & set(db)) or not da or not db
                cls = "diff_dim"
            col.case((cfg, a, b), nt, sample={"cfg": cfg, "a": a, "b": b, "same_dimension": same, "all_points": full}, cls=cls)
            if full:
                col.count("stride_full")
            if same and a != b and roots[a] != roots[b]:
                col.count("same_dim_different_root_units")
            col.run_case(case_pair, {"cfg": cfg, "a": a, "b": b, "full": full})
    col.exhaustive = sub_stride == 1


def case_unit(case):
    """dimensionality of one unit, Quantity.check against every derived dimension name of R."""
    R = env.R()
    ureg = env.ureg("float")
    n = case["u"]
    r = R.resolve(n)
    got = env.uc_to_dict(ureg.get_dimensionality(n))
    if got != r.dim:
        raise Violation("get_dimensionality_differs_from_R", f"{n}: pint {got}, R {r.dim}")
    q = ureg.Quantity(1, n)
    got = env.uc_to_dict(q.dimensionality)
    if got != r.dim:
        raise Violation("Quantity.dimensionality_differs_from_R", f"{n}: pint {got}, R {r.dim}")
    got = env.uc_to_dict(ureg.Unit(n).dimensionality)
    if got != r.dim:
        raise Violation("Unit.dimensionality_differs_from_R", f"{n}: pint {got}, R {r.dim}")
    for dname, dexpr in R.dimensions.items():
        want = R.dim_of_dimexpr(dexpr) == r.dim
        s, v = attempt(q.check, dname)
        if s == "err":
            raise Violation(f"Quantity.check_raised:{exc_class(v)}", f"Q(1,{n!r}).check({dname!r}) raised {v!r}")
        if bool(v) != want:
            raise Violation("Quantity.check(dimension name)_disagrees", f"Q(1,{n!r}).check({dname!r}) is {v}, R says {want}")
    for dname in R.base_dims:
        if dname == "[]":
            continue
        want = r.dim == {dname: Fraction(1)}
        if bool(q.check(dname)) != want:
            raise Violation("Quantity.check(base dimension)_disagrees", f"Q(1,{n!r}).check({dname!r}) != {want}")
    # a bare number is compatible with exactly the dimensionless units (radian, count, bit, percent, ... included), from either entry point
    for tag, fn in (("Quantity.is_compatible_with(number)", lambda: q.is_compatible_with(2)), ("ureg.is_compatible_with(q, number)", lambda: ureg.is_compatible_with(q, 2)),
                    ("Unit.is_compatible_with(number)", lambda: ureg.Unit(n).is_compatible_with(2))):
        s, v = attempt(fn)
        if s == "err":
            raise Violation(f"compatibility_with_number_raised:{exc_class(v)}", f"{tag} for {n!r}: {v!r}")
        if bool(v) != (not r.dim):
            raise Violation("compatibility_with_number_disagrees", f"{tag} for {n!r} (dimension {r.dim}) is {v}")
    # a quantity that has been looked at and is then changed in place (and converted on) reports the dimension of its current units
    other = "second" if n != "second" else "meter"
    q2 = ureg.Quantity(6.0, n)
    q2.dimensionality, q2.check("[length]")
    q2 //= ureg.Quantity(2.0, n)
    for tag, obj in (("after //=", q2), ("after //= and to()", q2.to("dimensionless")), ("after //= and * unit", q2 * ureg.Quantity(1, other))):
        wantd = {} if "unit" not in tag else R.resolve(other).dim
        if env.uc_to_dict(obj.dimensionality) != wantd or bool(obj.is_compatible_with(other)) != ("unit" in tag) or obj.check("[time]" if other == "second" else "[length]") != ("unit" in tag):
            raise Violation("dimensionality_stale_after_in_place_operation", f"Q(6,{n!r}) {tag}: dimensionality {dict(obj.dimensionality)}, units {dict(obj._units)}")


def run_units(task, tier, seed, col):
    R = env.R()
    names = env.unit_names("mult")
    for n in shard(names, task["shard"], 4):
        r = R.resolve(n)
        col.case(("unit", n), bool(r.dim) and r.depth >= 1, sample={"unit": n, "dim": {k: str(v) for k, v in r.dim.items()}},
                 cls="derived" if r.depth else "base")
        col.count("check_calls", len(R.dimensions) + len(R.base_dims))
        col.run_case(case_unit, {"u": n})
    col.exhaustive = True


def _spellings_of(R, n):
    u = R.units[n]
    return u.spellings


def run_spellings(task, tier, seed, col):
    """Pairs re-asked through other spellings: alias/symbol, prefix spelling + any spelling, plural."""
    import random

    R = env.R()
    rnd = random.Random(seed * 1000 + task["shard"])
    names = list(env.unit_names("mult"))
    byd = {}
    for n in names:
        byd.setdefault(_dimkey(R.resolve(n).dim), []).append(n)
    prefixes = list(R.pspell)
    n_cases = 1500 if tier == "quick" else 6000

    def spell(n):
        # '%' and the per-mille sign are rewritten by the registry's default preprocessors into words before any
        # lookup, so they are usable only as stand-alone spellings (precondition read in UnitRegistry.__init__)
        s = rnd.choice([x for x in _spellings_of(R, n) if "%" not in x and "\u2030" not in x])
        mode = rnd.choice(["plain", "prefix", "plural", "prefix_plural"])
        cand = s
        if "prefix" in mode:
            cand = rnd.choice(prefixes) + cand
        if "plural" in mode:
            cand = cand + "s"
        # keep only spellings with exactly one reading, namely (p, n): soundness of the oracle
        if cand in R.spell:
            return (cand, mode) if R.spell[cand] == n and mode == "plain" else (s, "plain") if R.spell.get(s) == n else (n, "name")
        rs = R.readings(cand)
        if len(rs) == 1 and rs[0][1] == n:
            return cand, mode
        return (s, "plain") if R.spell.get(s) == n else (n, "name")

    ureg = env.ureg("float")
    for _ in range(n_cases):
        a = rnd.choice(names)
        if rnd.random() < 0.5:
            b = rnd.choice(byd[_dimkey(R.resolve(a).dim)])
        else:
            b = rnd.choice(names)
        (sa, ma), (sb, mb) = spell(a), spell(b)
        same = R.resolve(a).dim == R.resolve(b).dim
        nt = (sa != a or sb != b) and sa != sb
        col.case(("sp", sa, sb), nt, sample={"a": sa, "b": sb, "canonical": [a, b], "same_dimension": same}, cls=f"{ma}/{mb}")
        col.count("same" if same else "diff")
        col.run_case(case_spelling, {"a": sa, "b": sb, "same": same, "full": rnd.random() < 0.2})


def case_spelling(case):
    ureg = env.ureg("float")
    check_convert(ureg, case["a"], case["b"], case["same"], tag="convert_spelling")
    if case.get("full"):
        check_all_points(ureg, case["a"], case["b"], case["same"])


# ---- compound units (Hypothesis)

def _compound_strategy(nit):
    R = env.R()
    names = list(env.unit_names("mult"))
    byd = {}
    for n in names:
        byd.setdefault(_dimkey(R.resolve(n).dim), []).append(n)
    if nit == "Fraction":
        exps = st.one_of(st.integers(-3, 3).filter(bool), st.sampled_from([Fraction(1, 2), Fraction(-1, 2), Fraction(3, 2), Fraction(1, 3), Fraction(-2, 3), Fraction(5, 7)]))
    else:
        exps = st.one_of(st.integers(-3, 3).filter(bool), st.sampled_from([0.5, -0.5, 1.5, 2.5]))
    factor = st.tuples(st.sampled_from(names), exps)

    @st.composite
    def strat(draw):
        fa = draw(st.lists(factor, min_size=1, max_size=4, unique_by=lambda t: t[0]))
        mode = draw(st.sampled_from(["same", "same", "independent", "perturbed"]))
        if mode == "independent":
            fb = draw(st.lists(factor, min_size=1, max_size=4, unique_by=lambda t: t[0]))
        else:
            fb = {}
            for n, e in fa:
                m = draw(st.sampled_from(byd[_dimkey(R.resolve(n).dim)]))
                fb[m] = fb.get(m, 0) + e
            if draw(st.booleans()):  # multiply by a dimensionless ratio x / y
                x = draw(st.sampled_from(names))
                y = draw(st.sampled_from(byd[_dimkey(R.resolve(x).dim)]))
                k = draw(st.integers(1, 2))
                fb[x] = fb.get(x, 0) + k
                fb[y] = fb.get(y, 0) - k
            if mode == "perturbed":  # break the dimension by one exponent step on one factor
                n = draw(st.sampled_from(sorted(fb)))
                fb[n] = fb[n] + draw(st.sampled_from([1, -1]))
            fb = [(n, e) for n, e in fb.items() if e != 0]
            if not fb:
                fb = [("radian", 1)]
        fc = draw(st.lists(factor, min_size=1, max_size=2, unique_by=lambda t: t[0]))
        k = draw(st.sampled_from([2, -1, 3] + ([Fraction(1, 2)] if nit == "Fraction" else [0.5])))
        return {"nit": nit, "a": [list(t) for t in fa], "b": [list(t) for t in fb], "c": [list(t) for t in fc], "k": k}

    return strat()


def _dim_of(R, factors):
    d = {}
    for n, e in factors:
        for k, x in R.resolve(n).dim.items():
            d[k] = d.get(k, 0) + x * Fraction(e)
    return {k: v for k, v in d.items() if v != 0}


def case_compound(case, col=None):
    R = env.R()
    ureg = env.ureg(case["nit"])
    fa, fb, fc, k = case["a"], case["b"], case["c"], case["k"]
    same = _dim_of(R, fa) == _dim_of(R, fb)
    ua = ureg.UnitsContainer({n: e for n, e in fa})
    ub = ureg.UnitsContainer({n: e for n, e in fb})
    if col is not None:
        nt = sorted(map(tuple, map(lambda t: (t[0], str(t[1])), fa))) != sorted(map(tuple, map(lambda t: (t[0], str(t[1])), fb)))
        col.case(("cmp", str(fa), str(fb)), nt, sample={"a": fa, "b": fb, "same_dimension": same}, cls="same" if same else "diff")
        if any(Fraction(e).denominator != 1 for _, e in fa + fb):
            col.count("rational_exponent")
    if ua == ub:
        return
    check_convert(ureg, ua, ub, same, tag="convert_compound")
    check_all_points(ureg, ua, ub, same)
    # neighbours: right after a conversion has succeeded, the same request with one exponent moved (-1 -> -2, 1 -> 2, e -> 2e) is a
    # different dimension and must be refused (the first answer must not be served again from a cache slot shared by accident)
    if same:
        for i, (n, e) in enumerate(fa[:3]):
            for e2 in {e + (1 if e > 0 else -1), 2 * e}:
                fa2 = [(m, (e2 if j == i else x)) for j, (m, x) in enumerate(fa)]
                if _dim_of(R, fa2) == _dim_of(R, fb):
                    continue
                if col is not None:
                    col.count("neighbour_after_success")
                check_convert(ureg, ureg.UnitsContainer({m: x for m, x in fa2}), ub, False, tag="convert_compound_neighbour")
    # equivalence + closure laws through Unit objects
    U = ureg.Unit
    A, B, C = U(ua), U(ub), U(ureg.UnitsContainer({n: e for n, e in fc}))
    comp = lambda x, y: x.is_compatible_with(y)  # noqa: E731
    if not comp(A, A):
        raise Violation("law:reflexive", f"{fa} not compatible with itself")
    if comp(A, B) != comp(B, A):
        raise Violation("law:symmetric", f"{fa} vs {fb}")
    if same:
        for tag, x, y in (("product", A * C, B * C), ("quotient", A / C, B / C), ("quotient_r", C / A, C / B), ("power", A ** k, B ** k)):
            if not comp(x, y):
                raise Violation(f"law:closure_{tag}", f"{fa} ~ {fb} but not after {tag} with {fc}/{k}")
            s, v = attempt(ureg.convert, 1, x, y)
            if s == "err":
                raise Violation(f"law:closure_{tag}_convert:{exc_class(v)}", f"{fa} ~ {fb}: convert after {tag} raised {v!r}")
    else:
        for tag, x, y in (("product", A * C, B * C), ("power", A ** k, B ** k)):
            if comp(x, y):
                raise Violation(f"law:closure_{tag}_false_positive", f"{fa} !~ {fb} but compatible after {tag} with {fc}/{k}")
        # transitivity: if A ~ C then B !~ C
        if comp(A, C) and comp(B, C):
            raise Violation("law:transitive", f"{fa} ~ {fc} ~ {fb} but {fa} !~ {fb}")


def run_compound(task, tier, seed, col):
    nit = task["nit"]
    n = 400 if tier == "quick" else 6000
    hyp_search(col, _compound_strategy(nit), lambda c: case_compound(c, col), max_examples=n, seed=seed * 101 + task["shard"],
               shrink=True)


# ---- listings

def case_listing(case):
    """get_compatible_units(u, g) == {units of R with the same dimension} & members(g)."""
    R = env.R()
    ureg = env.ureg("float")
    u, g = case["u"], case["g"]
    r = R.resolve(u)
    if g in R.systems:
        members = R.system_members(g)
    else:
        members = R.group_members(g)
    want = {n for n in R.units if R.resolve(n).dim == r.dim and n in members}
    s, v = attempt(ureg.get_compatible_units, u, g)
    if s == "err":
        raise Violation(f"listing_raised:{exc_class(v)}", f"get_compatible_units({u!r},{g!r}) raised {v!r}")
    got = set()
    for x in v:
        d = dict(x._units)
        if len(d) != 1 or list(d.values()) != [1]:
            raise Violation("listing_not_single_unit", f"{d}")
        got.add(next(iter(d)))
    if got != want:
        raise Violation("listing_differs", f"get_compatible_units({u!r},{g!r}): extra {sorted(got - want)[:5]}, missing {sorted(want - got)[:5]}")


def run_listing(task, tier, seed, col):
    R = env.R()
    groups = ["root", R.defaults.get("group", "root")] + list(R.groups) + list(R.systems)
    names = env.unit_names("mult")
    sel = names if tier == "thorough" else [n for n in names if khash((n, seed)) % 4 == 0]
    for u in sel:
        for g in groups:
            col.case(("lst", u, g), g != "root", sample={"unit": u, "group_or_system": g}, cls="system" if g in R.systems else "group")
            col.run_case(case_listing, {"u": u, "g": g})
    col.exhaustive = tier == "thorough"


# ---- auto_reduce_dimensions: products / quotients / powers of quantities stay convertible (closure under the configuration)

def _autoreduce_strategy():
    R = env.R()
    names = list(env.unit_names("mult"))
    byd = {}
    for n in names:
        byd.setdefault(_dimkey(R.resolve(n).dim), []).append(n)
    # dimension classes that are integer powers of one another (length/area/volume, time/frequency ...) are the interesting ones
    def powers_of(n):
        d = R.resolve(n).dim
        out = []
        for k in (-2, -1, 2, 3):
            dk = _dimkey({x: e * k for x, e in d.items()})
            out += byd.get(dk, [])
        return out

    @st.composite
    def strat(draw):
        a = draw(st.sampled_from(names))
        rel = powers_of(a)
        b = draw(st.sampled_from(rel)) if rel and draw(st.integers(0, 3)) else draw(st.sampled_from(names))
        op = draw(st.sampled_from(["mul", "div", "rdiv", "pow"]))
        return {"a": a, "b": b, "op": op, "k": draw(st.sampled_from([2, -1, 3]))}

    return strat()


def case_autoreduce(case, col=None):
    R = env.R()
    ureg = env.ureg("float", auto_reduce_dimensions=True)
    a, b, op, k = case["a"], case["b"], case["op"], case["k"]
    da, db = R.resolve(a).dim, R.resolve(b).dim
    if op == "mul":
        want = {x: da.get(x, 0) + db.get(x, 0) for x in set(da) | set(db)}
    elif op == "div":
        want = {x: da.get(x, 0) - db.get(x, 0) for x in set(da) | set(db)}
    elif op == "rdiv":
        want = {x: db.get(x, 0) - da.get(x, 0) for x in set(da) | set(db)}
    else:
        want = {x: e * k for x, e in da.items()}
    want = {x: e for x, e in want.items() if e != 0}
    if col is not None:
        prop = bool(da) and bool(db) and da != db and set(da) == set(db)
        col.case(("ar", a, b, op, k), prop or op == "pow", sample=case, cls="power_related_dimensions" if prop else "other")
    qa, qb = ureg.Quantity(3, a), ureg.Quantity(2, b)
    fn = {"mul": lambda: qa * qb, "div": lambda: qa / qb, "rdiv": lambda: qb / qa, "pow": lambda: qa ** k}[op]
    s, q = attempt(fn)
    if s == "err":
        raise Violation(f"autoreduce:{op}_raised:{exc_class(q)}", f"Q(3,{a!r}) {op} Q(2,{b!r}) with auto_reduce_dimensions raised {type(q).__name__}: {q}")
    got = env.uc_to_dict(q.dimensionality)
    if got != want:
        raise Violation(f"autoreduce:{op}_wrong_dimension", f"Q(3,{a!r}) {op} Q(2,{b!r}): dimensionality {got}, R {want}")
    # the result must still convert to the plain product of root units
    plain = env.ureg("float")
    pa, pb = plain.Quantity(3, a), plain.Quantity(2, b)
    ref = {"mul": lambda: pa * pb, "div": lambda: pa / pb, "rdiv": lambda: pb / pa, "pow": lambda: pa ** k}[op]().to_root_units()
    s, r = attempt(lambda: q.to(ref.units))
    if s == "err":
        raise Violation(f"autoreduce:{op}_result_unusable:{exc_class(r)}", f"{a} {op} {b}: converting the result to the root units of the plain product raised {r!r}")
    # value preservation under auto-reduction is C15's clause


def run_autoreduce(task, tier, seed, col):
    hyp_search(col, _autoreduce_strategy(), lambda c: case_autoreduce(c, col), max_examples=500 if tier == "quick" else 8000,
               seed=seed * 71 + task["shard"])


# ---- the ureg.check decorator with several parameters, defaults and keyword arguments

def _checkdeco_strategy():
    R = env.R()
    names = list(env.unit_names("mult"))

    @st.composite
    def strat(draw):
        n = draw(st.integers(1, 4))
        params = []
        for i in range(n):
            decl = draw(st.sampled_from(names))
            has_default = draw(st.booleans()) if i > 0 else False
            if has_default and not (params and not params[-1]["default"]) and i > 0 and not params[-1]["default"]:
                pass
            params.append({"decl": decl if draw(st.integers(0, 5)) else None, "default": None})
        # defaults only on a suffix of the parameters (Python's rule)
        first_default = draw(st.integers(1, n))
        for i in range(first_default, n):
            params[i]["default"] = draw(st.sampled_from(names))
        args = []
        for i in range(n):
            how = draw(st.sampled_from(["pos", "kw", "omit"])) if params[i]["default"] else draw(st.sampled_from(["pos", "kw"]))
            R_ = env.R()
            if params[i]["decl"] and draw(st.booleans()):
                same = [m for m in names if R_.resolve(m).dim == R_.resolve(params[i]["decl"]).dim]
                unit = draw(st.sampled_from(same))
            else:
                unit = draw(st.sampled_from(names))
            args.append({"how": how, "unit": unit})
        # positional arguments must form a prefix
        seen_nonpos = False
        for a in args:
            if a["how"] != "pos":
                seen_nonpos = True
            elif seen_nonpos:
                a["how"] = "kw"
        return {"params": params, "args": args, "kw_order": list(draw(st.permutations(list(range(n)))))}

    return strat()


def case_checkdeco(case, col=None):
    import inspect
    import pint

    R = env.R()
    ureg = env.ureg("float")
    params, args = case["params"], case["args"]
    n = len(params)
    names_ = [f"p{i}" for i in range(n)]
    sig = inspect.Signature([
        inspect.Parameter(nm, inspect.Parameter.POSITIONAL_OR_KEYWORD,
                          default=(ureg.Quantity(1, p["default"]) if p["default"] else inspect.Parameter.empty))
        for nm, p in zip(names_, params)])

    def recorder(*a, **kw):
        return "called"

    recorder.__signature__ = sig
    dims = [ureg.get_dimensionality(p["decl"]) if p["decl"] else None for p in params]
    s, f = attempt(lambda: ureg.check(*dims)(recorder))
    if s == "err":
        raise Violation(f"checkdeco:decoration_raised:{exc_class(f)}", f"{f!r}")
    pos, kw = [], {}
    effective = []
    for nm, p, a in zip(names_, params, args):
        if a["how"] == "pos":
            pos.append(ureg.Quantity(2, a["unit"]))
            effective.append(a["unit"])
        elif a["how"] == "kw":
            kw[nm] = ureg.Quantity(2, a["unit"])
            effective.append(a["unit"])
        else:
            effective.append(p["default"])
    bad = [i for i, (p, u) in enumerate(zip(params, effective)) if p["decl"] and R.resolve(p["decl"]).dim != R.resolve(u).dim]
    if col is not None:
        col.case(("cd", str(case)), any(a["how"] != "pos" for a in args) and n > 1, sample=case, cls="should_raise" if bad else "should_pass")
        if any(a["how"] == "omit" for a in args) and any(a["how"] == "kw" for a in args):
            col.count("default_skipped_then_keyword")
    # keyword arguments are written in the call in any order
    order = case.get("kw_order") or list(range(n))
    kw = {names_[i]: kw[names_[i]] for i in order if names_[i] in kw}
    s, r = attempt(f, *pos, **kw)
    if bad:
        if s == "ok":
            raise Violation("checkdeco:accepted_wrong_dimension", f"params {params}, call {args}: parameter(s) {bad} have the wrong dimension but the call went through")
        if not isinstance(r, pint.DimensionalityError):
            raise Violation(f"checkdeco:wrong_exception:{exc_class(r)}", f"{r!r}")
    else:
        if s == "err":
            raise Violation(f"checkdeco:refused_correct_call:{exc_class(r)}", f"params {params}, call {args}: raised {type(r).__name__}: {r}")


def run_checkdeco(task, tier, seed, col):
    hyp_search(col, _checkdeco_strategy(), lambda c: case_checkdeco(c, col), max_examples=400 if tier == "quick" else 6000,
               seed=seed * 73 + task["shard"])


# ---- randomly generated registries: the same biconditional, oracle = the generating model

def case_generated(case, col=None):
    import logging

    import pint

    from ..gen import regmodel

    model, nit = case["model"], case["nit"]
    logging.disable(logging.CRITICAL)
    try:
        lines, _ = regmodel.render(model)
        path = case.get("path", "lines")
        if path == "lines" or case.get("autoreduce"):
            ureg = pint.UnitRegistry(lines, non_int_type=env.NIT[nit], auto_reduce_dimensions=case.get("autoreduce", False))
        else:
            # the same definitions through another loading path (file, @import, on-disk cache incl. one that another definition set has used)
            import shutil
            import tempfile

            from .c10 import load

            work = tempfile.mkdtemp(prefix="vf_gen_")
            try:
                ureg = load(model, path, nit, work)
            finally:
                shutil.rmtree(work, ignore_errors=True)
        res = regmodel.resolve(model)
        names = sorted(res)
        if col is not None:
            col.case(("gen", "\n".join(lines), nit), True, sample={"lines": lines, "registry": nit}, cls="generated_registry")
        sp = {v: k for k, v in regmodel.spellings(model).items() if v in res}
        for a in names:
            for b in names:
                same = res[a][1] == res[b][1]
                check_convert(ureg, a, b, same, tag="generated_convert")
                if col is not None:
                    col.count("generated_pairs")
                if (hash((a, b)) & 3) == 0:
                    check_all_points(ureg, sp.get(a, a), sp.get(b, b), same)
    finally:
        logging.disable(logging.NOTSET)


def run_generated(task, tier, seed, col):
    from ..gen import regmodel

    strat = st.builds(lambda m, nit, ar, pa: {"model": m, "nit": nit, "autoreduce": ar, "path": pa}, regmodel.models(with_offset=False), st.sampled_from(["float", "Fraction", "Decimal"]), st.booleans(),
                      st.sampled_from(["lines", "file", "import", "cache", "cache_lines", "cache_import", "cache_import", "cache"]))
    hyp_search(col, strat, lambda c: case_generated(c, col), max_examples=160 if tier == "quick" else 1500, seed=seed * 79 + task["shard"], shrink_budget_s=60)


# ------------------------------------------------------------------------------------- dispatch

def run_task(task, tier, seed, col):
    sub = task["sub"]
    if sub == "listing_xcache":
        # compatible-unit listings (and conversions) of a registry whose on-disk cache was written by another interpreter run
        from .c10 import case_xcache

        return col.run_case(lambda c: case_xcache(c, col), {"source": "bundled", "units": ["meter", "second", "joule", "pound", "radian", "bit"], "hashseeds": [2, 4 + seed % 5, 9]})
    if sub == "pairs":
        run_pairs(task, tier, seed, col, "float", NSHARD, stride_full=23 if tier == "quick" else 5)
    elif sub == "pairs_cfg":
        run_pairs(task, tier, seed, col, task["cfg"], task["nshard"], stride_full=11, sub_stride=8 if tier == "quick" else 1)
    elif sub == "units":
        run_units(task, tier, seed, col)
    elif sub == "spellings":
        run_spellings(task, tier, seed, col)
    elif sub == "compound":
        run_compound(task, tier, seed, col)
    elif sub == "listing":
        run_listing(task, tier, seed, col)
    elif sub == "autoreduce":
        run_autoreduce(task, tier, seed, col)
    elif sub == "generated":
        run_generated(task, tier, seed, col)
    elif sub == "checkdeco":
        run_checkdeco(task, tier, seed, col)
    else:
        raise ValueError(sub)


def replay(sub, case):
    if sub == "listing_xcache":
        from .c10 import case_xcache

        return case_xcache(case)
    if sub in ("pairs", "pairs_cfg"):
        return case_pair(case)
    if sub == "units":
        return case_unit(case)
    if sub == "spellings":
        return case_spelling(case)
    if sub == "compound":
        return case_compound(case)
    if sub == "listing":
        return case_listing(case)
    if sub == "autoreduce":
        return case_autoreduce(case)
    if sub == "generated":
        return case_generated(case)
    if sub == "checkdeco":
        return case_checkdeco(case)
    raise ValueError(sub)
