"""C10 — definition files mean what they say, independent of order and loading path.

Oracles: (a) the independent reader R for the bundled files; (b) the generating model for random definition files (model first,
text second), plus a differential between loading paths; (c) for one-fault mutations: "raises at load or on first use, never a number".
"""
from __future__ import annotations

import json
import logging
import os
import shutil
import tempfile
from decimal import Decimal
from fractions import Fraction

from hypothesis import strategies as st

from .. import env
from ..core import Collector, Skip, Violation, attempt, exc_class, hyp_search, shard
from ..gen import regmodel
from ..numcmp import decimal_close, float_close

PROPERTY = "C10"
LEVEL = "exploration"
RULE = ("bundled: every unit/spelling/prefix/dimension/group/system/context/default that R extracts from default_en.txt + constants_en.txt compared with "
        "the loaded registry in float, Decimal and Fraction configurations (exhaustive). generated: Hypothesis registry models (2-3 base units, DAG of units "
        "with rational factors, prefixes with '_' placeholders, aliases, symbols, an offset unit, groups with 'using', a system rule of either form, a derived "
        "dimension) rendered with a random permutation of unit/prefix lines, spacing/comment/literal variants and loaded through five paths (list of lines, "
        "file, define() per statement, file with @import, cold+warm disk cache) x three numeric types; every answer must equal the model and agree between "
        "paths. faults: one ill-formed statement from a catalogue added to a valid file must raise at load or at first use. Non-trivial = file with a "
        "forward reference after permutation and a block, or a fault case; distinct = distinct (model, path, type)")
ASSUMPTIONS = ["R is the oracle for the bundled files (validated against the unchanged tree)", "units added by define() after construction are not asked for compatible-unit listings (known finding, C13)"]
MIN_COUNTS = {"quick": {"generated": {"_evaluations": 60, "with_group": 10, "forward_reference": 10, "group_chain_of_three": 10}, "faults": {"_evaluations": 50}}}

PATHS = ["lines", "file", "define", "import", "cache", "cache_lines", "cache_import"]


def tasks(tier, seed):
    t = [{"sub": "bundled", "nit": nit} for nit in ("float", "Fraction", "Decimal")]
    t += [{"sub": "generated", "shard": i} for i in range(6)]
    t += [{"sub": "faults", "shard": i} for i in range(2)]
    t += [{"sub": "xcache", "shard": 0}]
    return t


# ------------------------------------------------------------------------------------- bundled files against R

def cmp_factor(nit, got, want, tainted, nops, what):
    if nit == "Fraction" and not tainted:
        if isinstance(got, float) or Fraction(got) != want:
            raise Violation("bundled_factor_differs:Fraction", f"{what}: registry {got!r}, file says {want}")
    elif nit == "Decimal":
        if not decimal_close(got, Fraction(want), nops + 4):
            raise Violation("bundled_factor_differs:Decimal", f"{what}: registry {got!r}, file says {float(want)!r}")
    else:
        if not float_close(float(got), Fraction(want), nops + 4):
            raise Violation(f"bundled_factor_differs:{nit}", f"{what}: registry {got!r}, file says {float(Fraction(want))!r}")


def case_bundled(case):
    """one item of the bundled files"""
    import pint

    R = env.R()
    nit = case["nit"]
    ureg = env.ureg(nit)
    kind, name = case["kind"], case["name"]
    if kind == "unit":
        u = R.units[name]
        r = R.resolve(name)
        for sp in u.spellings:
            if "%" in sp or "‰" in sp:
                continue
            s, n = attempt(ureg.get_name, sp)
            if s == "err" or n != name:
                raise Violation("bundled_spelling_not_loaded", f"{sp!r} -> {n!r}, file defines it as {name!r}")
            # ... and is usable where unit strings are read (the expression pre-processor rewrites some characters first)
            s, pu = attempt(ureg.parse_units, sp)
            if s == "err" or dict(pu._units) != {name: 1}:
                raise Violation("bundled_spelling_not_parseable", f"parse_units({sp!r}) -> {pu!r}, file defines it as {name!r}")
        if ureg.get_symbol(name) != (u.symbol or name):
            raise Violation("bundled_symbol_differs", f"{name}: {ureg.get_symbol(name)!r} vs {u.symbol or name!r}")
        if env.uc_to_dict(ureg.get_dimensionality(name)) != r.dim:
            raise Violation("bundled_dimensionality_differs", f"{name}")
        f, ru = ureg.get_root_units(name, check_nonmult=False)
        if env.uc_to_dict(ru._units) != r.root:
            raise Violation("bundled_root_units_differ", f"{name}: {dict(ru._units)} vs {r.root}")
        cmp_factor(nit, f, r.factor, r.tainted or r.irrational, r.nops, f"factor of {name}")
        if u.kind == "offset":
            off = u.modifiers["offset"].scale
            x = Fraction(10) if nit == "Fraction" else (Decimal(10) if nit == "Decimal" else 10.0)
            got = ureg.Quantity(x, name).to_root_units().magnitude
            cmp_factor(nit, got, 10 * r.factor + off, False, 4, f"10 {name} in root units")
        if u.kind == "log":
            conv = ureg._units[name].converter
            for attr, key in (("logbase", "logbase"), ("logfactor", "logfactor")):
                if abs(float(getattr(conv, attr)) - float(u.modifiers[key].scale)) > 1e-12 * abs(float(u.modifiers[key].scale)):
                    raise Violation("bundled_log_parameter_differs", f"{name}.{attr}")
        if u.kind in ("offset", "log") and ureg._units[name].is_multiplicative:
            raise Violation("bundled_modifier_lost", f"{name} is multiplicative in the registry")
    elif kind == "prefix":
        p = R.prefixes[name]
        x = 1
        for sp in p.spellings:
            got = ureg.convert(x, sp + "meter", "meter")
            cmp_factor(nit, got, p.value, False, 2, f"prefix spelling {sp}-")
        got_sym = ureg.get_symbol(name + "meter")
        if got_sym != (p.symbol or name) + "m":
            raise Violation("bundled_prefix_symbol_differs", f"{name}-: get_symbol({name}meter) = {got_sym!r}, file gives {(p.symbol or name) + 'm'!r}")
    elif kind == "dimension":
        want = R.dim_of_dimexpr(R.dimensions[name])
        got = env.uc_to_dict(ureg.get_dimensionality(name))
        if got != want:
            raise Violation("bundled_derived_dimension_differs", f"{name}: {got} vs {want}")
    elif kind == "group":
        want = R.group_members(name)
        got = set(ureg.get_group(name, False).members)
        if got != want:
            raise Violation("bundled_group_members_differ", f"{name}: extra {sorted(got - want)[:4]}, missing {sorted(want - got)[:4]}")
    elif kind == "system":
        sd = R.systems[name]
        sysobj = ureg.get_system(name, False)
        if set(sysobj.members) != R.system_members(name):
            raise Violation("bundled_system_members_differ", f"{name}")
        for new, old in sd.rules:
            # the declared base unit expresses itself with factor 1 under its own system
            f, bu = ureg.get_base_units(new, system=name)
            rn = R.resolve(R.lookup(new)[1])
            exact = nit == "Fraction" and not (rn.tainted or rn.irrational)
            if dict(bu._units) != {ureg.get_name(new): 1} or (f != 1 if exact else abs(float(f) - 1) > 1e-12):
                raise Violation("bundled_system_rule_not_applied", f"system {name}: get_base_units({new!r}) = {f!r} {dict(bu._units)}")
    elif kind == "context":
        cd = R.contexts[name]
        ctx = ureg._contexts[name]
        for a in cd.aliases:
            if ureg._contexts.get(a) is not ctx:
                raise Violation("bundled_context_alias_missing", f"{name} alias {a}")
        if set(ctx.defaults) != set(cd.defaults):
            raise Violation("bundled_context_defaults_differ", f"{name}: {dict(ctx.defaults)} vs {list(cd.defaults)}")
        for k, v in cd.defaults.items():
            if Fraction(ctx.defaults[k]) != v.scale:
                raise Violation("bundled_context_defaults_differ", f"{name}.{k}")
        nrel = sum(2 if bi else 1 for _, _, bi, _ in cd.relations)
        if len(ctx.funcs) != nrel and len(ctx.relation_to_context) != nrel:
            raise Violation("bundled_context_relation_count_differs", f"{name}: {len(ctx.funcs)} vs {nrel}")
    elif kind == "defaults":
        if ureg._defaults != R.defaults:
            raise Violation("bundled_defaults_differ", f"{ureg._defaults} vs {R.defaults}")
        if ureg.default_system != R.defaults.get("system"):
            raise Violation("bundled_default_system_differs", f"{ureg.default_system}")


def run_bundled(task, tier, seed, col):
    R = env.R()
    nit = task["nit"]
    items = [("unit", n) for n in R.units] + [("prefix", n) for n in R.prefixes] + [("dimension", n) for n in R.dimensions] + [("group", n) for n in list(R.groups) + ["root", R.defaults.get("group")]] \
        + [("system", n) for n in R.systems] + [("context", n) for n in R.contexts] + [("defaults", "defaults")]
    for kind, name in items:
        if name is None:
            continue
        col.case((nit, kind, name), kind != "unit" or R.resolve(name).depth >= 1, sample={"registry": nit, "kind": kind, "name": name}, cls=kind)
        col.run_case(case_bundled, {"nit": nit, "kind": kind, "name": name})
    col.exhaustive = True


# ------------------------------------------------------------------------------------- generated files

def _float_range(f):
    try:
        return 1e-280 < abs(float(f)) < 1e280
    except OverflowError:
        return False


def _base_of(lines):
    return next((ln.split("=")[0].strip() for ln in lines if "=" in ln and ln.split("=", 1)[1].strip().startswith("[") and not ln.strip().startswith(("[", "@"))), None)


def _decoy(lines, base=None):
    """the same file with every unit factor multiplied by 7 and an extra base-unit factor (a different definition set with the same names:
    other factors, other dimensions)"""
    out, block = [], None
    base = base or _base_of(lines)
    for ln in lines:
        t = ln.split("#", 1)[0].strip()
        if t.startswith("@"):
            block = None if t == "@end" else t.split()[0].split("(")[0]
            out.append(ln)
            continue
        if block in ("@defaults", "@system") or "=" not in t or t.startswith("[") or t.split("=")[0].strip().endswith("-") or "[" in t.split("=")[1]:
            out.append(ln)
            continue
        head, rest = ln.split("=", 1)
        nunit = sum(1 for o in out if "= 7 * " in o)
        if base and ";" not in rest and block is None and nunit % 2 == 0:
            out.append(f"{head}= 7 * {base} * {rest.lstrip()}")  # every other unit also changes its dimension
        else:
            out.append(f"{head}= 7 * {rest.lstrip()}")
    return out


def load(model, path, nit, workdir):
    """Build a registry from the model through one loading path."""
    import pint

    T = env.NIT[nit]
    lines, extra = regmodel.render(model, permute=True, split_import=(path in ("import", "cache_import")))
    if path == "lines":
        return pint.UnitRegistry(lines, non_int_type=T)
    if path == "cache_lines":
        # an iterable of lines with an on-disk cache folder that another definition set (every factor x 7) has used before
        cdir = os.path.join(workdir, "cache_l")
        try:
            pint.UnitRegistry(_decoy(lines), non_int_type=T, cache_folder=cdir)
        except Exception:  # noqa: BLE001 - the decoy only has to leave its cache files behind
            pass
        pint.UnitRegistry(lines, non_int_type=T, cache_folder=cdir)  # cold for these lines
        return pint.UnitRegistry(lines, non_int_type=T, cache_folder=cdir)  # warm
    if path == "cache_import":
        # a file with @import and an on-disk cache: the imported file is edited between two loads (first every factor x 7, then as written)
        sub = os.path.join(workdir, "ci")
        os.makedirs(sub, exist_ok=True)
        fn = os.path.join(sub, "defs.txt")
        with open(fn, "w", encoding="utf-8") as fh:
            fh.write("\n".join(lines) + "\n")
        cdir = os.path.join(sub, "cache")
        main_base = _base_of(lines)
        for body_of in ((lambda b: _decoy(b, main_base)), None):
            for name, body in extra.items():
                with open(os.path.join(sub, name), "w", encoding="utf-8") as fh:
                    fh.write("\n".join(body_of(body) if body_of else body) + "\n")
            try:
                ureg = pint.UnitRegistry(fn, non_int_type=T, cache_folder=cdir)
            except Exception:  # noqa: BLE001
                if body_of is None:
                    raise
        return ureg
    if path in ("file", "import", "cache"):
        fn = os.path.join(workdir, f"defs_{path}.txt")
        with open(fn, "w", encoding="utf-8") as fh:
            fh.write("\n".join(lines) + "\n")
        for name, body in extra.items():
            with open(os.path.join(workdir, name), "w", encoding="utf-8") as fh:
                fh.write("\n".join(body) + "\n")
        if path == "cache":
            cdir = os.path.join(workdir, "cache")
            pint.UnitRegistry(fn, non_int_type=T, cache_folder=cdir)  # cold
            return pint.UnitRegistry(fn, non_int_type=T, cache_folder=cdir)  # warm
        return pint.UnitRegistry(fn, non_int_type=T)
    if path == "define":
        ureg = pint.UnitRegistry(None, non_int_type=T)
        # the spellings the file is about to introduce are asked for first (the usual 'if name not in ureg: define(...)'): what the registry
        # answered while they did not exist must not survive their definition
        for u_ in model["units"]:
            for probe in [u_["name"], u_["name"] + "s"] + [p_["name"] + u_["name"] for p_ in model["prefixes"][:1]]:
                try:
                    probe in ureg
                except Exception:  # noqa: BLE001
                    pass
        block = None
        for ln in lines:
            s = ln.split("#", 1)[0].strip()
            if not s:
                continue
            if block is not None:
                block.append(ln)
                if s == "@end":
                    ureg.load_definitions(block)
                    block = None
                continue
            if s.startswith("@") and not s.startswith("@alias"):
                block = [ln]
                continue
            ureg.define(s)
        return ureg
    raise ValueError(path)


def battery(ureg, model, nit, path):
    """Every answer the model fixes; returns a dict used for the between-path differential."""
    res = regmodel.resolve(model)
    out = {}
    sp = regmodel.spellings(model)
    for s, canon in sp.items():
        st_, n = attempt(ureg.get_name, s)
        if st_ == "err" or n != canon:
            raise Violation("spelling_not_as_written", f"[{path}/{nit}] get_name({s!r}) = {n!r}, written {canon!r}")
    # derived spellings: plural and prefixed forms of every unit name (asserted where the model admits exactly one decomposition)
    psp = {}
    for p_ in model["prefixes"]:
        for x in [p_["name"]] + ([p_["symbol"]] if p_["symbol"] else []) + p_["aliases"]:
            psp[x] = p_["name"]
    def _readings(t):
        out = set()
        for suf in ("", "s"):
            stem = t[: len(t) - len(suf)] if suf and t.endswith(suf) else (t if not suf else None)
            if stem is None:
                continue
            for px, pn in list(psp.items()) + [("", "")]:
                if stem.startswith(px) and stem[len(px):] in sp:
                    out.add((pn, sp[stem[len(px):]]))
        return out
    for u_ in model["units"]:
        for t in [u_["name"] + "s"] + [p_["name"] + u_["name"] for p_ in model["prefixes"]] + [p_["name"] + u_["name"] + "s" for p_ in model["prefixes"][:1]]:
            rs = _readings(t)
            if t in sp or len(rs) != 1:
                continue
            (pn, un), = rs
            st_, n = attempt(ureg.get_name, t)
            if st_ == "err" or n != pn + un:
                raise Violation("derived_spelling_not_resolved", f"[{path}/{nit}] get_name({t!r}) = {n!r}, the definitions give {pn + un!r}")
    # every spelling is also in the case-insensitive table (asked per call), unless two spellings only differ by case
    lower = {}
    for s, canon in sp.items():
        lower.setdefault(s.lower(), set()).add(canon)
    for s, canon in sp.items():
        if len(lower[s.lower()]) == 1 and s.upper() != s and s.upper() not in sp and not any(s.upper().startswith(p_["name"].upper()) or (p_["symbol"] and s.upper().startswith(p_["symbol"].upper())) for p_ in model["prefixes"]):
            st_, n = attempt(ureg.get_name, s.upper(), case_sensitive=False)
            if st_ == "err" or n != canon:
                raise Violation("spelling_not_in_case_insensitive_table", f"[{path}/{nit}] get_name({s.upper()!r}, case_sensitive=False) = {n!r}, written {canon!r} (as {s!r})")
    for name, (f, vec) in res.items():
        st_, r = attempt(ureg.get_root_units, name)
        if st_ == "err":
            raise Violation(f"unit_unusable:{exc_class(r)}", f"[{path}/{nit}] get_root_units({name!r}) raised {r!r}")
        gf, gu = r
        if env.uc_to_dict(gu._units) != vec:
            raise Violation("root_units_not_as_written", f"[{path}/{nit}] {name}: {dict(gu._units)} vs {vec}")
        if nit == "Fraction":
            if isinstance(gf, float) or Fraction(gf) != f:
                raise Violation("factor_not_as_written:Fraction", f"[{path}/{nit}] {name}: {gf!r} vs {f}")
        elif nit == "Decimal":
            if not isinstance(gf, (Decimal, int)) or not decimal_close(gf, f, 12):
                raise Violation("factor_not_as_written:Decimal", f"[{path}/{nit}] {name}: {gf!r} vs {f}")
        elif not _float_range(f):
            continue  # (chains of generated factors that leave the float range: compared in the Fraction and Decimal registries only)
        elif not float_close(float(gf), f, 12):
            raise Violation("factor_not_as_written:float", f"[{path}/{nit}] {name}: {gf!r} vs {float(f)!r}")
        out[("factor", name)] = str(gf)
        d = env.uc_to_dict(ureg.get_dimensionality(name))
        if d != regmodel.dims_of(model, vec):
            raise Violation("dimensionality_not_as_written", f"[{path}/{nit}] {name}: {d}")
    for u in model["units"]:
        want_sym = u["symbol"] or u["name"]
        if ureg.get_symbol(u["name"]) != want_sym:
            raise Violation("symbol_not_as_written", f"[{path}/{nit}] {u['name']}: {ureg.get_symbol(u['name'])!r} vs {want_sym!r}")
    base0 = model["base"][0][0]
    for p in model["prefixes"]:
        for sp_ in [p["name"]] + ([p["symbol"]] if p["symbol"] else []) + p["aliases"]:
            st_, g = attempt(ureg.convert, 1, sp_ + base0, base0)
            if st_ == "err":
                raise Violation(f"prefix_spelling_unusable:{exc_class(g)}", f"[{path}/{nit}] {sp_}-: {g!r}")
            if (nit == "Fraction" and (isinstance(g, float) or Fraction(g) != p["value"])) or (nit != "Fraction" and abs(float(g) - float(p["value"])) > 1e-12 * float(p["value"])):
                raise Violation("prefix_value_not_as_written", f"[{path}/{nit}] {sp_}{base0} = {g!r} {base0}, written {p['value']}")
        want_sym = (p["symbol"] or p["name"]) + base0
        if ureg.get_symbol(p["name"] + base0) != want_sym:
            raise Violation("prefix_symbol_not_as_written", f"[{path}/{nit}] get_symbol({p['name'] + base0}) = {ureg.get_symbol(p['name'] + base0)!r}, written {want_sym!r}")
    for o in model["offsets"]:
        x = {"Fraction": Fraction(7), "Decimal": Decimal(7), "float": 7.0}[nit]
        g = ureg.Quantity(x, o["name"]).to(o["ref"]).magnitude
        want = 7 * o["scale"] + o["offset"]
        if (nit == "Fraction" and (isinstance(g, float) or Fraction(g) != want)) or abs(float(g) - float(want)) > 1e-9 * max(1.0, abs(float(want))):
            raise Violation("offset_unit_not_as_written", f"[{path}/{nit}] 7 {o['name']} = {g!r} {o['ref']}, written {want}")
        for sp_ in [o["symbol"]] * bool(o["symbol"]) + list(o.get("aliases", [])):
            if ureg.get_name(sp_) != o["name"]:
                raise Violation("spelling_not_as_written", f"[{path}/{nit}] {sp_}")
        # the delta counterpart of an offset unit: converts by the scale alone, is reachable under delta_<name>, delta_<alias>, and the Delta sign
        # before the unit's symbol and aliases (for a unit written without a symbol that is its name), and reports the Delta sign + symbol
        dn = "delta_" + o["name"]
        g = ureg.Quantity(x, dn).to(o["ref"]).magnitude
        want = 7 * o["scale"]
        if (nit == "Fraction" and (isinstance(g, float) or Fraction(g) != want)) or abs(float(g) - float(want)) > 1e-9 * max(1.0, abs(float(want))):
            raise Violation("offset_unit_not_as_written:delta", f"[{path}/{nit}] 7 {dn} = {g!r} {o['ref']}, written scale {o['scale']}")
        sym = ureg.get_symbol(o["name"])
        for sp_ in ["Δ" + sym] + ["Δ" + a_ for a_ in o.get("aliases", [])] + ["delta_" + a_ for a_ in o.get("aliases", [])]:
            s_, n_ = attempt(ureg.get_name, sp_)
            if s_ == "err" or n_ != dn:
                raise Violation("spelling_not_as_written:delta", f"[{path}/{nit}] {sp_!r} -> {n_!r}, expected {dn!r} (offset unit written as symbol={o['symbol']!r}, aliases={o.get('aliases')})")
        if ureg.get_symbol(dn) != "Δ" + sym:
            raise Violation("spelling_not_as_written:delta_symbol", f"[{path}/{nit}] get_symbol({dn!r}) = {ureg.get_symbol(dn)!r}, the unit's symbol is {sym!r}")
    for g in model["groups"]:
        want = regmodel.group_members(model, g["name"])
        st_, grp = attempt(ureg.get_group, g["name"], False)
        if st_ == "err":
            raise Violation("group_missing", f"[{path}/{nit}] {g['name']}")
        if set(grp.members) != want:
            raise Violation("group_members_not_as_written", f"[{path}/{nit}] {g['name']}: {sorted(grp.members)} vs {sorted(want)}")
        # what the block itself lists (as opposed to what it inherits through 'using'), asked after the members were computed and again
        own = set(g.get("members", g.get("units", [])))
        if g["name"] != "root" and own and (model.get("defaults") or {}).get("group") != g["name"] and (set(grp.non_inherited_unit_names) != own or set(grp.members) != want):
            raise Violation("group_own_units_not_as_written", f"[{path}/{nit}] {g['name']}: non_inherited_unit_names = {sorted(grp.non_inherited_unit_names)}, the block lists {sorted(own)}")
        if path != "define":
            for m in sorted(want)[:2]:
                got = {next(iter(x._units)) for x in ureg.get_compatible_units(m, g["name"])}
                offref = {o["name"]: o["ref"] for o in model["offsets"]}
                rdim = lambda n: res[offref.get(n, n)][1]  # noqa: E731 (an offset unit has the dimension of its reference)
                wantc = {n for n in want if rdim(n) == rdim(m)}
                if got != wantc:
                    raise Violation("group_compatible_units_not_as_written", f"[{path}/{nit}] get_compatible_units({m},{g['name']}) = {sorted(got)} vs {sorted(wantc)}")
    for s in model["systems"]:
        for new, old in s["rules"]:
            f_new = res[new][0]
            base_unit = next(iter(res[new][1]))
            st_, r = attempt(ureg.get_base_units, base_unit, system=s["name"])
            if st_ == "err" and nit == "Decimal" and Fraction(res[new][1][base_unit]) == 3 and type(r).__name__ == "DimensionalityError":
                # known finding (narrow class): the exponent 1/3 is not representable in Decimal, (u ** 0.333...) ** 3 has dimension [x] ** 0.999...
                raise Violation("system_rule_inexact_exponent:Decimal", f"[{path}/{nit}] get_base_units({base_unit}, system={s['name']}) with the rule '{new}' (= {base_unit} ** 3) raised {r!r}")
            if st_ == "err":
                raise Violation(f"system_unusable:{exc_class(r)}", f"[{path}/{nit}] get_base_units({base_unit}, system={s['name']}) raised {r!r}")
            gf, gu = r
            k = Fraction(res[new][1][base_unit])  # new = f_new * base_unit ** k, so base_unit = (new / f_new) ** (1 / k)
            got_u = {n_: Fraction(e_).limit_denominator(1000) for n_, e_ in gu._units.items()}
            if got_u != {new: 1 / k}:
                raise Violation("system_rule_not_as_written", f"[{path}/{nit}] {s['name']}: {base_unit} -> {dict(gu._units)}, rule says {new} ** {1 / k}")
            want_f = float(f_new) ** (-1.0 / float(k))
            if abs(float(gf) - want_f) > 1e-9 * want_f or (nit == "Fraction" and k == 1 and Fraction(gf) != 1 / f_new):
                raise Violation("system_factor_not_as_written", f"[{path}/{nit}] {s['name']}: 1 {base_unit} = {gf!r} {new}, expected {1 / f_new}")
        want_members = set()
        for gname in s["using"]:
            want_members |= regmodel.group_members(model, gname)
        if s["using"] and set(ureg.get_system(s["name"], False).members) != want_members:
            raise Violation("system_members_not_as_written", f"[{path}/{nit}] {s['name']}")
    for d in model["dims"]:
        got = env.uc_to_dict(ureg.get_dimensionality(d["name"]))
        if got != {k: Fraction(v) for k, v in d["expr"].items()}:
            raise Violation("derived_dimension_not_as_written", f"[{path}/{nit}] {d['name']}: {got}")
    return out


def case_generated(case, col=None):
    model = case["model"]
    logging.disable(logging.CRITICAL)
    work = tempfile.mkdtemp(prefix="vf_c10_")
    try:
        lines, _ = regmodel.render(model)
        if col is not None:
            names_before = set()
            fwd = False
            for ln in lines:
                toks = ln.replace("*", " ").replace("/", " ").split()
                if "=" in ln and not ln.strip().startswith(("@", "#", "[")):
                    name = ln.split("=")[0].strip().rstrip("-")
                    rhs = ln.split("=")[1]
                    for u in model["units"]:
                        if u["name"] in rhs.split() and u["name"] not in names_before and u["name"] != name:
                            fwd = True
                    names_before.add(name)
            col.case(("g", "\n".join(lines), tuple(case["paths"]), case["nit"]), fwd or bool(model["groups"]),
                     sample={"lines": lines, "paths": case["paths"], "registry": case["nit"]}, cls="with_group" if model["groups"] else "flat")
            if fwd:
                col.count("forward_reference")
            if model["systems"]:
                col.count("with_system")
            if any(h["name"] in g["using"] and h["using"] for g in model["groups"] for h in model["groups"]):
                col.count("group_chain_of_three")
        answers = {}
        paths = [p for p in case["paths"] if not (p == "define" and model.get("defaults"))] or ["lines"]
        # (@defaults takes effect when a registry is initialised from its definitions; it has no define()-by-define() equivalent)
        if col is not None and model.get("defaults"):
            col.count("with_defaults")
        for path in paths:
            s, ureg = attempt(load, model, path, case["nit"], work)
            if s == "err":
                raise Violation(f"valid_file_refused:{path}:{exc_class(ureg)}", f"loading through {path!r} ({case['nit']}) raised {type(ureg).__name__}: {ureg}\n" + "\n".join(lines))
            answers[path] = battery(ureg, model, case["nit"], path)
        ref = answers[paths[0]]
        for path, a in answers.items():
            if a != ref:
                diff = [k for k in ref if a.get(k) != ref[k]][:3]
                raise Violation("loading_paths_disagree", f"{paths[0]} vs {path}: {diff}")
    finally:
        shutil.rmtree(work, ignore_errors=True)
        logging.disable(logging.NOTSET)


def run_generated(task, tier, seed, col):
    strat = st.builds(lambda m, paths, nit: {"model": m, "paths": paths, "nit": nit}, regmodel.models(),
                      st.lists(st.sampled_from(PATHS), min_size=2, max_size=3, unique=True), st.sampled_from(["Fraction", "Fraction", "float", "Decimal"]))
    hyp_search(col, strat, lambda c: case_generated(c, col), max_examples=150 if tier == "quick" else 2500, seed=seed * 167 + task["shard"], shrink_budget_s=90)


# ------------------------------------------------------------------------------------- one-fault mutations

BASE_LINES = ["xm = [xlen]", "xs = [xtime]", "foo = 3 * xm = fo = fooo", "bar = foo / xs", "kila- = 1000 = K-", "@group ga", "    baz = 12 * foo", "@end"]

FAULTS = {
    # name: (extra lines, probe) ; probe = ('unit'|'dim'|'prefix'|None, name)
    "invalid_unit_name": (["1bad = 2 * xm"], ("unit", "1bad")),
    "invalid_unit_name_operator": (["ba+d = 2 * xm"], ("unit", "ba+d")),
    "mixed_dimension_and_unit": (["mixy = [xlen] * xs"], ("unit", "mixy")),
    "dimension_references_unit": (["[xbad] = xm / [xtime]"], ("dim", "[xbad]")),
    "cycle_two": (["cyca = 2 * cycb", "cycb = 3 * cyca"], ("unit", "cyca")),
    "cycle_self": (["selfy = 2 * selfy"], ("unit", "selfy")),
    "cycle_three": (["c1 = 2 * c2", "c2 = 2 * c3", "c3 = 2 * c1"], ("unit", "c2")),
    "nonnumeric_modifier": (["offy = 2 * xs; offset: abc"], ("unit", "offy")),
    "unknown_modifier": (["offz = 2 * xs; wobble: 3"], ("unit", "offz")),
    "unknown_directive": (["@frobnicate x"], None),
    "unterminated_group": (["@group gz", "    zed = 2 * xm"], ("unit", "zed")),
    "unterminated_context": (["@context cz", "    [xlen] -> [xtime]: value * 2"], None),
    "unterminated_system": (["@system sz", "    foo"], None),
    "end_without_block": (["@end"], None),
    "prefix_nonnumeric": (["bada- = xm"], ("prefix", "badaxm")),
    "prefix_invalid_name": (["9p- = 10"], ("prefix", "9pxm")),
    "undefined_reference": (["undefy = 2 * nonexist"], ("unit", "undefy")),
    "derived_dimension_with_alias": (["[xq] = [xlen] = [xtime]"], ("dim", "[xq]")),
    "system_undefined_unit": (["@system sy", "    nonexist", "@end"], None),
    "system_rule_not_root": (["@system sy2", "    foo: bar", "@end"], None),
    "context_undefined_dimension": (["@context cx", "    [xlen] -> [nodim]: value * 2", "@end"], None),
    "unit_without_value": (["lonely"], ("unit", "lonely")),
    "unbalanced_parenthesis": (["unb = 2 * (xm"], ("unit", "unb")),
    "dangling_operator": (["dng = 2 * xm *"], ("unit", "dng")),
    "import_missing_file": (["@import does_not_exist.txt"], None),
    # references to things that are defined nowhere (pint creates groups on demand internally: a definition must not)
    "group_using_undefined_group": (["@group gu using nogroup", "    gux = 2 * xm", "@end"], ("group", "gu")),
    "alias_for_undefined_unit": (["@alias nonexist = nx"], ("unit", "nx")),
    # a block whose first rule is fine and whose second is not: refused as a whole (a living registry must not keep half of it)
    "system_second_rule_undefined": (["@system sy3", "    xm", "    nonexist", "@end"], ("system", "sy3")),
    "system_second_rule_not_root": (["@system sy4", "    xm", "    foo: bar", "@end"], ("system", "sy4")),
}


def _probe(ureg, probe):
    kind, name = probe
    if kind == "unit" or kind == "prefix":
        return ureg.Quantity(1, name).to_root_units()
    if kind == "dim":
        return ureg.get_dimensionality(name)
    if kind == "group":
        return ureg.get_group(name, False).members
    if kind == "system":
        return (ureg.get_system(name, False).members, ureg.get_base_units("foo", system=name))
    raise ValueError(kind)


def case_fault(case, col=None):
    import pint

    logging.disable(logging.CRITICAL)
    try:
        fault, path, nit, pos = case["fault"], case["path"], case["nit"], case["pos"]
        extra, probe = FAULTS[fault]
        lines = list(BASE_LINES)
        pos = pos % (len(lines) + 1)
        # keep blocks intact: never insert inside the @group block
        if 5 < pos < 8:
            pos = 8
        lines[pos:pos] = extra
        if col is not None:
            col.case(("f", fault, path, nit, pos), True, sample={"fault": fault, "path": path, "registry": nit, "lines": lines}, cls=fault)
        work = tempfile.mkdtemp(prefix="vf_c10f_")
        try:
            T = env.NIT[nit]

            def build():
                if path == "lines":
                    return pint.UnitRegistry(lines, non_int_type=T)
                if path == "late":
                    # the valid part first, the rest through load_definitions on the living registry
                    u_ = pint.UnitRegistry(list(BASE_LINES), non_int_type=T)
                    living.append(u_)
                    u_.load_definitions(list(extra))
                    return u_
                fn = os.path.join(work, "defs.txt")
                with open(fn, "w", encoding="utf-8") as fh:
                    fh.write("\n".join(lines) + "\n")
                if path == "cache":
                    pint.UnitRegistry(fn, non_int_type=T, cache_folder=os.path.join(work, "c"))
                    return pint.UnitRegistry(fn, non_int_type=T, cache_folder=os.path.join(work, "c"))
                return pint.UnitRegistry(fn, non_int_type=T)

            living = []
            try:
                ureg = build()
            except RecursionError:
                return
            except Exception:  # noqa: BLE001 - rejected at load time: what the statement asks for
                if living and probe is not None and probe[0] == "system":
                    # ... and the registry that refused the block does not know the system
                    s_, r_ = attempt(_probe, living[0], probe)
                    if s_ == "ok":
                        raise Violation(f"refused_definition_left_residue:{fault}", f"[{path}/{nit}] {extra} was refused, yet {probe} answers {r_!r}")
                return
            if probe is None:
                raise Violation(f"ill_formed_definition_accepted:{fault}", f"[{path}/{nit}] the file loaded although it contains {extra}")
            try:
                r = _probe(ureg, probe)
            except RecursionError:
                return
            except Exception:  # noqa: BLE001 - raises on first use
                return
            raise Violation(f"ill_formed_definition_given_a_meaning:{fault}", f"[{path}/{nit}] {extra} loaded and {probe} answered {r!r}")
        finally:
            shutil.rmtree(work, ignore_errors=True)
    finally:
        logging.disable(logging.NOTSET)


REFUSED = ["foo = 7 * xm", "foo = 7 * xm = fo2", "newx = 2 * xm = fo", "newy = 2 * xm = _ = fooo", "@alias bar = fo", "kila- = 10", "xm = 3 * xs", "baz = 5 * xm"]


def case_refused_redefinition(case, col=None):
    """a registry built with on_redefinition='raise' refuses a definition that would replace an existing name, symbol or alias - and is afterwards what
    it was: the refused definition has been given no meaning, not even for the names it would have replaced"""
    import pint

    logging.disable(logging.CRITICAL)
    try:
        T = env.NIT[case["nit"]]
        ureg = pint.UnitRegistry(list(BASE_LINES), non_int_type=T, on_redefinition="raise")
        probes = [("foo", "xm"), ("fo", "xm"), ("fooo", "xm"), ("bar", "xm / xs"), ("Kfo", "xm"), ("kilafoo", "xm"), ("baz", "foo"), ("xm", "xm")]

        def battery():
            out = []
            for a_, b_ in probes:
                s_, r_ = attempt(lambda: ureg.Quantity(1, a_).to(b_).magnitude)
                out.append((a_, b_, s_, repr(r_) if s_ == "ok" else type(r_).__name__))
            out.append(("members", sorted(ureg.get_group("ga", False).members)))
            return out

        before = battery() if case["ask_before"] else None
        line = REFUSED[case["which"] % len(REFUSED)]
        if col is not None:
            col.case(("rr", line, case["nit"], case["how"], case["ask_before"]), True, sample=dict(case, line=line), cls="refused_redefinition")
        s_, r_ = attempt((ureg.define if case["how"] == "define" else lambda l: ureg.load_definitions([l])), line)
        if s_ == "ok":
            raise Violation("redefinition_accepted_under_policy_raise", f"{line!r} ({case['how']}) did not raise in a registry built with on_redefinition='raise'")
        after = battery()
        want = before if before is not None else None
        if want is None:
            twin = pint.UnitRegistry(list(BASE_LINES), non_int_type=T, on_redefinition="raise")
            ureg, keep = twin, ureg
            want = battery()
            ureg = keep
        if after != want:
            diff = [(x, y) for x, y in zip(want, after) if x != y][:3]
            raise Violation("refused_definition_left_residue:redefinition", f"{line!r} ({case['how']}) raised {type(r_).__name__}, yet the registry changed: {diff}")
    finally:
        logging.disable(logging.NOTSET)


def run_faults(task, tier, seed, col):
    for w_ in range(len(REFUSED)):
        for n_ in ("float", "Fraction"):
            for h_ in ("define", "load"):
                for ab_ in (False, True):
                    col.run_case(lambda c: case_refused_redefinition(c, col), {"which": w_, "nit": n_, "how": h_, "ask_before": ab_})
    strat = st.builds(lambda f, p, n, pos: {"fault": f, "path": p, "nit": n, "pos": pos}, st.sampled_from(sorted(FAULTS)), st.sampled_from(["lines", "file", "cache", "late"]),
                      st.sampled_from(["float", "Fraction", "Decimal"]), st.integers(2, 9))
    # every fault x path x number type once with the statement at the end of the file (enumerated), then random positions
    for f_ in sorted(FAULTS):
        for p_ in ("lines", "file", "cache", "late"):
            for n_ in ("float", "Fraction", "Decimal"):
                col.run_case(lambda c: case_fault(c, col), {"fault": f_, "path": p_, "nit": n_, "pos": 8})
    hyp_search(col, strat, lambda c: case_fault(c, col), max_examples=300 if tier == "quick" else 2500, seed=seed * 173 + task["shard"])


# ------------------------------------------------------------------------------------- on-disk cache shared by interpreter runs

_XCACHE_CODE = r"""
import json, sys, logging
logging.disable(logging.CRITICAL)
import pint
folder, defs = sys.argv[1], sys.argv[2]
kw = {} if folder == "-" else {"cache_folder": folder}
reg = pint.UnitRegistry(**kw) if defs == "-" else (pint.UnitRegistry(open(defs[1:]).read().splitlines(), **kw) if defs.startswith("@") else pint.UnitRegistry(defs, **kw))
units = json.load(sys.stdin)
out = {}
def _try(f):
    try:
        return f()
    except Exception as e:
        return "!" + type(e).__name__
for u in units:
    out[u] = {"compat": _try(lambda: sorted(next(iter(x._units)) for x in reg.get_compatible_units(u))), "root": _try(lambda: repr(reg.get_root_units(u))),
              "dim": _try(lambda: repr(dict(reg.get_dimensionality(u)))), "parse": _try(lambda: repr(dict(reg.parse_units("kilo" + u + "/" + units[0])._units))),
              "conv": _try(lambda: repr(reg.Quantity(3, u).to_root_units())), "base": _try(lambda: repr(reg.get_base_units(u)))}
print(json.dumps(out))
"""


def case_xcache(case, col=None):
    """A cache folder filled by one interpreter run is read by the next one (other hash seed): every answer must stay the same and the
    compatible-unit listings must be those of the definitions."""
    import subprocess
    import sys

    R = env.R()
    work = tempfile.mkdtemp(prefix="vf_c10x_")
    try:
        defs = "-"
        units = case["units"]
        if case["source"] == "generated":
            lines = ["xm = [xlen]", "xs = [xtime]", "kilo- = 1000", "foo = 3 * xm = fo", "bar = 5 * foo", "baz = 2 * xs", "spd = 9 * xm / xs", "@group ga", "    gfoo = 11 * xm", "@end"]
            defs = os.path.join(work, "defs.txt")
            with open(defs, "w") as fh:
                fh.write("\n".join(lines) + "\n")
            units = ["xm", "foo", "bar", "baz", "spd", "gfoo"]
        if case["source"] == "lines":
            # registries built from an iterable of lines (no file name) that share one cache folder: first another definition set with the same
            # names fills the folder, then the set under test is loaded cold and warm
            lines = ["xm = [xlen]", "xs = [xtime]", "kilo- = 1000", "foo = 3 * xm = fo", "bar = 5 * foo", "baz = 2 * xs", "spd = 9 * xm / xs", "@group ga", "    gfoo = 11 * xm", "@end"]
            other = ["xm = [xlen]", "xs = [xtime]", "kilo- = 1000", "foo = 4 * xm = fo", "bar = 7 * foo * xm", "baz = 6 * xs", "spd = 2 * xm / xs", "@group ga", "    gfoo = 13 * xm", "@end", "extra = 2 * xm"]
            for nm, ls in (("defs.txt", lines), ("other.txt", other)):
                with open(os.path.join(work, nm), "w") as fh:
                    fh.write("\n".join(ls) + "\n")
            defs = "@" + os.path.join(work, "defs.txt")
            units = ["xm", "foo", "bar", "baz", "spd", "gfoo"]
            p = subprocess.run([sys.executable, "-c", _XCACHE_CODE, os.path.join(work, "cache"), "@" + os.path.join(work, "other.txt")], input=json.dumps(units), capture_output=True, text=True,
                               env=dict(os.environ, PYTHONHASHSEED="4"), timeout=600)
            if p.returncode != 0:
                raise RuntimeError(p.stderr[-500:])
        answers = []
        for i, hs in enumerate(case["hashseeds"]):
            envv = dict(os.environ, PYTHONHASHSEED=str(hs))
            # run 0: no cache folder (the reference); run 1 fills the folder; the later runs read it under other hash seeds
            p = subprocess.run([sys.executable, "-c", _XCACHE_CODE, os.path.join(work, "cache") if i else "-", defs], input=json.dumps(units), capture_output=True, text=True, env=envv, timeout=600)
            if p.returncode != 0:
                raise RuntimeError(p.stderr[-500:])
            answers.append(json.loads(p.stdout))
        if col is not None:
            col.case(("xc", case["source"], tuple(case["hashseeds"])), True, sample=case, cls=case["source"])
        for u in units:
            for i, a in enumerate(answers[1:], 1):
                if a[u] != answers[0][u]:
                    what = [k for k in answers[0][u] if not isinstance(a[u], dict) or a[u].get(k) != answers[0][u][k]] if isinstance(answers[0][u], dict) else ["outcome"]
                    raise Violation(f"warm_cache_of_another_run_changes_answers:{what[0]}",
                                    f"{u} ({case['source']} definitions): run {i} (PYTHONHASHSEED={case['hashseeds'][i]}, warm cache) differs from the run without a cache folder in {what}: "
                                    f"{str(a[u])[:160]} vs {str(answers[0][u])[:160]}")
    finally:
        shutil.rmtree(work, ignore_errors=True)


def run_xcache(task, tier, seed, col):
    for src in ("bundled", "generated", "lines"):
        col.run_case(lambda c: case_xcache(c, col), {"source": src, "units": ["meter", "second", "newton", "inch", "radian", "byte"], "hashseeds": [3, 1 + seed % 5, 7, 11]})


def run_task(task, tier, seed, col):
    if task["sub"] == "xcache":
        return run_xcache(task, tier, seed, col)
    {"bundled": run_bundled, "generated": run_generated, "faults": run_faults}[task["sub"]](task, tier, seed, col)


def replay(sub, case):
    if sub == "xcache":
        return case_xcache(case)
    if sub == "faults" and "ask_before" in case:
        return case_refused_redefinition(case)
    return {"bundled": case_bundled, "generated": case_generated, "faults": case_fault}[sub](case)
