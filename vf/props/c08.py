"""C08 — unit names resolve deterministically: exact names first, then prefix + unit + plural.

Oracle: spelling tables and the decomposition rule computed by R from the definition files.
"""
from __future__ import annotations

import json
import os
import random
import subprocess
import sys
from fractions import Fraction

from hypothesis import strategies as st

from .. import env
from ..core import Collector, Skip, Violation, attempt, exc_class, hyp_search, khash, shard

PROPERTY = "C08"
LEVEL = "exploration"
RULE = ("cross: every string p+u+s (p over '' and the 72 prefix spellings, u over the ~900 unit spellings, s in {'', 's'}: ~1.3e5 strings, "
        "exhaustive) looked up in a registry; expected from R: exact spelling -> that unit; one reading -> prefix.name+unit.name, "
        "prefix.symbol+unit.symbol and (on a stride) the prefix value applied once; several readings -> the answer is one of them; offset "
        "units refuse prefixes. nonunits: mutated spellings and random identifiers must raise UndefinedUnitError unless R finds a reading. "
        "casei: case variants with case_sensitive=False per call and per registry, plus a cross-process determinism probe under 4 hash seeds. "
        "delta: compound strings with offset units x as_delta/default_as_delta. history: random lookup sequences, every answer compared with a "
        "fresh registry's. Non-trivial = non-empty prefix or plural whose stem is also part of another spelling, or >= 2 syntactic decompositions, "
        "or a case variant / mutated string; distinct = distinct string (or history)")
ASSUMPTIONS = ["R's spelling tables are read correctly from the definition files",
               "the statement does not rank several genuine readings of one string; only membership and determinism are asserted there"]
MIN_COUNTS = {"quick": {"cross": {"one_reading": 100000, "ambiguous": 300, "exact": 800}, "nonunits": {"rejected_expected": 500},
                        "history": {"_evaluations": 100}}}


def tasks(tier, seed):
    t = [{"sub": "cross", "shard": i, "nshard": 12} for i in range(12)]
    t += [{"sub": "nonunits", "shard": i} for i in range(2)]
    t += [{"sub": "casei", "shard": i, "nshard": 2} for i in range(2)]
    t += [{"sub": "casei_xproc", "shard": 0}, {"sub": "late", "shard": 0}]
    t += [{"sub": "delta", "shard": 0}]
    t += [{"sub": "history", "shard": i} for i in range(4)]
    return t


# ------------------------------------------------------------------------------------- oracle helpers

def _unit_symbol(R, c):
    return R.units[c].symbol or c


def _prefix_symbol(R, p):
    return (R.prefixes[p].symbol or p) if p else ""


def expected(R, s):
    """('exact', canon) | ('readings', [(p,u)...]) | ('none',)"""
    if s in R.spell:
        return ("exact", R.spell[s])
    rs = R.readings(s)
    if not rs:
        return ("none",)
    return ("readings", rs)


def _lookup(ureg, s, **kw):
    return attempt(ureg.get_name, s, **kw)


def check_string(ureg, R, s, *, deep=False, fraction_reg=None):
    import pint

    exp = expected(R, s)
    st_, name = _lookup(ureg, s)
    if exp[0] == "none":
        if st_ == "ok":
            raise Violation("accepted_string_without_reading", f"get_name({s!r}) = {name!r}, R finds no decomposition")
        if not isinstance(name, pint.UndefinedUnitError):
            raise Violation(f"wrong_exception_for_unknown:{exc_class(name)}", f"get_name({s!r}) raised {type(name).__name__}: {name}")
        s2, v2 = attempt(ureg.parse_units, s)
        # (parse_units goes through the expression parser, which reads nan / inf in any case as numbers: "a unit expression
        # cannot have a scaling factor" is then the rejection)
        if s2 == "ok" or not (isinstance(v2, pint.UndefinedUnitError) or (s.lower() in ("nan", "inf") and isinstance(v2, ValueError))):
            raise Violation("parse_units_accepts_unknown", f"parse_units({s!r}) -> {v2!r}")
        s3, v3 = attempt(lambda: s in ureg)
        if s3 == "ok" and v3:
            raise Violation("contains_accepts_unknown", f"{s!r} in ureg")
        if s3 == "err" and not (s.lower() in ("nan", "inf") and isinstance(v3, ValueError)):
            raise Violation(f"contains_raised:{exc_class(v3)}", f"{s!r} in ureg raised {v3!r}")
        return "none"
    if exp[0] == "exact":
        c = exp[1]
        if st_ == "err" or name != c:
            raise Violation("exact_spelling_not_first", f"get_name({s!r}) = {name!r}, the definition says {c!r}")
        sy = attempt(ureg.get_symbol, s)
        if sy != ("ok", _unit_symbol(R, c)):
            raise Violation("wrong_symbol_for_exact_spelling", f"get_symbol({s!r}) = {sy[1]!r}, definition {_unit_symbol(R, c)!r}")
        if deep:
            s_, u = attempt(ureg.parse_units, s)
            if s_ == "err":
                raise Violation(f"written_spelling_not_parseable:{exc_class(u)}", f"parse_units({s!r}) raised {type(u).__name__}: {u}; the definitions give this spelling to {c!r}")
            if dict(u._units) != {c: 1}:
                raise Violation("parse_units_differs_from_get_name", f"parse_units({s!r}) = {dict(u._units)}")
            if s not in ureg:
                raise Violation("contains_rejects_known", f"{s!r} not in ureg")
        return "exact"
    rs = exp[1]
    kinds = {R.units[u].kind for p, u in rs}
    prefixed_nonmult = [(p, u) for p, u in rs if p and R.units[u].kind in ("offset", "log")]
    if st_ == "err":
        if isinstance(name, pint.OffsetUnitCalculusError) and prefixed_nonmult:
            return "refused_prefixed_offset"
        raise Violation(f"rejected_string_with_reading:{exc_class(name)}", f"get_name({s!r}) raised {type(name).__name__}: {name}; R reads {rs}")
    names = {p + u: (p, u) for p, u in rs}
    if name not in names:
        raise Violation("answer_not_a_reading", f"get_name({s!r}) = {name!r}, readings {rs}")
    p, u = names[name]
    if p and R.units[u].kind == "offset":
        raise Violation("offset_unit_prefixed", f"get_name({s!r}) = {name!r}: an offset unit accepted a prefix")
    sy = attempt(ureg.get_symbol, s)
    if len(rs) == 1:
        want = _prefix_symbol(R, p) + _unit_symbol(R, u)
        if sy != ("ok", want):
            raise Violation("wrong_symbol_for_prefixed", f"get_symbol({s!r}) = {sy[1]!r}, definitions give {want!r}")
    if deep:
        un = ureg.parse_units(s)
        if dict(un._units) != {name: 1}:
            raise Violation("parse_units_differs_from_get_name", f"parse_units({s!r}) = {dict(un._units)} vs {name!r}")
        if s not in ureg:
            raise Violation("contains_rejects_known", f"{s!r} not in ureg")
        if R.units[u].kind in ("base", "scale") and fraction_reg is not None:
            got = fraction_reg.convert(1, s, u)
            want = R.prefixes[p].value if p else Fraction(1)
            r = R.resolve(u)
            if r.tainted or r.irrational:
                ok = abs(float(got) / float(want) - 1) < 1e-12
            else:
                ok = got == want
            if not ok:
                raise Violation("prefix_not_applied_once", f"1 {s} = {got} {u}, prefix value {want}")
    return "one_reading" if len(rs) == 1 else "ambiguous"


# ------------------------------------------------------------------------------------- cross product

def case_cross(case):
    R = env.R()
    ureg = _cross_registry()
    return check_string(ureg, R, case["s"], deep=case.get("deep", False), fraction_reg=env.ureg("Fraction"))


_CR = []


def _cross_registry():
    if not _CR:
        _CR.append(env.fresh("float"))
    return _CR[0]


def run_cross(task, tier, seed, col):
    R = env.R()
    spells = sorted(s for s in R.spell if "%" not in s and "‰" not in s)
    prefixes = [""] + sorted(R.pspell)
    mine = shard(spells, task["shard"], task["nshard"])
    deep_stride = 9 if tier == "quick" else 2
    for u in mine:
        for p in prefixes:
            for suf in ("", "s"):
                s = p + u + suf
                h = khash((s, seed))
                deep = h % deep_stride == 0 or not (p or suf)  # every spelling written in the definitions also goes through parse_units / in
                exp = expected(R, s)
                cls = exp[0] if exp[0] != "readings" else ("one_reading" if len(exp[1]) == 1 else "ambiguous")
                # non-trivial: a prefix or plural, or a string with several syntactic decompositions
                nt = bool(p or suf)
                col.case(("x", s), nt, sample={"string": s, "R": [cls] + ([list(map(list, exp[1]))] if exp[0] == "readings" else [exp[1]] if exp[0] == "exact" else [])},
                         cls=cls)
                if deep:
                    col.count("deep")
                col.run_case(case_cross, {"s": s, "deep": deep})
    col.exhaustive = True


# ------------------------------------------------------------------------------------- non-unit strings

def _nonunit_strategy():
    R = env.R()
    spells = sorted(s for s in R.spell if "%" not in s and "‰" not in s and s.isidentifier())
    prefixes = sorted(R.pspell)
    letters = "abcdefghijklmnopqrstuvwxyzABCDEFGHIKMNPQRSTUVWXYZ_"

    @st.composite
    def strat(draw):
        mode = draw(st.sampled_from(["mutate", "mutate", "double_prefix", "random", "plural2", "prefix_only"]))
        base = draw(st.sampled_from(spells))
        if mode == "mutate":
            i = draw(st.integers(0, len(base) - 1))
            op = draw(st.sampled_from(["del", "ins", "sub", "swapcase"]))
            if op == "del" and len(base) > 1:
                s = base[:i] + base[i + 1:]
            elif op == "ins":
                s = base[:i] + draw(st.sampled_from(letters)) + base[i:]
            elif op == "sub":
                s = base[:i] + draw(st.sampled_from(letters)) + base[i + 1:]
            else:
                s = base[:i] + base[i].swapcase() + base[i + 1:]
            if draw(st.booleans()):
                s = draw(st.sampled_from(prefixes)) + s
        elif mode == "double_prefix":
            s = draw(st.sampled_from(prefixes)) + draw(st.sampled_from(prefixes)) + base
        elif mode == "plural2":
            s = base + draw(st.sampled_from(["ss", "es", "S", "s_"]))
        elif mode == "prefix_only":
            s = draw(st.sampled_from(prefixes)) + draw(st.sampled_from(["", "s"]))
        else:
            s = draw(st.text(alphabet=letters, min_size=1, max_size=10))
        return {"s": s}

    # names with a leading underscore / trailing dunder belong to Python's attribute protocol (getattr_maybe_raise)
    return strat().filter(lambda c: c["s"].isidentifier() and not c["s"].startswith("_") and not c["s"].endswith("__")
                          and c["s"] not in ("dimensionless", "inf", "nan"))


def case_nonunit(case, col=None):
    R = env.R()
    s = case["s"]
    exp = expected(R, s)
    if col is not None:
        col.case(("n", s), True, sample={"string": s, "R": exp[0]}, cls="rejected_expected" if exp[0] == "none" else "has_reading")
    ureg = _cross_registry()
    # known finding C08/double-prefix: units that pint itself registered as 'prefix+unit' become stems for one more prefix
    if exp[0] == "none":
        for p in [""] + list(R.pspell):
            rest = s[len(p):] if s.startswith(p) and p else None
            if rest:
                for suf in ("", "s"):
                    stem = rest[: len(rest) - len(suf)] if suf and rest.endswith("s") else (rest if not suf else None)
                    if stem and stem not in R.spell and len(R.readings(stem)) >= 1 and all(q for q, _ in R.readings(stem)):
                        st_, name = _lookup(ureg, s)
                        if st_ == "ok":
                            raise Violation("double_prefix_accepted", f"get_name({s!r}) = {name!r}: {p!r} + already prefixed {stem!r}")
    check_string(ureg, R, s, deep=True, fraction_reg=env.ureg("Fraction"))


def run_nonunits(task, tier, seed, col):
    n = 1500 if tier == "quick" else 30000
    hyp_search(col, _nonunit_strategy(), lambda c: case_nonunit(c, col), max_examples=n, seed=seed * 3 + task["shard"])


# ------------------------------------------------------------------------------------- case-insensitive lookup

def _variants(s):
    out = []
    for v in (s.lower(), s.upper(), s.swapcase(), s.title()):
        if v != s and v not in out:
            out.append(v)
    return out


def case_casei(case):
    import pint

    R = env.R()
    s, mode = case["s"], case["mode"]
    if mode == "registry":
        ureg = env.ureg("float", case_sensitive=False)
        look = lambda: ureg.get_name(s)  # noqa: E731
    else:
        ureg = _cross_registry()
        look = lambda: ureg.get_name(s, case_sensitive=False)  # noqa: E731
    st_, name = attempt(look)
    if s in R.spell:
        if (st_, name) != ("ok", R.spell[s]):
            raise Violation("casei:exact_case_spelling_not_first", f"get_name({s!r}, ci) = {name!r}, definition {R.spell[s]!r}")
        return
    rs = R.readings_ci(s)
    if not rs:
        if st_ == "ok":
            raise Violation("casei:accepted_string_without_reading", f"get_name({s!r}, ci) = {name!r}")
        if not isinstance(name, pint.UndefinedUnitError):
            raise Violation(f"casei:wrong_exception:{exc_class(name)}", f"{s!r}: {name!r}")
        return
    if st_ == "err":
        if isinstance(name, pint.OffsetUnitCalculusError) and any(p and R.units[u].kind in ("offset", "log") for p, u in rs):
            return
        raise Violation(f"casei:rejected_string_with_reading:{exc_class(name)}", f"get_name({s!r}, ci) raised {name!r}; readings {rs}")
    if name not in {p + u for p, u in rs}:
        raise Violation("casei:answer_not_a_reading", f"get_name({s!r}, ci) = {name!r}, readings {rs}")
    if mode == "registry":
        # every entry point that takes a unit string follows the registry's setting, not only the parser proper
        for tag, fn in (("Unit", lambda: next(iter(ureg.Unit(s)._units))), ("Quantity", lambda: next(iter(ureg.Quantity(1, s)._units))), ("to", lambda: next(iter(ureg.Quantity(1, name).to(s)._units))),
                        ("m_as", lambda: (ureg.Quantity(1, name).m_as(s), name)[1]), ("convert", lambda: (ureg.convert(1, s, name), name)[1]), ("get_root_units", lambda: (ureg.get_root_units(s), name)[1]),
                        ("get_dimensionality", lambda: (ureg.get_dimensionality(s), name)[1]), ("is_compatible_with", lambda: name if ureg.Quantity(1, name).is_compatible_with(s) else "incompatible")):
            s2, r2 = attempt(fn)
            if s2 == "err" and isinstance(r2, pint.OffsetUnitCalculusError):
                continue
            if s2 == "err" or r2 != name:
                raise Violation(f"casei:entry_point_ignores_registry_setting:{tag}", f"case_sensitive=False registry: get_name({s!r}) = {name!r}, but {tag} with {s!r} -> {r2!r}")
    # and the default (case-sensitive) lookup must not accept it unless it has a case-sensitive reading
    if mode == "call":
        st2, n2 = attempt(ureg.get_name, s)
        has = bool(R.readings(s))
        if st2 == "ok" and not has:
            raise Violation("case_sensitive_lookup_accepts_case_variant", f"get_name({s!r}) = {n2!r} without case_sensitive=False")


def run_casei(task, tier, seed, col):
    R = env.R()
    spells = sorted(s for s in R.spell if "%" not in s and "‰" not in s)
    prefixes = [""] + sorted(R.pspell)
    rnd = random.Random(seed * 5 + task["shard"])
    for u in shard(spells, task["shard"], task["nshard"]):
        for v in _variants(u):
            for p in [""] + rnd.sample(prefixes[1:], 2 if tier == "quick" else 8):
                for suf in ("", "s"):
                    s = p + v + suf
                    mode = "registry" if khash((s, "m")) % 2 else "call"
                    rs = R.readings_ci(s)
                    col.case(("ci", s, mode), True, sample={"string": s, "mode": mode, "ci_readings": len(rs)},
                             cls="ci_ambiguous" if len(rs) > 1 else ("ci_one" if rs else "ci_none"))
                    col.run_case(case_casei, {"s": s, "mode": mode})


# ---- spellings added later (@alias, define): every spelling table, incl. the case-insensitive one, knows them

LATE_SPELLINGS = [("@alias angstrom = angstroem", "angstroem", "angstrom"), ("@alias meter = metro_x", "metro_x", "meter"), ("smoot = 1.7018 * meter = smt", "smoot", "smoot"),
                  ("@alias second = sekunde = sek_x", "sek_x", "second")]


def case_late(case, col=None):
    import pint

    line, sp, canon = LATE_SPELLINGS[case["i"] % len(LATE_SPELLINGS)]
    how, ci = case["how"], case["ci"]
    if col is not None:
        col.case(("late", line, how, ci), True, sample={"definition": line, "loaded": how, "case_sensitive": not ci}, cls=("ci" if ci else "cs") + ":" + how)
    if how == "define":
        ureg = pint.UnitRegistry(case_sensitive=not ci)
        ureg.define(line)
    else:
        ureg = pint.UnitRegistry(case_sensitive=not ci)
        ureg.load_definitions([line])
    want = {sp: canon, "kilo" + sp: "kilo" + canon, sp + "s": canon, "k" + sp if False else "milli" + sp + "s": "milli" + canon}
    if ci:
        # (case-insensitive lookup folds the case of unit spellings; prefixes keep their case)
        want.update({sp.upper(): canon, sp.capitalize(): canon, "kilo" + sp.upper(): "kilo" + canon, "milli" + sp.capitalize() + "s": "milli" + canon})
    for q, w in want.items():
        s_, n = attempt(ureg.get_name, q)
        if s_ == "err" or n != w:
            raise Violation(f"late_spelling_not_resolved:{'ci' if ci else 'cs'}", f"after {line!r} ({how}), get_name({q!r}) (case_sensitive={not ci}) -> {n!r}, expected {w!r}")
        s_, u = attempt(ureg.parse_units, q)
        if s_ == "err" or dict(u._units) != {w: 1}:
            raise Violation(f"late_spelling_not_parsed:{'ci' if ci else 'cs'}", f"after {line!r} ({how}), parse_units({q!r}) -> {u!r}")
    if not ci:
        for q in (sp.upper(), sp.capitalize()):
            s_, n = attempt(ureg.get_name, q)
            if s_ == "ok" and q not in (sp,):
                raise Violation("case_sensitive_lookup_accepts_case_variant:late", f"get_name({q!r}) = {n!r}")


def run_late(task, tier, seed, col):
    for i in range(len(LATE_SPELLINGS)):
        for how in ("define", "load"):
            for ci in (False, True):
                col.run_case(lambda c: case_late(c, col), {"i": i, "how": how, "ci": ci})
    col.exhaustive = True


_XPROC_CODE = r"""
import json, sys, logging
logging.disable(logging.CRITICAL)
import pint
u = pint.UnitRegistry(case_sensitive=False)
out = {}
for s in json.load(sys.stdin):
    try:
        out[s] = u.get_name(s)
    except Exception as e:
        out[s] = "!" + type(e).__name__
print(json.dumps(out))
"""


def case_xproc(case):
    """The same strings resolved in fresh interpreters under different hash seeds must give the same answers."""
    strings = case["strings"]
    answers = []
    for hs in case["hashseeds"]:
        envv = dict(os.environ)
        envv["PYTHONHASHSEED"] = str(hs)
        p = subprocess.run([sys.executable, "-c", _XPROC_CODE], input=json.dumps(strings), capture_output=True, text=True, env=envv, timeout=300)
        if p.returncode != 0:
            raise RuntimeError(p.stderr[-500:])
        answers.append(json.loads(p.stdout))
    for s in strings:
        vals = {a[s] for a in answers}
        if len(vals) > 1:
            raise Violation("casei:answer_depends_on_hash_seed", f"get_name({s!r}, case-insensitive registry) gives {sorted(vals)} under PYTHONHASHSEED {case['hashseeds']}")


def run_casei_xproc(task, tier, seed, col):
    R = env.R()
    amb = []
    seen = set()
    for u in sorted(R.spell):
        for v in [u] + _variants(u):
            if v in seen or v in R.spell:
                continue
            seen.add(v)
            rs = R.readings_ci(v)
            if len({c for _, c in rs}) > 1 and all(not p for p, _ in rs):
                amb.append(v)
    amb = sorted(amb)
    col.count("ambiguous_ci_strings", len(amb))
    col.case(("xproc", len(amb)), True, sample={"strings": amb[:12], "hashseeds": [0, 1, 2, 3]})
    col.case(("xproc2", len(amb)), True)
    col.run_case(case_xproc, {"strings": amb, "hashseeds": [0, 1, 2, 3]})


# ------------------------------------------------------------------------------------- offset units in compound strings

def case_delta(case):
    """In a compound expression offset units are read as their delta counterparts unless disabled; alone they stay."""
    R = env.R()
    expr, off, other, form = case["expr"], case["off"], case["other"], case["form"]
    as_delta, default = case["as_delta"], case["default_as_delta"]
    ureg = env.ureg("float", default_as_delta=default) if not default else env.ureg("float")
    canon_off = R.spell[off]
    eff = as_delta if as_delta is not None else default
    kw = {} if as_delta is None else {"as_delta": as_delta}
    st_, u = attempt(ureg.parse_units, expr, **kw)
    if st_ == "err":
        raise Violation(f"delta:parse_raised:{exc_class(u)}", f"parse_units({expr!r},{kw}) raised {u!r}")
    got = dict(u._units)
    single = form == "single"
    want_name = canon_off if (single or not eff) else "delta_" + canon_off
    if want_name not in got:
        raise Violation("delta:wrong_reading_of_offset_unit",
                        f"parse_units({expr!r},{kw}) with default_as_delta={default} = {got}; expected {want_name!r}")
    other_name = "delta_" + canon_off if want_name == canon_off else canon_off
    if other_name in got:
        raise Violation("delta:both_readings", f"{got}")
    # the Quantity constructor and parse_expression follow the registry default
    if as_delta is None:
        q = ureg.Quantity(2, expr)
        want2 = canon_off if (single or not default) else "delta_" + canon_off
        if want2 not in dict(q._units):
            raise Violation("delta:Quantity_constructor", f"Quantity(2,{expr!r}) default_as_delta={default} -> {dict(q._units)}")
        # ... and so do the entry points that take a unit string as a target
        import pint

        for tag, fn in (("to", lambda: dict(q.to(expr)._units)), ("ito", lambda: (lambda q2: (q2.ito(expr), dict(q2._units))[1])(ureg.Quantity(2, expr))), ("convert", lambda: (ureg.convert(2, expr, expr), dict(q._units))[1]),
                        ("m_as", lambda: (q.m_as(expr), dict(q._units))[1])):
            s2, r2 = attempt(fn)
            if s2 == "err" and isinstance(r2, pint.OffsetUnitCalculusError):
                continue
            if s2 == "err" or r2 != dict(q._units):
                raise Violation(f"delta:entry_point_ignores_registry_setting:{tag}", f"default_as_delta={default}: Quantity(2,{expr!r}) has units {dict(q._units)}; {tag}({expr!r}) -> {r2!r}")


def run_delta(task, tier, seed, col):
    R = env.R()
    offs = [s for s, c in R.spell.items() if R.units[c].kind == "offset" and s.isidentifier()]
    others = ["meter", "s", "kg", "hour"]
    forms = {"single": "{o}", "per": "{o}/{x}", "mul": "{o}*{x}", "inv": "1/{o}", "pow": "{o}**2", "rmul": "{x}*{o}", "jux": "{o} {x}"}
    for o in offs:
        for fname, f in forms.items():
            for x in others[: 2 if tier == "quick" else 4]:
                expr = f.format(o=o, x=x)
                for as_delta in (None, True, False):
                    for default in (True, False):
                        col.case(("d", expr, as_delta, default), fname != "single",
                                 sample={"expr": expr, "as_delta": as_delta, "default_as_delta": default}, cls=fname)
                        col.run_case(case_delta, {"expr": expr, "off": o, "other": x, "form": fname, "as_delta": as_delta, "default_as_delta": default})
    col.exhaustive = tier == "thorough"


# ------------------------------------------------------------------------------------- histories

OPS = ("get_name", "get_symbol", "parse_units", "getattr", "contains", "parse_unit_name", "parse_expression")


def _answer(ureg, op, s):
    try:
        if op == "get_name":
            return ("ok", ureg.get_name(s))
        if op == "get_symbol":
            return ("ok", ureg.get_symbol(s))
        if op == "parse_units":
            return ("ok", tuple(sorted((k, str(v)) for k, v in ureg.parse_units(s)._units.items())))
        if op == "getattr":
            return ("ok", tuple(sorted((k, str(v)) for k, v in getattr(ureg, s)._units.items())))
        if op == "contains":
            return ("ok", s in ureg)
        if op == "parse_unit_name":
            return ("ok", tuple(ureg.parse_unit_name(s)))
        if op == "parse_expression":
            q = ureg.parse_expression("3 " + s)
            return ("ok", (q.magnitude, tuple(sorted((k, str(v)) for k, v in q._units.items()))))
    except Exception as e:  # noqa: BLE001
        return ("err", type(e).__name__)
    raise ValueError(op)


_FRESH_CACHE = {}


def _fresh_answer(op, s):
    """Answer of a registry that has seen no other query (one fresh registry per distinct query, memoised)."""
    k = (op, s)
    if k not in _FRESH_CACHE:
        _FRESH_CACHE[k] = _answer(env.fresh("float"), op, s)
    return _FRESH_CACHE[k]


def case_history(case, col=None):
    ureg = env.fresh("float")
    hist = case["ops"]
    for i, (op, s) in enumerate(hist):
        got = _answer(ureg, op, s)
        want = _fresh_answer(op, s)
        if got != want:
            prev = [h for h in hist[:i]]
            R = env.R()
            klass = f"lookup_depends_on_history:{op}"
            # narrow class of the known finding: one more prefix on top of a prefixed unit that an earlier lookup registered
            if not R.readings(s) and s not in R.spell:
                for _, t in prev:
                    if s.endswith(t) and s[: len(s) - len(t)] in R.pspell and t not in R.spell and R.readings(t) and all(p for p, _ in R.readings(t)):
                        klass = "double_prefix_accepted_after_lookup"
            raise Violation(klass, f"after {prev[-4:]}: {op}({s!r}) = {got}, a fresh registry answers {want}")


def _history_strategy(pool_seed=0, pool_size=30):
    """Lookup histories over a bounded pool of strings (so that fresh-registry answers are shared between cases)."""
    R = env.R()
    rnd = random.Random(pool_seed)
    spells = sorted(s for s in R.spell if s.isidentifier())
    mult = [s for s in spells if R.units[R.spell[s]].kind in ("base", "scale")]
    prefixes = sorted(R.pspell)
    syms = sorted({u.symbol for u in R.units.values() if u.symbol and u.symbol.isidentifier()})
    psym = sorted({p.symbol for p in R.prefixes.values() if p.symbol})
    # defined names that also read as prefix+unit (milliarcsecond, kilometer_per_second, ...)
    forced = [s for s in spells if any(p for p, _ in R.readings(s))]
    pool = []  # entries: list of 1 or 2 strings that are asked consecutively
    for _ in range(pool_size):
        mode = rnd.choice(["spelling", "prefixed", "symbolic", "plural", "double", "double", "exact_symbol", "forced", "forced_plural"])
        u = rnd.choice(mult)
        if mode == "spelling":
            pool.append([u])
        elif mode == "prefixed":
            pool.append([rnd.choice(prefixes) + u])
        elif mode == "symbolic":
            pool.append([rnd.choice(psym) + rnd.choice(syms)])
        elif mode == "plural":
            pool.append([rnd.choice([""] + prefixes) + u + "s"])
        elif mode == "exact_symbol":
            pool.append([rnd.choice(syms)])
        elif mode == "forced":
            pool.append([rnd.choice(forced)])
        elif mode == "forced_plural":
            pool.append([rnd.choice(forced) + "s", rnd.choice(forced)])
        else:  # a valid prefixed unit, then one more prefix on top of it
            inner = rnd.choice(prefixes) + u
            pool.append([inner, rnd.choice(prefixes) + inner])
    ops = ("get_name", "get_symbol", "parse_units", "contains", "parse_expression")
    step = st.tuples(st.sampled_from(pool), st.sampled_from(ops), st.sampled_from(ops))
    return st.builds(lambda steps: {"ops": [[(o1 if i == 0 else o2), s] for strings, o1, o2 in steps for i, s in enumerate(strings)]},
                     st.lists(step, min_size=2, max_size=8))


def run_history(task, tier, seed, col):
    def chk(case):
        col.case(("h", json.dumps(case["ops"])), True, sample=case)
        case_history(case)

    n = 60 if tier == "quick" else 1500
    hyp_search(col, _history_strategy(seed * 13 + task["shard"], 24 if tier == "quick" else 120), chk, max_examples=n,
               seed=seed * 11 + task["shard"], shrink_budget_s=60)


# ------------------------------------------------------------------------------------- dispatch

def run_task(task, tier, seed, col):
    {"cross": run_cross, "nonunits": run_nonunits, "casei": run_casei, "casei_xproc": run_casei_xproc, "delta": run_delta,
     "history": run_history, "late": run_late}[task["sub"]](task, tier, seed, col)


def replay(sub, case):
    return {"cross": case_cross, "nonunits": case_nonunit, "casei": case_casei, "casei_xproc": case_xproc, "delta": case_delta,
            "history": case_history, "late": case_late}[sub](case)
