"""C09 — every textual format denotes the unit exactly; plain-text formats round-trip.

Oracles: (1) per-layout structural parsers written for this check (inverse of the documented layouts D, C, P, H, L, Lx) giving a
multiset of (display name, exponent, numerator|denominator); (2) round-trip through parse_units / parse_expression; (3) no
formatting call raises or alters the object.
"""
from __future__ import annotations

import re
from decimal import Decimal
from fractions import Fraction

from hypothesis import strategies as st

from .. import env
from ..core import Collector, Skip, Violation, attempt, exc_class, hyp_search, khash, shard

PROPERTY = "C09"
LEVEL = "exploration"
RULE = ("units: every canonical unit of R x {'',D,C,P,H,L,Lx} x {long, ~} at exponents {1,2,-1} and paired with /second**2 (exhaustive): the rendered "
        "text is parsed back by a layout-specific structural parser and must list exactly the unit's names or symbols with their exponents in the "
        "right position; D/C/P renderings must parse back (parse_units) to an equal unit. compound: Hypothesis compound units (1-4 factors, integer and "
        "fractional exponents) in float/Decimal/Fraction registries. quantity: magnitudes of every numeric type x magnitude specs; str(q)/format "
        "round-trips through parse_expression; '#' equals formatting q.to_compact(). settings: default_format changes are honoured by long-lived "
        "objects, sort functions only permute. Non-trivial = >= 2 factors with a negative exponent, a non-identifier symbol, or a non-integer exponent; "
        "distinct = distinct (unit, spec, registry)")
ASSUMPTIONS = ["symbols ('~') round-trip is only required when R reads the symbol string back as the same (prefix, unit); 82 symbols collide with other spellings by design of the definition file",
               "Babel-localised formatting is not part of the statement"]
MIN_COUNTS = {"quick": {"units": {"_evaluations": 10000, "roundtrip_checked": 3000}}}

SPECS = ["", "D", "C", "P", "H", "L", "Lx"]
SUP = {"⁰": "0", "¹": "1", "²": "2", "³": "3", "⁴": "4", "⁵": "5", "⁶": "6", "⁷": "7", "⁸": "8", "⁹": "9", "⁻": "-", "⋅": "."}


def tasks(tier, seed):
    t = [{"sub": "units", "shard": i, "nshard": 8} for i in range(8)]
    t += [{"sub": "compound", "nit": nit, "shard": i} for i, nit in enumerate(["float", "Fraction", "Decimal"])]
    t += [{"sub": "quantity", "nit": nit, "shard": i} for i, nit in enumerate(["float", "Fraction", "Decimal"])]
    t += [{"sub": "settings", "shard": 0}]
    return t


# ------------------------------------------------------------------------------------- structural parsers

class ParseFail(Exception):
    pass


def _num(s):
    s = s.strip()
    try:
        return Fraction(s)
    except (ValueError, ZeroDivisionError):
        raise ParseFail(f"bad exponent {s!r}")


def _term_plain(t, power_sep):
    t = t.strip()
    if power_sep in t:
        name, e = t.split(power_sep, 1)
        return name.strip(), _num(e)
    return t, Fraction(1)


def parse_DC(text, spec):
    """'a * b ** 2 / c / d ** 2'  (D)  or  'a*b**2/c/d**2'  (C)"""
    if text in ("", "dimensionless"):
        return []
    mul, div, pw = (" * ", " / ", " ** ") if spec in ("", "D") else ("*", "/", "**")
    if spec == "C":
        # '**' contains '*': protect it
        text = text.replace("**", "^")
        pw = "^"
    parts = text.split(div)
    out = []
    num = parts[0]
    if num.strip() != "1":
        for t in num.split(mul):
            n, e = _term_plain(t, pw)
            out.append((n, e, "num"))
    for p in parts[1:]:
        if mul in p:
            raise ParseFail(f"product inside a denominator term {p!r}")
        n, e = _term_plain(p, pw)
        out.append((n, e, "den"))
    return out


def _split_sup(t):
    m = re.match(r"^(.*?)([⁰¹²³⁴⁵⁶⁷⁸⁹⁻⋅]+)$", t)
    if not m:
        return t, Fraction(1)
    return m.group(1), _num("".join(SUP[c] for c in m.group(2)))


def parse_P(text):
    if text in ("", "dimensionless"):
        return []
    parts = text.split("/")
    out = []
    if parts[0] != "1":
        for t in parts[0].split("·"):
            n, e = _split_sup(t)
            out.append((n, e, "num"))
    for p in parts[1:]:
        if "·" in p:
            raise ParseFail("product inside a denominator term")
        n, e = _split_sup(p)
        out.append((n, e, "den"))
    return out


def parse_H(text):
    if text in ("", "dimensionless"):
        return []
    # <sup>x</sup> -> ^{x} so that '/' only denotes the division
    text = re.sub(r"<sup>([^<]*)</sup>", lambda m: "^{" + m.group(1) + "}", text)

    def terms(s, pos):
        out = []
        for t in s.split():
            m = re.match(r"^(.*?)\^\{(.*)\}$", t)
            if m:
                out.append((m.group(1), _num(m.group(2)), pos))
            else:
                out.append((t, Fraction(1), pos))
        return out

    if "/" in text:
        num, den = text.split("/", 1)
        if "/" in den:
            raise ParseFail("two division signs")
        if den.startswith("(") and den.endswith(")"):
            den = den[1:-1]
        elif " " in den.strip():
            raise ParseFail("several denominator terms without parentheses")
        return (terms(num, "num") if num.strip() != "1" else []) + terms(den, "den")
    return terms(text, "num")


def _latex_unescape(s):
    return s.replace(r"\_", "_").replace(r"\%", "%").replace(r"\&", "&").replace(r"\#", "#").replace(r"\$", "$").replace(r"\textasciitilde{}", "~")


def parse_L(text):
    if text in ("", "dimensionless"):
        return []
    def terms(s, pos):
        s = s.strip()
        if s.startswith(r"\left(") and s.endswith(r"\right)"):
            s = s[len(r"\left("):-len(r"\right)")]
        out = []
        for t in s.split(r" \cdot "):
            m = re.match(r"^\\mathrm\{([^{}]*)\}(?:\^\{([^{}]*)\})?$", t.strip())
            if not m:
                raise ParseFail(f"latex term {t!r}")
            out.append((_latex_unescape(m.group(1)), _num(m.group(2)) if m.group(2) is not None else Fraction(1), pos))
        return out
    m = re.match(r"^\\frac\{(.*)\}\{(.*)\}$", text)
    if m:
        # split at the top-level '}{'
        depth = 0
        body = text[len(r"\frac{"):-1]
        for i, ch in enumerate(body):
            if ch == "{":
                depth += 1
            elif ch == "}":
                if depth == 0:
                    num, den = body[:i], body[i + 2:]
                    break
                depth -= 1
        else:
            raise ParseFail("frac")
        return (terms(num, "num") if num.strip() != "1" else []) + terms(den, "den")
    return terms(text, "num")


def parse_Lx(text, prefix_names):
    m = re.match(r"^\\si\[\]\{(.*)\}$", text)
    if not m:
        raise ParseFail("no \\si[]{}")
    toks = re.findall(r"\\[^\\{}]+(?:\{[^}]*\})?", m.group(1))
    out = []
    i = 0
    while i < len(toks):
        pos = "num"
        if toks[i] == r"\per":
            pos = "den"
            i += 1
        if i >= len(toks):
            raise ParseFail("dangling \\per")
        name = toks[i][1:]
        i += 1
        if name in prefix_names and i < len(toks) and not toks[i].startswith((r"\squared", r"\cubed", r"\tothe", r"\per")):
            name += toks[i][1:]
            i += 1
        e = Fraction(1)
        if i < len(toks) and toks[i] == r"\squared":
            e, i = Fraction(2), i + 1
        elif i < len(toks) and toks[i] == r"\cubed":
            e, i = Fraction(3), i + 1
        elif i < len(toks) and toks[i].startswith(r"\tothe"):
            e = _num(toks[i][len(r"\tothe{"):-1])
            i += 1
        out.append(({"%": "percent", "\u2030": "permille"}.get(name, name), e, pos))
    return out


def structural(text, spec, prefix_names):
    base = spec.replace("~", "")
    if base in ("", "D", "C"):
        return parse_DC(text, base)
    if base == "P":
        return parse_P(text)
    if base == "H":
        return parse_H(text)
    if base == "L":
        return parse_L(text)
    if base == "Lx":
        return parse_Lx(text, prefix_names)
    raise ValueError(spec)


def expected_terms(ureg, units: dict, spec):
    """multiset of (display name, |exponent|, position) for a {canonical name: exponent} unit"""
    out = []
    for n, e in units.items():
        e = Fraction(e)
        disp = n
        if "~" in spec and "Lx" not in spec:
            # the symbol written in the definition files (independent reader), prefix symbol + unit symbol for prefixed units; the live
            # registry is only asked where the definitions do not decide (delta_ units, names with several readings)
            R_ = env.R()
            canon = _canon_of(R_, n)
            if canon is not None and canon[1] in R_.units:
                p_, c_ = canon
                disp = ((R_.prefixes[p_].symbol or p_) if p_ else "") + (R_.units[c_].symbol or c_)
            else:
                disp = ureg.get_symbol(n)
        out.append((disp, abs(e), "num" if e > 0 else "den"))
    return sorted(out)


def exponent_renders_exactly(e):
    e = Fraction(e)
    if e.denominator == 1:
        return True
    # 'n' presentation keeps 6 significant digits
    return Fraction(f"{float(e):n}") == e if "e" not in f"{float(e):n}" else False


# ------------------------------------------------------------------------------------- unit checks

def _register(ureg, units):
    """unit objects reach a formatter through parsing, which registers lazily built prefixed units (kilometer, ...); do the same"""
    for n in units:
        ureg.get_name(n)


def check_unit_format(ureg, R, units: dict, spec, nit, *, roundtrip=True, col=None):
    _register(ureg, units)
    U = ureg.Unit(ureg.UnitsContainer(dict(units)))
    before = dict(U._units)
    s, text = attempt(format, U, spec)
    if s == "err":
        raise Violation(f"format_raised:{spec.replace('~', '')}:{exc_class(text)}", f"format(Unit({units}), {spec!r}) raised {type(text).__name__}: {text}")
    if dict(U._units) != before:
        raise Violation("format_altered_unit", f"{units} {spec!r}")
    prefix_names = {p for p in R.prefixes}
    try:
        got = sorted(structural(text, spec, prefix_names))
    except ParseFail as pf:
        raise Violation(f"layout_not_parseable:{spec.replace('~', '')}", f"format(Unit({units}), {spec!r}) = {text!r}: {pf}")
    want = expected_terms(ureg, units, spec)
    base = spec.replace("~", "")
    if base == "Lx":
        # siunitx limits non-integer powers to 3 decimals
        got = [(n, e if e.denominator == 1 else Fraction(round(float(e), 3)).limit_denominator(1000), p) for n, e, p in got]
        want = [(n, e if e.denominator == 1 else Fraction(round(float(e), 3)).limit_denominator(1000), p) for n, e, p in want]
    elif not all(exponent_renders_exactly(e) for _, e, _ in want):
        got = [(n, round(float(e), 5), p) for n, e, p in got]
        want = [(n, round(float(e), 5), p) for n, e, p in want]
    if got != sorted(want):
        raise Violation(f"rendering_wrong:{base}{':short' if '~' in spec else ''}", f"format(Unit({units}), {spec!r}) = {text!r} denotes {got}, expected {sorted(want)}")
    if not roundtrip or base not in ("", "D", "C", "P"):
        return False
    if not all(exponent_renders_exactly(e) for e in units.values()):
        return False
    if base == "P" and any(Fraction(e).denominator != 1 for e in units.values()):
        return False
    if "~" in spec:
        # round trip of symbols only when every symbol reads back as the same unit
        for n in units:
            sym = ureg.get_symbol(n)
            canon = _canon_of(R, n)
            if canon is None:
                return False
            if R.spell.get(sym) != canon[1] or canon[0]:
                if sym in R.spell or len(R.readings(sym)) != 1 or R.readings(sym)[0] != canon:
                    return False
    if text == "":
        return False
    s, back = attempt(ureg.parse_units, text, as_delta=False)
    if s == "err":
        if base == "P" and "~" in spec and re.search(r"[%‰][⁰¹²³⁴⁵⁶⁷⁸⁹⁻]", text):
            # narrow class of a known finding: the symbols % and per-mille are rewritten to ' percent ' (with blanks) before parsing,
            # and a blank in front of a superscript is read as a multiplication
            raise Violation("roundtrip_refused:P:short:rewritten_symbol_with_superscript", f"parse_units({text!r}) raised {type(back).__name__}: {back}")
        raise Violation(f"roundtrip_refused:{base}{':short' if '~' in spec else ''}:{exc_class(back)}", f"parse_units({text!r}) (from Unit({units}), {spec!r}) raised {type(back).__name__}: {back}")
    if {k: Fraction(v) for k, v in back._units.items()} != {k: Fraction(v) for k, v in units.items()}:
        raise Violation(f"roundtrip_differs:{base}{':short' if '~' in spec else ''}", f"parse_units({text!r}) = {dict(back._units)}, original {units}")
    return True


def _canon_of(R, name):
    """(prefix, canonical unit) of a canonical or lazily prefixed unit name"""
    if name.startswith("delta_"):
        return None
    if name in R.units:
        return ("", name)
    rs = R.readings(name)
    return rs[0] if len(rs) == 1 else None


def case_unit(case):
    R = env.R()
    ureg = env.ureg("float")
    return check_unit_format(ureg, R, case["units"], case["spec"], "float")


def run_units(task, tier, seed, col):
    R = env.R()
    ureg = env.ureg("float")
    names = list(env.unit_names("all"))
    for n in shard(names, task["shard"], task["nshard"]):
        kind = R.units[n].kind
        shapes = [{n: 1}]
        if kind in ("base", "scale"):
            shapes += [{n: 2}, {n: -1}, {n: 1, "second": -2}] if n != "second" else [{n: 2}, {n: -1}]
        for units in shapes:
            for base in SPECS:
                for short in ("", "~"):
                    spec = short + base
                    sym = R.units[n].symbol or n
                    nt = len(units) > 1 or not sym.isidentifier() or any(e < 0 for e in units.values())
                    col.case(("u", str(units), spec), nt, sample={"unit": units, "spec": spec}, cls=base or "default")
                    try:
                        from ..core import call_checked

                        rt = call_checked(lambda c: check_unit_format(ureg, R, c["units"], c["spec"], "float"), {"units": units, "spec": spec})
                        if rt:
                            col.count("roundtrip_checked")
                    except Skip as sk:
                        col.count("skipped:" + sk.why)
                    except Violation as v:
                        col.violation({"units": units, "spec": spec}, v)
    col.exhaustive = True


# ------------------------------------------------------------------------------------- compound units

def _compound_strategy(nit):
    names = list(env.unit_names("mult"))
    if nit == "float":
        exps = st.one_of(st.integers(-4, 4).filter(bool), st.sampled_from([0.5, -0.5, 1.5, 0.25, 2.5, -1.5, 0.125, 1.75]), st.sampled_from([5, 6, 7, 8, 9, 10, 12, 19, -9, -10, 0.9, 36]))  # every digit occurs
    elif nit == "Decimal":
        exps = st.one_of(st.integers(-4, 4).filter(bool), st.sampled_from([Decimal("0.5"), Decimal("-1.5"), Decimal("0.25"), Decimal("2.5")]), st.sampled_from([5, 6, 7, 8, 9, 10, -9, 19]),
                          # integral exponents of the registry's own number type (what parsing 'm ** 10' or (m ** 5) ** 2 yields there)
                          st.sampled_from([Decimal("10"), Decimal("20"), Decimal("-10"), Decimal("100"), Decimal("30"), Decimal("3"), Decimal("2.0"), Decimal("-400")]))
    else:
        exps = st.one_of(st.integers(-4, 4).filter(bool), st.sampled_from([Fraction(1, 2), Fraction(-3, 2), Fraction(1, 4), Fraction(5, 2), Fraction(1, 3)]), st.sampled_from([5, 6, 7, 8, 9, 10, -9, 19, Fraction(9, 7), Fraction(10), Fraction(-20), Fraction(100)]))
    return st.builds(lambda u, spec, short: {"units": u, "spec": short + spec, "nit": nit},
                     st.dictionaries(st.sampled_from(names + ["kilometer", "millisecond", "microgram"]), exps, min_size=1, max_size=4), st.sampled_from(SPECS), st.sampled_from(["", "~"]))


def case_compound(case, col=None):
    R = env.R()
    nit = case["nit"]
    ureg = env.ureg(nit)
    units = case["units"]
    if col is not None:
        nt = len(units) >= 2 and any(Fraction(e) < 0 for e in units.values())
        col.case(("c", str(sorted(units.items(), key=str)), case["spec"], nit), nt or any(Fraction(e).denominator != 1 for e in units.values()),
                 sample={"units": {k: str(v) for k, v in units.items()}, "spec": case["spec"], "registry": nit}, cls=case["spec"].replace("~", "") or "default")
        if any(Fraction(e).denominator != 1 for e in units.values()):
            col.count("fractional_exponent")
    check_unit_format(ureg, R, units, case["spec"], nit)
    # a Quantity delegates to the same unit rendering and never fails either
    q = ureg.Quantity(1, ureg.UnitsContainer(dict(units)))
    for fn in (str, repr):
        s, t = attempt(fn, q)
        if s == "err":
            raise Violation(f"{fn.__name__}_raised:{exc_class(t)}", f"{fn.__name__}(Quantity(1,{units})) in the {nit} registry raised {t!r}")


def run_compound(task, tier, seed, col):
    hyp_search(col, _compound_strategy(task["nit"]), lambda c: case_compound(c, col), max_examples=700 if tier == "quick" else 12000, seed=seed * 151 + task["shard"])


# ------------------------------------------------------------------------------------- quantities

MSPECS = ["", ".3f", ".2e", "g", ".4g", "n", "10.2f", "+.1f", "e", ".0f"]


def _quantity_strategy(nit):
    names = ["meter", "second", "kilogram", "kelvin", "newton", "percent", "degree", "inch", "millisecond", "kilometer", "hertz", "joule", "radian"]
    if nit == "float":
        mags = st.one_of(st.integers(-10 ** 6, 10 ** 6), st.floats(-1e12, 1e12, allow_nan=False, allow_subnormal=False), st.sampled_from([1.5e-7, 2.5e9, 0.1, 1e-3, 123456.789, 1.5e-9, 2e19, 3.25e-18, 6.02e23, 1e-16, 4.5e15, 1e33, 2.5e40, 1e300, 1e-40, 3e-33, 1e-300]))
    elif nit == "Decimal":
        mags = st.one_of(st.integers(-10 ** 6, 10 ** 6), st.decimals(-10 ** 6, 10 ** 6, places=4, allow_nan=False))
    else:
        mags = st.one_of(st.integers(-10 ** 6, 10 ** 6), st.fractions(-1000, 1000, max_denominator=97))
    return st.builds(lambda u, m, ms, us, short, hashc: {"units": u, "m": m, "mspec": ms, "spec": short + us, "nit": nit, "compact": hashc},
                     st.dictionaries(st.sampled_from(names), st.integers(-3, 3).filter(bool), min_size=0, max_size=3), mags, st.sampled_from(MSPECS),
                     st.sampled_from(["", "D", "C", "P", "L"]), st.sampled_from(["", "~"]), st.booleans())


def case_quantity(case, col=None):
    nit = case["nit"]
    ureg = env.ureg(nit)
    units, m = case["units"], case["m"]
    _register(ureg, units)
    q = ureg.Quantity(m, ureg.UnitsContainer(dict(units)))
    snap = (q.magnitude, dict(q._units))
    if col is not None:
        col.case(("q", str(m), str(sorted(units.items())), case["mspec"], case["spec"], nit), bool(units) and (case["mspec"] != "" or nit != "float"),
                 sample={"magnitude": m, "units": units, "mspec": case["mspec"], "uspec": case["spec"], "registry": nit}, cls=case["spec"] or "default")
    mspec = case["mspec"] if nit == "float" or case["mspec"] in ("", ".3f", ".2e", "e", ".0f", "+.1f", "10.2f") else ""
    if isinstance(m, Fraction) and mspec:
        mspec = ""
    # 1. magnitude part = format(magnitude, mspec)
    s, text = attempt(format, q, mspec + case["spec"])
    if s == "err":
        raise Violation(f"format_quantity_raised:{exc_class(text)}", f"format(Q({m!r},{units}), {mspec + case['spec']!r}) in {nit} raised {type(text).__name__}: {text}")
    s, utext = attempt(format, q.units, case["spec"])
    if s == "err":
        raise Violation(f"format_unit_raised:{exc_class(utext)}", f"{units} {case['spec']!r}")
    if "L" in case["spec"]:
        # LaTeX: the magnitude in the requested numeric format, exponent notation written as mantissa \times 10^{exponent} (whatever the sign,
        # sign flag or padding), then '\ ' and the unit
        import re as _re

        mtext = format(m, mspec).strip() if mspec else None
        if mtext is not None and isinstance(m, (int, float)):
            mo = _re.fullmatch(r"([+-]?[\d.]+)[eE]([+-]?)(\d+)", mtext)
            want_m = f"{mo.group(1)}\\times 10^{{{'-' if mo.group(2) == '-' else ''}{int(mo.group(3))}}}" if mo else mtext
            got_m = text.split("\\ ")[0].strip() if utext else text.strip()
            if got_m != want_m:
                raise Violation("latex_magnitude_not_as_requested", f"format(Q({m!r},{units}), {mspec + case['spec']!r}) = {text!r}: magnitude part {got_m!r}, expected {want_m!r}")
    elif mspec:
        mtext = format(m, mspec)
        # documented joining rule: '3' and '1 / m' become '3 / m'
        want = (mtext + " " + (utext[2:] if utext.startswith("1 / ") else utext)).strip() if utext else mtext
        if text.strip() != want.strip() and "P" not in case["spec"]:
            raise Violation("magnitude_format_not_honoured", f"format(Q({m!r},{units}), {mspec + case['spec']!r}) = {text!r}, expected {want!r}")
    if (q.magnitude, dict(q._units)) != snap:
        raise Violation("format_altered_quantity", f"{m!r} {units}")
    # 2. str(q) parses back to q   (plain text, long names)
    st_ = str(q)
    s, back = attempt(ureg.parse_expression, st_)
    if s == "err":
        raise Violation(f"str_roundtrip_refused:{nit}:{exc_class(back)}", f"parse_expression({st_!r}) raised {type(back).__name__}: {back}")
    bq = back if hasattr(back, "_units") else ureg.Quantity(back)
    same_units = {k: Fraction(v) for k, v in bq._units.items()} == {k: Fraction(v) for k, v in q._units.items()}
    if not same_units or not (bq.magnitude == q.magnitude):
        raise Violation(f"str_roundtrip_differs:{nit}", f"parse_expression(str(q)) = {bq.magnitude!r} {dict(bq._units)} for q = {m!r} {units} (str: {st_!r})")
    s, back2 = attempt(ureg.Quantity, st_)
    if s == "err" or not ({k: Fraction(v) for k, v in back2._units.items()} == {k: Fraction(v) for k, v in q._units.items()} and back2.magnitude == q.magnitude):
        raise Violation(f"quantity_from_str_differs:{nit}", f"Quantity({st_!r}) -> {back2!r}")
    # 3. '#' = formatting the compacted quantity
    if case["compact"] and units and isinstance(m, (int, float)) and m:
        s1, a = attempt(format, q, "#" + mspec + case["spec"])
        s2, b = attempt(lambda: format(q.to_compact(), mspec + case["spec"]))
        if s1 == "err":
            raise Violation(f"format_compact_raised:{exc_class(a)}", f"format(Q({m!r},{units}), '#{mspec + case['spec']}') raised {type(a).__name__}: {a}")
        if s1 != s2 or (s1 == "ok" and a != b):
            raise Violation("compact_modifier_differs", f"format(q,'#{mspec + case['spec']}') = {a!r}; format(q.to_compact(), ...) = {b!r} for Q({m!r},{units})")


def run_quantity(task, tier, seed, col):
    hyp_search(col, _quantity_strategy(task["nit"]), lambda c: case_quantity(c, col), max_examples=500 if tier == "quick" else 8000, seed=seed * 157 + task["shard"])


# ------------------------------------------------------------------------------------- settings: default_format, sort functions, long-lived objects

def case_settings(case, col=None):
    from pint.delegates.formatter._compound_unit_helpers import sort_by_dimensionality

    ureg = env.fresh("float")
    units = case["units"]
    U = ureg.Unit(ureg.UnitsContainer(dict(units)))
    q = ureg.Quantity(case["m"], U)
    if col is not None:
        col.case(("s", str(sorted(units.items())), str(case["defaults"])), True, sample=case, cls="default_format_sequence")
    for d in case["defaults"]:
        ureg.formatter.default_format = d
        fresh_u = ureg.Unit(ureg.UnitsContainer(dict(units)))
        for name, obj, fresh in (("Unit", U, fresh_u), ("Quantity", q, ureg.Quantity(case["m"], fresh_u))):
            a, b, c = str(obj), format(obj, ""), str(fresh)
            if not (a == b == c):
                raise Violation(f"default_format_not_honoured:{name}", f"after default_format={d!r}: str(held {name})={a!r}, format(held,'')={b!r}, str(fresh)={c!r}")
        if format(U, "") != format(U, d):
            raise Violation("default_format_not_equal_explicit_spec", f"default_format={d!r}: {format(U, '')!r} vs {format(U, d)!r}")
        # the same for quantities, incl. the compact modifier '#' and magnitude specs: an empty spec means exactly the default format
        s1, t1 = attempt(format, q, "")
        s2, t2 = attempt(format, q, d)
        if s1 != s2 or (s1 == "ok" and t1 != t2):
            raise Violation("default_format_not_equal_explicit_spec:Quantity" + (":compact" if "#" in d else ""),
                            f"default_format={d!r}: format(q,'') -> {t1!r}, format(q,{d!r}) -> {t2!r} for {case['m']} {units}")
    ureg.formatter.default_format = ""
    # sort functions only permute the factors
    base = sorted(structural(format(U, "D"), "D", set()))
    for sf in (None, sort_by_dimensionality, lambda items, reg: sorted(items, key=lambda t: t[0], reverse=True)):
        s, t = attempt(ureg.formatter.format_unit, U, "D", sort_func=sf) if sf else attempt(ureg.formatter.format_unit, U, "D")
        if s == "err":
            raise Violation(f"sort_func_raised:{exc_class(t)}", f"{units}")
        if sorted(structural(t, "D", set())) != base:
            raise Violation("sort_func_changed_content", f"{units}: {t!r}")


_CTX_REG = {}
CTX_REDEFS = [("pound = 0.5 * kilogram", "pound"), ("foot = 0.3 * meter", "foot"), ("hour = 3000 * second", "hour")]


def case_in_context(case, col=None):
    """While a context that redefines a unit is active, that unit (and its prefixed forms) still render with their names and symbols."""
    import pint

    R = env.R()
    line, name = CTX_REDEFS[case["i"] % len(CTX_REDEFS)]
    if line not in _CTX_REG:
        reg = env.fresh("float")
        ctx = pint.Context("rdfmt")
        ctx.redefine(line)
        reg.add_context(ctx)
        _CTX_REG[line] = reg
    ureg = _CTX_REG[line]
    units = {k.replace("UNIT", name): v for k, v in case["units"].items()}
    if col is not None:
        col.case(("ctx", line, str(sorted(units.items())), case["spec"]), True, sample={"redefinition": line, "units": units, "spec": case["spec"]}, cls="in_context:" + case["spec"].replace("~", ""))
    with ureg.context("rdfmt"):
        check_unit_format(ureg, R, units, case["spec"], "float", roundtrip=False)
        q = ureg.Quantity(3, ureg.UnitsContainer(dict(units)))
        s_, t = attempt(format, q, case["spec"])
        if s_ == "err":
            raise Violation(f"format_quantity_raised:in_context:{exc_class(t)}", f"{units} {case['spec']!r}: {t!r}")
    check_unit_format(ureg, R, units, case["spec"], "float", roundtrip=False)


def case_late_unit(case, col=None):
    """a unit defined after its spellings were asked for (the usual 'if name not in ureg: ureg.define(...)') formats like any other"""
    ureg = env.fresh("float")
    if col is not None:
        col.case(("late", str(case)), True, sample=case, cls="late_definition")
    for probe in case["probes"]:
        attempt(lambda: probe in ureg)
        attempt(ureg.parse_units, probe)
    ureg.define("smoot = 1.7018 * meter = smt")
    q = ureg.Quantity(case["m"], "smoot")
    want = {"": f"{case['m']} smoot", "~": f"{case['m']} smt", "#~": None, "~P": f"{case['m']} smt", "#": None}
    for spec, w in want.items():
        s, t = attempt(format, q, spec)
        if s == "err":
            raise Violation(f"format_raised_for_late_unit:{spec}:{exc_class(t)}", f"after probing {case['probes']} and define('smoot = ...'), format(Q({case['m']},'smoot'), {spec!r}) raised {type(t).__name__}: {t}")
        if w is not None and t != w:
            raise Violation(f"format_wrong_for_late_unit:{spec}", f"{t!r} vs {w!r}")
        if w is None:
            c = q.to_compact()
            if t != format(c, spec.replace("#", "")):
                raise Violation(f"format_wrong_for_late_unit:{spec}", f"{t!r} vs compacted {format(c, spec.replace('#', ''))!r}")
            s, back = attempt(ureg.parse_expression, t)
            if s == "err" or abs(back.to("smoot").magnitude - case["m"]) > 1e-9 * case["m"]:
                raise Violation(f"format_roundtrip_for_late_unit:{spec}", f"{t!r} -> {back!r}")


def run_settings(task, tier, seed, col):
    for probes in ([], ["smoot"], ["kilosmoot", "smoots"], ["ksmt", "smt", "millismoot", "Msmt"]):
        for m in (1500.0, 2.5e-4, 3.0e6):
            col.run_case(lambda c: case_late_unit(c, col), {"probes": probes, "m": m})
    for i in range(len(CTX_REDEFS)):
        for units in ({"UNIT": 1, "inch": -2}, {"kiloUNIT": 1}, {"UNIT": -1, "meter": 1}, {"milliUNIT": 2, "second": -1}):
            for spec in ("~", "~P", "~C", "~H", "~L", "~Lx", "P", "D"):
                col.run_case(lambda c: case_in_context(c, col), {"i": i, "units": units, "spec": spec})
    names = ["meter", "second", "kilogram", "kelvin", "newton", "ampere", "mole"]
    strat = st.builds(lambda u, d, m: {"units": u, "defaults": d, "m": m}, st.dictionaries(st.sampled_from(names), st.integers(-3, 3).filter(bool), min_size=1, max_size=3),
                      st.lists(st.sampled_from(["", "~", "P", "~P", "C", "~C", "H", "L", "~L", ".3f", ".2f~P", "Lx", "#~P", "#.2f~C", "#~", "#P"]), min_size=1, max_size=4),
                      st.sampled_from([1, 2.5, 1234.5, 1.5e6, 0.002]))
    hyp_search(col, strat, lambda c: case_settings(c, col), max_examples=150 if tier == "quick" else 2500, seed=seed * 163)


def run_task(task, tier, seed, col):
    {"units": run_units, "compound": run_compound, "quantity": run_quantity, "settings": run_settings}[task["sub"]](task, tier, seed, col)


def replay(sub, case):
    if sub == "settings" and "i" in case:
        return case_in_context(case)
    if sub == "settings" and "probes" in case:
        return case_late_unit(case)
    return {"units": case_unit, "compound": case_compound, "quantity": case_quantity, "settings": case_settings}[sub](case)
