"""C07 — string expressions evaluate like ordinary arithmetic on quantities.

Oracle: the expression tree evaluated bottom-up with Python's operators on the registry's quantities; the renderer
inserts exactly the parentheses Python's grammar requires for the tree (own precedence table).
"""
from __future__ import annotations

import itertools
import json
import operator
import os
import random
import re
import sys
from decimal import Decimal
from fractions import Fraction

from hypothesis import strategies as st

from .. import env
from ..core import Collector, HarnessError, Skip, Violation, attempt, exc_class, hyp_search, khash, shard

PROPERTY = "C07"
LEVEL = "exploration"
RULE = ("small: every expression tree with <= 3 leaves (quick; <= 4 thorough, 4-leaf trees seed-strided in quick) over numbers {2,3}, names {m,s}, "
        "binary + - * / // **, one optional unary minus, rendered in every spelling variant (explicit *, blank juxtaposition, juxtaposition against a "
        "parenthesis, ^, unicode superscripts, redundant parentheses, extra whitespace, word forms) and parsed by ureg.parse_expression; expected = the "
        "tree evaluated with Python operators. large: Hypothesis trees up to 10 leaves, float/Decimal/Fraction registries, literals 0.5/1e3/1.5e-2. "
        "malformed: valid renderings with a parenthesis removed or a binary operator appended/prepended must raise. noexec: an audit hook records "
        "exec/compile/import/open/os/subprocess/socket events while hostile and random strings are parsed. Non-trivial = tree with two adjacent "
        "different operators (precedence matters) that evaluates without error; distinct = distinct (tree, variant)")
ASSUMPTIONS = ["NUMBER(NUMBER) without blank is the documented parenthesised-uncertainty notation and is never emitted as juxtaposition",
               "integer literals may come back as int or as the registry's non_int_type (value-equal); a float in a Fraction/Decimal registry is a violation"]
MIN_COUNTS = {"quick": {"small": {"evaluated_ok": 20000, "adjacent:**,neg": 50, "adjacent:/,jux": 50, "adjacent:**,**": 50}}}

PREC = {"+": 1, "-": 1, "*": 2, "/": 2, "//": 2, "neg": 3, "**": 4}
OPS = {"+": operator.add, "-": operator.sub, "*": operator.mul, "/": operator.truediv, "//": operator.floordiv, "**": operator.pow}
SUP = str.maketrans("0123456789-", "⁰¹²³⁴⁵⁶⁷⁸⁹⁻")


def tasks(tier, seed):
    t = [{"sub": "small", "shard": i, "nshard": 12} for i in range(12)]
    t += [{"sub": "large", "nit": nit, "shard": i} for i, nit in enumerate(["float", "Fraction", "Decimal", "float"])]
    t += [{"sub": "malformed", "shard": 0}, {"sub": "noexec", "shard": 0}, {"sub": "words", "shard": 0}, {"sub": "uncert", "shard": 0}, {"sub": "alias", "shard": 0}]
    if tier == "thorough" or os.environ.get("VERIF_FUZZ"):
        # coverage-guided campaigns: half of the shards start from an empty corpus, half from a few valid expressions
        t += [{"sub": "fuzz", "shard": i, "corpus": "empty" if i % 2 else "seeded"} for i in range(8)]
    return t


# ------------------------------------------------------------------------------------- trees

def N(text):
    return ("num", text)


def U(name):
    return ("name", name)


def B(op, l, r):
    return ("bin", op, l, r)


def NEG(x):
    return ("neg", x)


def prec(t):
    if t[0] in ("num", "name"):
        return 9
    if t[0] == "neg":
        return PREC["neg"]
    return PREC[t[1]]


def leaves(t):
    if t[0] in ("num", "name"):
        return 1
    if t[0] == "neg":
        return leaves(t[1])
    return leaves(t[2]) + leaves(t[3])


def adjacent_pairs(t, out=None):
    out = out if out is not None else set()
    def opname(x):
        return "neg" if x[0] == "neg" else (x[1] if x[0] == "bin" else None)
    if t[0] == "neg":
        c = opname(t[1])
        if c:
            out.add(("neg", c))
        adjacent_pairs(t[1], out)
    elif t[0] == "bin":
        for c in (t[2], t[3]):
            o = opname(c)
            if o:
                out.add((t[1], o))
            adjacent_pairs(c, out)
    return out


def render(t, v, top=True):
    """v: dict(mul='*'|' '|'paren', pow='**'|'^'|'sup', redundant=bool, ws=bool).  Parentheses: exactly those Python's grammar needs."""
    kind = t[0]
    if kind == "num":
        s = t[1]
    elif kind == "name":
        s = t[1]
    elif kind == "neg":
        c = t[1]
        cs = render(c, v, False)
        if prec(c) < PREC["neg"]:
            cs = "(" + cs + ")"
        s = "-" + cs
    else:
        _, op, l, r = t
        ls, rs = render(l, v, False), render(r, v, False)
        p = PREC[op]
        if op == "**":
            if prec(l) <= p:  # ** is right-associative and binds tighter than a unary minus on its left
                ls = "(" + ls + ")"
            if prec(r) < PREC["neg"]:
                rs = "(" + rs + ")"
            # a unicode exponent directly after a name, or after the parenthesis that closes the base: 'm²', '(m s)²', '(2+2)⁻¹'
            supable = l[0] == "name" or ls.endswith(")")
            if v["pow"] == "sup" and supable and r[0] == "num" and r[1].lstrip("-").isdigit():
                s = ls + r[1].translate(SUP)
            elif v["pow"] == "sup" and supable and r[0] == "neg" and r[1][0] == "num" and r[1][1].isdigit():
                s = ls + ("-" + r[1][1]).translate(SUP)
            else:
                o = "^" if v["pow"] == "^" else "**"
                s = ls + (f" {o} " if v["ws"] else o) + rs
        else:
            if prec(l) < p:
                ls = "(" + ls + ")"
            if prec(r) <= p:
                rs = "(" + rs + ")"
            if op == "*" and v["mul"] != "*":
                # juxtaposition (documented as equivalent to *).  Only emitted where the token sequence is unambiguous:
                # never NUMBER( NUMBER ) (uncertainty notation), never before a unary minus, never number+'e...' (e-notation)
                if rs.startswith("-"):
                    rs = "(" + rs + ")"
                if v["mul"] == " ":
                    s = ls + ("   " if v["ws"] else " ") + rs
                elif v["mul"] == "tight":
                    # no blank at all: the left operand ends with ')' or a unicode exponent, e.g. '6/(2)3', 'kg/m²s', '(m)s'
                    if not (ls.endswith(")") or (ls[-1] in "⁰¹²³⁴⁵⁶⁷⁸⁹" and not rs[0].isdigit())):
                        ls = "(" + ls + ")"
                    s = ls + rs
                else:  # against a parenthesis
                    if not rs.startswith("("):
                        rs = "(" + rs + ")"
                    if ls[-1].isdigit() and rs[1:2].isdigit():
                        s = ls + " * " + rs
                    else:
                        s = ls + rs
            else:
                s = ls + (f"  {op} " if v["ws"] else op) + rs
    if v["redundant"] and kind in ("bin",) and not top:
        s = "(" + s + ")"
    return s


VARIANTS = []
for mul in ("*", " ", "paren", "tight"):
    for pw in ("**", "^", "sup"):
        for red in (False, True):
            for ws in (False, True):
                VARIANTS.append({"mul": mul, "pow": pw, "redundant": red, "ws": ws})
QUICK_VARIANTS = [v for v in VARIANTS if not (v["redundant"] and v["ws"])]


def leaf_value(ureg, t, nit):
    if t[0] == "num":
        txt = t[1]
        if nit == "float":
            try:
                return int(txt)
            except ValueError:
                return float(txt)
        return env.NIT[nit](txt)
    return ureg.Quantity(1, t[1])


def evaluate(ureg, t, nit):
    if t[0] in ("num", "name"):
        return leaf_value(ureg, t, nit)
    if t[0] == "neg":
        return -evaluate(ureg, t[1], nit)
    return OPS[t[1]](evaluate(ureg, t[2], nit), evaluate(ureg, t[3], nit))


def magnitude_guard(t):
    """Float shadow evaluation (names count as 1): trees whose numeric part explodes (3**3**3**3 ...) would make both the parser
    and the reference spend hours in big-integer arithmetic; they are skipped and counted."""
    if t[0] == "num":
        return float(t[1])
    if t[0] == "name":
        return {"percent": 0.01, "ppm": 1e-6, "permille": 0.001}.get(t[1], 1.0)
    if t[0] == "neg":
        return -magnitude_guard(t[1])
    a, b = magnitude_guard(t[2]), magnitude_guard(t[3])
    op = t[1]
    try:
        if op == "**":
            if abs(b) > 24 or (abs(a) > 1 and abs(b) * (1 + abs(a)).bit_length() if False else False):
                raise Skip("huge_power")
            r = abs(a) ** b if a != 0 or b >= 0 else float("inf")
        elif op in ("/", "//"):
            r = a / b if b != 0 else 1.0
        elif op == "*":
            r = a * b
        elif op == "+":
            r = a + b
        else:
            r = a - b
    except (OverflowError, ZeroDivisionError):
        raise Skip("huge_power")
    if isinstance(r, complex) or r != r or abs(r) > 1e60:
        raise Skip("huge_power")
    return r


def _outcome(fn):
    try:
        return ("ok", fn())
    except OverflowError as e:
        raise Skip("float_range_overflow") from e
    except RecursionError:
        raise
    except Exception as e:  # noqa: BLE001
        return ("err", type(e).__name__, e)


def _same(a, b, nit):
    """equal value and compatible magnitude type"""
    qa, qb = hasattr(a, "_units"), hasattr(b, "_units")
    if qa != qb:
        # a dimensionless result may come back as a bare number or as a dimensionless quantity
        if qa and not a._units:
            a = a.magnitude
        elif qb and not b._units:
            b = b.magnitude
        else:
            return False
        qa = qb = False
    if qa:
        if dict(a._units) != dict(b._units):
            return False
        a, b = a.magnitude, b.magnitude
    if isinstance(a, float) and isinstance(b, float) and a != a and b != b:
        return True
    if a != b:
        return False
    ok_types = (int, float) if nit == "float" else (int, env.NIT[nit])
    if nit != "float" and (isinstance(a, float) != isinstance(b, float)):
        return False
    if nit == "float" and type(a) is not type(b):
        return False
    return isinstance(a, ok_types) or isinstance(a, float) == isinstance(b, float)


def _non_finite(v):
    m = getattr(v, "magnitude", v)
    try:
        if isinstance(m, Decimal):
            return not m.is_finite()
        return isinstance(m, float) and (m != m or m in (float("inf"), float("-inf")))
    except Exception:  # noqa: BLE001
        return False


def show_res(r):
    if r[0] == "err":
        return r[1]
    v = r[1]
    try:
        if hasattr(v, "_units"):
            return f"{v.magnitude!r} {dict(v._units)}"
        return repr(v)
    except ValueError:  # CPython refuses to print integers of more than 4300 digits
        return f"<{type(getattr(v, 'magnitude', v)).__name__} too long to print>"


def check_tree(ureg, nit, tree, variant, col=None):
    magnitude_guard(tree)
    text = render(tree, variant)
    want = _outcome(lambda: evaluate(ureg, tree, nit))
    got = _outcome(lambda: ureg.parse_expression(text))
    if col is not None:
        pairs = adjacent_pairs(tree)
        nt = want[0] == "ok" and any(a != b or a == "**" for a, b in pairs)
        col.case(("t", text), nt, sample={"text": text, "tree": repr(tree), "expected": show_res(want)}, cls="evaluated_ok" if want[0] == "ok" else "raises:" + want[1])
        for a, b in pairs:
            bb = "jux" if (b == "*" and variant["mul"] != "*") else b
            aa = "jux" if (a == "*" and variant["mul"] != "*") else a
            col.count(f"adjacent:{aa},{bb}")
    if want[0] != got[0]:
        if got[0] == "ok":
            raise Violation("parsed_where_arithmetic_raises", f"{text!r} -> {show_res(got)}; the tree {tree} raises {want[1]}")
        raise Violation(f"refused_valid_expression:{got[1]}", f"{text!r} raised {got[1]}: {got[2]}; the tree evaluates to {show_res(want)}")
    if want[0] == "err":
        if want[1] != got[1]:
            # the same arithmetic error must surface (parse errors are a different class)
            raise Violation(f"different_error:{want[1]}->{got[1]}", f"{text!r}: parse raised {got[1]}, the tree raises {want[1]}")
        return
    if _non_finite(got[1]) or _non_finite(want[1]):
        # powers of a (signed) zero: Decimal gives +-Infinity where int/float arithmetic raises; the sign of a zero is not part of the statement
        raise Skip("non_finite_result")
    if not _same(got[1], want[1], nit):
        k = _classify(tree, variant)
        raise Violation(f"wrong_value:{k}", f"{text!r} -> {show_res(got)}, the tree {tree} gives {show_res(want)}")


def _classify(tree, variant):
    """root-cause bucket: which construct is involved"""
    if variant["mul"] == "paren" and _has_mul_under(tree):
        return "juxtaposition_against_parenthesis"
    if variant["mul"] == " ":
        return "juxtaposition_by_blank"
    if variant["mul"] == "tight":
        return "juxtaposition_without_blank"
    return f"pow={variant['pow']}"


def _has_mul_under(t):
    if t[0] == "bin":
        return t[1] == "*" or _has_mul_under(t[2]) or _has_mul_under(t[3])
    if t[0] == "neg":
        return _has_mul_under(t[1])
    return False


# ------------------------------------------------------------------------------------- exhaustive small trees

LEAVES = [N("2"), N("3"), U("m"), U("s")]
BINOPS = ["+", "-", "*", "/", "//", "**"]


def gen_trees(n):
    """all binary trees with n leaves over LEAVES/BINOPS"""
    if n == 1:
        yield from LEAVES
        return
    for k in range(1, n):
        for l in gen_trees(k):
            for r in gen_trees(n - k):
                for op in BINOPS:
                    yield B(op, l, r)


def with_one_neg(t):
    """the tree itself and every tree obtained by negating one node"""
    yield t
    yield NEG(t)
    if t[0] == "bin":
        _, op, l, r = t
        for l2 in with_one_neg(l):
            if l2 is not l:
                yield B(op, l2, r)
        for r2 in with_one_neg(r):
            if r2 is not r:
                yield B(op, l, r2)


def case_small(case):
    ureg = env.ureg("float")
    check_tree(ureg, "float", case["tree"], case["variant"])


def run_small(task, tier, seed, col):
    ureg = env.ureg("float")
    variants = QUICK_VARIANTS if tier == "quick" else VARIANTS
    sizes = (1, 2, 3) if tier == "quick" else (1, 2, 3, 4)
    k = 0
    for n in sizes:
        for base in gen_trees(n):
            for t in with_one_neg(base):
                k += 1
                if k % task["nshard"] != task["shard"]:
                    continue
                for v in variants:
                    if v["mul"] != "*" and not _has_mul_under(t):
                        continue
                    if v["pow"] != "**" and "**" not in repr(t):
                        continue
                    col.run_case(lambda c: check_tree(ureg, "float", c["tree"], c["variant"], col), {"tree": t, "variant": v})
    if tier == "quick":
        # 4-leaf trees: seed-chosen stride
        for base in gen_trees(4):
            k += 1
            if k % task["nshard"] != task["shard"] or khash((repr(base), seed)) % 16:
                continue
            v = QUICK_VARIANTS[khash((repr(base), seed, "v")) % len(QUICK_VARIANTS)]
            for t in (base, NEG(base)):
                col.run_case(lambda c: check_tree(ureg, "float", c["tree"], c["variant"], col), {"tree": t, "variant": v})
    col.exhaustive = True
    col.notes.append("exhaustive for trees with <= %d leaves and one optional unary minus" % sizes[-1])


# ------------------------------------------------------------------------------------- larger random trees, all numeric types

def _large_strategy(nit):
    nums = ["2", "3", "7", "10", "0.5", "1e3", "1.5e-2", "4.0", "1_000", "2_0"]  # (digit-group underscores are one NUMBER token for the tokenizer)
    names = ["m", "s", "kg", "percent", "meter", "second", "km", "ms"]
    leaf = st.one_of(st.sampled_from([N(x) for x in nums]), st.sampled_from([U(x) for x in names]))

    def ext(children):
        return st.one_of(
            st.builds(lambda op, l, r: B(op, l, r), st.sampled_from(["+", "-", "*", "*", "/", "//", "**"]), children, children),
            st.builds(NEG, children),
            st.builds(lambda l, k: B("**", l, N(k)), children, st.sampled_from(["2", "3", "0.5"])),
            st.builds(lambda l, k: B("**", l, NEG(N(k))), children, st.sampled_from(["1", "2"])),
        )

    tree = st.recursive(leaf, ext, max_leaves=10)
    return st.builds(lambda t, v: {"tree": t, "variant": v, "nit": nit}, tree, st.sampled_from(VARIANTS))


def case_large(case, col=None):
    nit = case["nit"]
    check_tree(env.ureg(nit), nit, case["tree"], case["variant"], col)


def run_large(task, tier, seed, col):
    hyp_search(col, _large_strategy(task["nit"]), lambda c: case_large(c, col), max_examples=1500 if tier == "quick" else 20000,
               seed=seed * 103 + task["shard"])


# ------------------------------------------------------------------------------------- word forms

def case_words(case, col=None):
    ureg = env.ureg("float")
    text, tree = case["text"], case["tree"]
    want = _outcome(lambda: evaluate(ureg, tree, "float"))
    got = _outcome(lambda: ureg.parse_expression(text))
    if col is not None:
        col.case(("w", text), True, sample={"text": text, "expected": show_res(want)}, cls=case["form"])
    if want[0] != got[0] or (want[0] == "ok" and not _same(got[1], want[1], "float")):
        raise Violation(f"word_form:{case['form']}", f"{text!r} -> {show_res(got)}, expected {show_res(want)}")


SPECIAL = [("inf m", "inf", 1), ("-inf m", "-inf", 1), ("inf", "inf", 0), ("Infinity s", "inf", 1), ("INF * m", "inf", 1), ("2.5 m + inf m", "inf", 1), ("0.5 * inf s", "inf", 1),
           ("1.5 m / inf", "0", 1), ("inf m - 2 m", "inf", 1), ("-2 * inf m", "-inf", 1), ("nan m", "nan", 1), ("NaN", "nan", 0), ("3 m * nan", "nan", 1), ("inf m ** 2", "inf", 1)]


def case_special(case, col=None):
    """the words inf / infinity / nan (any case) are numbers of the registry's own number type, and arithmetic on them is Python's arithmetic on that type"""
    import math

    nit = case["nit"]
    ureg = env.ureg(nit)
    text, want, has_unit = case["text"], case["want"], case["unit"]
    if col is not None:
        col.case(("sp", text, nit), True, sample=case, cls="special_number:" + nit)
    s_, r = attempt(ureg.parse_expression, text)
    if s_ == "err":
        raise Violation(f"special_number_refused:{nit}:{exc_class(r)}", f"[{nit}] parse_expression({text!r}) raised {type(r).__name__}: {r}")
    m = getattr(r, "magnitude", r)
    if bool(has_unit) != hasattr(r, "_units") and has_unit:
        raise Violation(f"special_number_wrong_value:{nit}", f"[{nit}] {text!r} -> {r!r}: a quantity was expected")
    T = env.NIT[nit]
    if type(m) is not T and not (T is float and isinstance(m, int)):
        raise Violation(f"special_number_wrong_type:{nit}", f"[{nit}] {text!r} -> magnitude {m!r} of type {type(m).__name__}, the registry's number type is {T.__name__}")
    f = float(m)
    ok = math.isnan(f) if want == "nan" else f == float(want)
    if not ok:
        raise Violation(f"special_number_wrong_value:{nit}", f"[{nit}] {text!r} -> {r!r}, expected {want}")


def run_words(task, tier, seed, col):
    for nit_ in ("float", "Decimal"):  # Fraction has no infinity / nan
        for text_, want_, unit_ in SPECIAL:
            col.run_case(lambda c: case_special(c, col), {"text": text_, "want": want_, "unit": unit_, "nit": nit_})
    names = ["m", "s", "kg", "meter", "second", "inch"]
    nums = ["2", "3", "0.5"]
    for a in names:
        for b in names:
            for n in nums:
                cases = [
                    ("per", f"{n} {a} per {b}", B("/", B("*", N(n), U(a)), U(b))),
                    ("squared", f"{n} {a} squared", B("*", N(n), B("**", U(a), N("2")))),
                    ("cubed", f"{n} {a} cubed", B("*", N(n), B("**", U(a), N("3")))),
                    ("square", f"{n} square {a}", B("*", N(n), B("**", U(a), N("2")))),
                    ("sq", f"{n} sq {a}", B("*", N(n), B("**", U(a), N("2")))),
                    ("cubic", f"{n} cubic {a}", B("*", N(n), B("**", U(a), N("3")))),
                    ("per+squared", f"{n} {a} per {b} squared", B("/", B("*", N(n), U(a)), B("**", U(b), N("2")))),
                    ("superscript", f"{n} {a}²/{b}³", B("/", B("*", N(n), B("**", U(a), N("2"))), B("**", U(b), N("3")))),
                    ("superscript_neg", f"{n} {a}·{b}⁻¹", B("*", B("*", N(n), U(a)), B("**", U(b), NEG(N("1"))))),
                    ("numberletter", f"{n}{a}", B("*", N(n), U(a))),
                ]
                for form, text, tree in cases:
                    col.run_case(lambda c: case_words(c, col), {"form": form, "text": text, "tree": tree})
    col.exhaustive = True


# ------------------------------------------------------------------------------------- +/- and parenthesised uncertainties

def render_uncertainty(nom: str, err: str, exp, unit: str, notation: str, neg: bool):
    """nom/err: decimal strings without sign or exponent; exp: int or None.  Returns the text or None when the notation does not apply."""
    sign = "-" if neg else ""
    e = "" if exp is None else (f"e{exp}" if exp >= 0 else f"e{exp}")
    e_plus = "" if exp is None else (f"e+{exp}" if exp >= 0 else f"e{exp}")
    u = f" {unit}" if unit else ""
    if notation == "paren_pm":
        return f"({sign}{nom} +/- {err}){e}{u}"
    if notation == "paren_pm_unicode":
        return f"({sign}{nom} ± {err}){e}{u}"
    if notation == "paren_pm_eplus":
        return f"({sign}{nom} +/- {err}){e_plus}{u}"
    if notation == "paren_pm_e0":
        if exp is None or abs(exp) > 9:
            return None
        return f"({sign}{nom} +/- {err})e{'+' if exp >= 0 else '-'}0{abs(exp)}{u}"
    if notation == "bare_pm":
        if exp is not None:
            return None
        return f"{sign}{nom} +/- {err}{u}"
    if notation == "bare_pm_e":
        if exp is None:
            return None
        return f"{sign}{nom}e{exp} +/- {err}e{exp}{u}"
    if notation in ("shorthand", "shorthand_e"):
        # nom(dd): the digits in parentheses apply to the last digits of nom
        if (notation == "shorthand_e") != (exp is not None):
            return None
        decimals = len(nom.split(".")[1]) if "." in nom else 0
        scaled = Fraction(err) * 10 ** decimals
        if scaled.denominator != 1 or scaled <= 0:
            return None
        return f"{sign}{nom}({int(scaled)}){e}{u}"
    raise ValueError(notation)


NOTATIONS = ["paren_pm", "paren_pm_unicode", "paren_pm_eplus", "paren_pm_e0", "bare_pm", "bare_pm_e", "shorthand", "shorthand_e"]


def check_uncertainty_text(ureg, text, nominal: Fraction, std: Fraction, unit: str, tag: str):
    got = _outcome(lambda: ureg.parse_expression(text))
    if got[0] == "err":
        raise Violation(f"uncertainty_refused:{tag}:{got[1]}", f"{text!r} raised {got[1]}: {got[2]}")
    q = got[1]
    m = getattr(q, "magnitude", q)
    if not hasattr(m, "nominal_value"):
        raise Violation(f"uncertainty_lost:{tag}", f"{text!r} -> {show_res(got)} (no uncertainty)")
    wantu = dict(ureg.parse_units(unit)._units) if unit else {}
    gotu = dict(q._units) if hasattr(q, "_units") else {}
    if gotu != wantu:
        raise Violation(f"uncertainty_wrong_unit:{tag}", f"{text!r} -> units {gotu}, expected {wantu}")
    for name, g, w in (("nominal", m.nominal_value, nominal), ("std_dev", m.std_dev, std)):
        if abs(Fraction(g) - w) > abs(w) * Fraction(1, 10 ** 12) + Fraction(1, 10 ** 300):
            raise Violation(f"uncertainty_wrong_{name}:{tag}", f"{text!r} -> {name} {g!r}, expected {float(w)!r}")


def case_uncert(case, col=None):
    ureg = env.ureg("float")
    nom, err, exp, unit, notation, neg = case["nom"], case["err"], case["exp"], case["unit"], case["notation"], case["neg"]
    text = render_uncertainty(nom, err, exp, unit, notation, neg)
    if text is None:
        raise Skip("notation_not_applicable")
    scale = Fraction(10) ** (exp or 0)
    nominal = Fraction(nom) * scale * (-1 if neg else 1)
    std = Fraction(err) * scale
    if col is not None:
        col.case(("u", text), exp is not None or notation.startswith("shorthand") or neg, sample={"text": text, "nominal": float(nominal), "std_dev": float(std)},
                 cls=notation + (":neg" if neg else "") + (":exp" if exp is not None else ""))
    check_uncertainty_text(ureg, text, nominal, std, unit, notation)


def run_uncert(task, tier, seed, col):
    noms = ["8.0", "1.25", "100", "0.5", "12.345", "3"]
    errs = ["4.0", "0.05", "10", "0.25", "0.012", "1"]
    exps = [None, 6, -6, 2, -3, 12]
    units = ["m", "", "kg/s", "coulomb"]
    for nom, err in zip(noms, errs):
        for exp in exps:
            for unit in units:
                for notation in NOTATIONS:
                    for neg in (False, True):
                        col.run_case(lambda c: case_uncert(c, col), {"nom": nom, "err": err, "exp": exp, "unit": unit, "notation": notation, "neg": neg})
    col.exhaustive = True


# ------------------------------------------------------------------------------------- malformed input never yields a value

def case_malformed(case, col=None):
    ureg = env.ureg("float")
    text = case["text"]
    if col is not None:
        col.case(("bad", text), True, sample={"text": text, "mutation": case["mutation"]}, cls=case["mutation"])
    got = _outcome(lambda: ureg.parse_expression(text))
    if got[0] == "ok":
        raise Violation(f"malformed_input_yields_value:{case['mutation']}", f"{text!r} ({case['mutation']}) -> {show_res(got)}")


def run_malformed(task, tier, seed, col):
    rnd = random.Random(seed)
    v0 = {"mul": "*", "pow": "**", "redundant": True, "ws": False}
    trees = []
    for n in (2, 3):
        trees += list(gen_trees(n))
    rnd.shuffle(trees)
    for t in trees[: 400 if tier == "quick" else 4000]:
        text = render(B("*", t, U("kg")), v0)  # redundant parentheses guarantee at least one pair
        muts = []
        for i, ch in enumerate(text):
            if ch in "()":
                muts.append(("drop_parenthesis", text[:i] + text[i + 1:]))
        for op in ("*", "/", "+", "**", "//"):
            muts.append(("trailing_operator", text + op))
            muts.append(("trailing_operator", text + " " + op + " "))
        for op in ("*", "/", "**", "//"):
            muts.append(("leading_operator", op + text))
        # a binary operator left dangling directly before a closing parenthesis
        for i, ch in enumerate(text):
            if ch == ")" and text[:i].rstrip()[-1:] not in "(*/+-^":
                for op in ("+", "-", "*", "/", "**", " - ", " +"):
                    muts.append(("dangling_before_close", text[:i] + op + text[i:]))
        muts.append(("extra_open", "(" + text))
        muts.append(("extra_close", text + ")"))
        for mut, s in muts:
            col.run_case(lambda c: case_malformed(c, col), {"text": s, "mutation": mut})


# ------------------------------------------------------------------------------------- no code execution, attribute access or I/O

_EVENTS = []
_HOOKED = []
DENY_PREFIX = ("exec", "compile", "open", "os.", "subprocess.", "socket.", "ctypes.", "shutil.", "urllib.", "http.", "ftplib.", "pty.", "winreg.",
               "import", "marshal.", "code.__new__", "function.__new__", "builtins.input", "webbrowser.", "sqlite3.", "glob.", "tempfile.", "pathlib.")


def _hook(event, args):
    if _HOOKED and _HOOKED[0]:
        if event == "open" and args and args[0] == "<string>" and args[1:2] == ("rb",):
            # CPython's tokenizer, when it raises a SyntaxError, tries to read the offending source line from a file literally
            # named '<string>' (read-only; name and mode not controllable by the input): an artefact of the interpreter
            return
        if event.startswith(DENY_PREFIX) or event in ("object.__getattr__", "object.__setattr__", "object.__delattr__", "sys._getframe", "setopencodehook"):
            _EVENTS.append((event, repr(args)[:120]))


def _install_hook():
    if not _HOOKED:
        _HOOKED.append(False)
        sys.addaudithook(_hook)


HOSTILE = [
    "__import__('os').system('echo hacked')", "().__class__.__bases__[0].__subclasses__()", "m.__class__", "ureg.__dict__", "open('/etc/passwd').read()",
    "exec('import os')", "eval('1+1')", "lambda: 1", "(x := 2) m", "f'{1+1}' m", "m.real", "m.magnitude", "2 .__add__(3)", "[m for m in (1,2)]", "{1: 2}",
    "m if 1 else s", "import os", "os.getcwd()", "print(1)", "`ls`", "m; s", "m\nimport os", "1 if True else 2", "getattr(m, 'units')", "m[0]", "2 @ 3",
    "compile('1', 'x', 'eval')", "globals()", "__builtins__", "m.__init__.__globals__", "'a' 'b'", "b'xx'", "0x10 m", "1_000 m", "1j m", "...", "m->s", "m := 3",
    "nan.__class__", "inf()", "dimensionless.to('m')", "\\N{DEGREE SIGN}C", "type(m)", "(lambda: __import__('os'))()", "m.__reduce__()", "a.b.c", "x.y()",
]


def case_noexec(case, col=None):
    import pint
    from pint.util import ParserHelper

    _install_hook()
    ureg = env.ureg("float")
    s = case["s"]
    if col is not None:
        col.case(("nx", s), True, sample={"string": s[:80]}, cls=case.get("kind", "random"))
    entry = [("parse_expression", lambda: ureg.parse_expression(s)), ("parse_units", lambda: ureg.parse_units(s)),
             ("Quantity(str)", lambda: ureg.Quantity(s)), ("ParserHelper.from_string", lambda: ParserHelper.from_string(s))]
    for name, fn in entry:
        del _EVENTS[:]
        _HOOKED[0] = True
        try:
            try:
                r = fn()
            except RecursionError:
                r = None
            except Exception:  # noqa: BLE001 - rejecting the input is fine
                r = None
        finally:
            _HOOKED[0] = False
        if _EVENTS:
            raise Violation(f"audit_event_during_parse:{_EVENTS[0][0]}", f"{name}({s!r}) triggered {_EVENTS[:3]}")
        if r is not None and not isinstance(r, (int, float, complex, Fraction, Decimal)) and not hasattr(r, "_units") and not isinstance(r, ParserHelper):
            try:
                from uncertainties.core import AffineScalarFunc

                if isinstance(r, AffineScalarFunc):
                    continue
            except ImportError:
                pass
            raise Violation("parse_returned_foreign_object", f"{name}({s!r}) returned {type(r).__name__}")


def run_noexec(task, tier, seed, col):
    for s in HOSTILE:
        col.run_case(lambda c: case_noexec(c, col), {"s": s, "kind": "hostile"})
    frag = st.sampled_from(["m", "s", "kg", "2", "3.5", " ", "*", "/", "**", "(", ")", "+", "-", ".", "_", "__", "import", "os", "class", "lambda", ":", ",", "'", '"',
                            "[", "]", "{", "}", "=", "@", "%", "^", "~", "!", "\\", "\n", "\t", "e", "E", "nan", "inf", "±", "+/-", "²", "·", "µ", "°", "\x00", "#", ";", "getattr", "eval", "exec"])
    strat = st.one_of(st.lists(frag, min_size=1, max_size=12).map("".join), st.text(max_size=20),
                      st.sampled_from(HOSTILE).flatmap(lambda h: st.tuples(st.just(h), st.sampled_from(["2 m * ", "(", "", "m/"]), st.sampled_from(["", " s", ")", "**2"])).map(lambda t: t[1] + t[0] + t[2])))
    hyp_search(col, strat.map(lambda s: {"s": s}), lambda c: case_noexec(c, col), max_examples=2500 if tier == "quick" else 60000, seed=seed * 107, shrink=True)


# ------------------------------------------------------------------------------------- results are independent objects

ALIAS_EXPRS = ["kilometer", "degC", "meter", "3 kilometer", "2 meter", "kg * m / s**2", "inch", "1.5 hour", "millisecond", "newton"]


_ALIAS_REG = {}


def case_alias(case, col=None):
    """What one parse returns can be changed in place without changing what the next parse of the same (or a related) string returns."""
    import numpy as np

    import pint

    text, mut, force = case["text"], case["mut"], case["force"]
    for k in (("s", force), ("r", force)):
        if k not in _ALIAS_REG:
            _ALIAS_REG[k] = pint.UnitRegistry(force_ndarray=True) if force else pint.UnitRegistry()
    ureg, fresh = _ALIAS_REG[("s", force)], _ALIAS_REG[("r", force)]  # subject (its results get mutated) and reference (never mutated)
    if col is not None:
        col.case(("al", text, mut, force), True, sample=case, cls=mut)

    def snap(reg, r):
        s_, v = attempt(reg.parse_expression, r)
        if s_ == "err":
            return ("err", type(v).__name__)
        return (np.asarray(getattr(v, "magnitude", v)).tolist(), dict(v._units) if hasattr(v, "_units") else None)

    last = text.split()[-1]
    related = [text] + (["3 " + last, last] if last.isidentifier() else [])
    s_, first = attempt(ureg.parse_expression, text)
    if s_ == "ok" and hasattr(first, "_units"):
        attempt({"ito_base": lambda: first.ito_base_units(), "ito_root": lambda: first.ito_root_units(), "imul": lambda: first.__imul__(3), "ito_reduced": lambda: first.ito_reduced_units(),
                 "idiv": lambda: first.__itruediv__(4)}[mut])
    for r in related:
        got, want = snap(ureg, r), snap(fresh, r)
        if got != want:
            raise Violation(f"parse_result_shared_with_earlier_result:{mut}", f"after parse_expression({text!r}) and {mut} on the result, parse_expression({r!r}) -> {got}, an untouched registry gives {want}")
    if last.isidentifier():
        (s1, u1), (s2, u2) = attempt(ureg.parse_units, last), attempt(fresh.parse_units, last)
        if s1 != s2 or (s1 == "ok" and dict(u1._units) != dict(u2._units)):
            raise Violation("parse_units_changed_by_earlier_result", f"{text!r} {mut}")


def case_preproc(case, col=None):
    """A pre-processor added to one registry (the documented ureg.preprocessors.append) is not applied by any other registry."""
    import pint

    if col is not None:
        col.case(("pp", str(case)), True, sample=case, cls="preprocessors")
    texts = ["6 Hz s-2", "3 m s-1", "2 kg", "m/s"]
    ref = pint.UnitRegistry()
    before = [attempt(ref.parse_expression, t) for t in texts]
    a = pint.UnitRegistry()
    b_early = pint.UnitRegistry(non_int_type=Decimal) if case["other"] == "Decimal" else pint.UnitRegistry()
    import re as _re

    a.preprocessors.append(lambda s: _re.sub(r"(?<=[A-Za-z])(?![A-Za-z])(?<![0-9\-][eE])(?<![0-9\-])(?=[0-9\-])", "**", s))
    attempt(a.parse_expression, "6 Hz s-2")
    b_late = pint.UnitRegistry()
    for tag, reg in (("built before", b_early), ("built after", b_late), ("reference", ref)):
        for t, w in zip(texts, before):
            g = attempt(reg.parse_expression, t)
            same = g[0] == w[0] and (g[0] == "err" or (float(getattr(g[1], "magnitude", g[1])) == float(getattr(w[1], "magnitude", w[1])) and dict(getattr(g[1], "_units", {})) == dict(getattr(w[1], "_units", {}))))
            if not same:
                raise Violation("preprocessor_of_one_registry_applied_by_another", f"registry {tag} the append on another registry: parse_expression({t!r}) -> {g[1]!r}, expected {w[1]!r}")


def run_alias(task, tier, seed, col):
    for other in ("float", "Decimal"):
        col.run_case(lambda c: case_preproc(c, col), {"other": other})
    for text in ALIAS_EXPRS:
        for mut in ("ito_base", "ito_root", "imul", "ito_reduced", "idiv"):
            for force in (False, True):
                col.run_case(lambda c: case_alias(c, col), {"text": text, "mut": mut, "force": force})
    col.exhaustive = True


def run_task(task, tier, seed, col):
    if task["sub"] == "alias":
        return run_alias(task, tier, seed, col)
    {"small": run_small, "large": run_large, "malformed": run_malformed, "noexec": run_noexec, "words": run_words, "uncert": run_uncert, "fuzz": run_fuzz}[task["sub"]](task, tier, seed, col)


def _tup(x):
    return tuple(_tup(i) for i in x) if isinstance(x, list) else x


def replay(sub, case):
    if sub == "alias" and "other" in case:
        return case_preproc(case)
    if sub == "alias":
        return case_alias(case)
    if "tree" in case:
        case = dict(case)
        case["tree"] = _tup(case["tree"])
    if sub == "small":
        return case_small(case)
    if sub == "words" and "want" in case:
        return case_special(case)
    return {"large": case_large, "malformed": case_malformed, "noexec": case_noexec, "words": case_words, "uncert": case_uncert, "fuzz": case_fuzz}[sub](case)


# ------------------------------------------------------------------------------------- coverage-guided fuzzing (thorough tier)

FUZZ_NAMES = {"m", "s", "kg", "meter", "second"}
_NUM_RE = re.compile(r"^(\d+(_\d+)*\.\d*|\.\d+|\d+(_\d+)*)([eE][+-]?\d+)?$")
_PLAIN_ALPHABET = set("0123456789.+-*/() \tmskgetrcond")
_AST_OPS = None


class _NotInDomain(Exception):
    pass


def _ast_to_tree(src, node):
    import ast

    global _AST_OPS
    if _AST_OPS is None:
        _AST_OPS = {ast.Add: "+", ast.Sub: "-", ast.Mult: "*", ast.Div: "/", ast.FloorDiv: "//", ast.Pow: "**"}
    if isinstance(node, ast.Constant):
        seg = ast.get_source_segment(src, node)
        if type(node.value) not in (int, float) or seg is None or not _NUM_RE.match(seg) or len(seg) > 12:
            raise _NotInDomain
        if re.match(r"^\d+$", seg) and len(seg) > 1 and seg[0] == "0":
            raise _NotInDomain
        return N(seg)
    if isinstance(node, ast.Name):
        if node.id not in FUZZ_NAMES:
            raise _NotInDomain
        return U(node.id)
    if isinstance(node, ast.UnaryOp):
        if isinstance(node.op, ast.USub):
            return NEG(_ast_to_tree(src, node.operand))
        if isinstance(node.op, ast.UAdd):
            return ("pos", _ast_to_tree(src, node.operand))
        raise _NotInDomain
    if isinstance(node, ast.BinOp) and type(node.op) in _AST_OPS:
        return B(_AST_OPS[type(node.op)], _ast_to_tree(src, node.left), _ast_to_tree(src, node.right))
    raise _NotInDomain


def _strip_pos(t):
    if t[0] == "pos":
        return _strip_pos(t[1])
    if t[0] == "neg":
        return NEG(_strip_pos(t[1]))
    if t[0] == "bin":
        return B(t[1], _strip_pos(t[2]), _strip_pos(t[3]))
    return t


def case_fuzz(case, col=None):
    """One fuzz input: no-execution oracle always; differential and structure oracles when the string lies in their domain."""
    import ast

    s = case["s"]
    info = {}
    npow = s.count("**") + s.count("^") + len(re.findall(r"[⁰¹²³⁴⁵⁶⁷⁸⁹]+", s)) + s.count("cubed") + s.count("squared") + s.count("cubic") + s.count("square") + s.count("sq")
    if npow and (npow > 1 or sum(ch.isdigit() for ch in s) > 6 or "e" in s.lower().replace("meter", "").replace("second", "").replace("per", "")):
        # keep big-integer towers out of the campaign (see magnitude_guard): at most one power operator next to a few digits
        raise Skip("huge_power")
    case_noexec({"s": s, "kind": "fuzz"}, None)
    ureg = env.ureg("float")
    t = s.strip(" \t")
    tree = None
    # (ASCII only: Python NFKC-normalises identifiers - a fullwidth 'm' is the name m for ast.parse - pint keeps names as written)
    if t and t.isascii() and not any(ch in t for ch in "\n\r\\\f\v#;") and len(t) <= 64:
        try:
            tree = _strip_pos(_ast_to_tree(t, ast.parse(t, mode="eval").body))
        except (_NotInDomain, SyntaxError, ValueError, RecursionError, MemoryError):
            tree = None
    if tree is not None:
        magnitude_guard(tree)
        info["in_domain"] = True
        want = _outcome(lambda: evaluate(ureg, tree, "float"))
        got = _outcome(lambda: ureg.parse_expression(t))
        info["ok"] = want[0] == "ok"
        if col is not None:
            col.case(("fz", t), want[0] == "ok", sample={"text": t, "expected": show_res(want)}, cls="fuzz:differential")
        if want[0] != got[0]:
            if got[0] == "ok":
                raise Violation("fuzz:parsed_where_arithmetic_raises", f"{t!r} -> {show_res(got)}; Python's reading {tree} raises {want[1]}")
            raise Violation(f"fuzz:refused_valid_expression:{got[1]}", f"{t!r} raised {got[1]}: {got[2]}; Python's reading evaluates to {show_res(want)}")
        if want[0] == "err":
            if want[1] != got[1]:
                raise Violation(f"fuzz:different_error:{want[1]}->{got[1]}", f"{t!r}: parse raised {got[1]}, the tree raises {want[1]}")
        elif not _same(got[1], want[1], "float"):
            raise Violation("fuzz:wrong_value", f"{t!r} -> {show_res(got)}, Python's reading {tree} gives {show_res(want)}")
    elif t and set(t) <= _PLAIN_ALPHABET:
        unbalanced = t.count("(") != t.count(")")
        dangling = t.rstrip(" \t")[-1] in "*/+-" or t[0] in "*/" or re.search(r"[*/+\-][ \t]*\)", t) is not None
        if unbalanced or dangling:
            info["structure"] = True
            got = _outcome(lambda: ureg.parse_expression(t))
            if col is not None:
                col.case(("fzs", t), True, sample={"text": t}, cls="fuzz:structure")
            if got[0] == "ok":
                raise Violation("fuzz:malformed_input_yields_value:" + ("unbalanced" if unbalanced else "dangling"), f"{t!r} -> {show_res(got)}")
    return info


FUZZ_CORPUS = ["2*m", "3 m/s", "(2+3)*kg", "-2**2", "2**-3", "m**2/s", "2 // 3 * m", "4.5e3 * meter / second", "(m + m) * 2", "1/(2*3)", "--2", "-(m)", "2*(3+4)*kg/s**2",
               "(8.0 +/- 4.0) m", "1.25(5) s", "m²", "kg·m/s²", "3 meter per second", "5 m squared"]
FUZZ_DICT = ["**", "//", "+/-", "±", "(", ")", "m", "s", "kg", "meter", "second", " per ", " squared", "e3", "e-3", ".", "²", "·", "^", "2", "3.5", " ", "-", "+", "*", "/"]


def run_fuzz(task, tier, seed, col):
    import shutil
    import subprocess
    import tempfile

    budget = int(os.environ.get("VERIF_FUZZ_SECONDS", "20" if tier == "quick" else "240"))
    work = tempfile.mkdtemp(prefix="vf_c07_fuzz_")
    try:
        corpus = os.path.join(work, "corpus")
        os.makedirs(corpus)
        if task.get("corpus") == "seeded":
            for i, s in enumerate(FUZZ_CORPUS):
                with open(os.path.join(corpus, f"seed{i}"), "wb") as fh:
                    fh.write(s.encode("utf-8"))
        dict_file = os.path.join(work, "dict.txt")
        with open(dict_file, "w", encoding="utf-8") as fh:
            for tok in FUZZ_DICT:
                fh.write('"' + "".join(f"\\x{b:02x}" for b in tok.encode("utf-8")) + '"\n')
        out = os.path.join(work, "findings.jsonl")
        envv = dict(os.environ, VF_FUZZ_OUT=out)
        cmd = [sys.executable, "-m", "vf.fuzz.c07_target", corpus, f"-seed={seed * 1000 + task['shard'] + 1}", f"-max_total_time={budget}", "-max_len=64", f"-dict={dict_file}",
               "-timeout=60", "-rss_limit_mb=3000", f"-artifact_prefix={work}/art_", "-verbosity=0", "-print_final_stats=0"]
        p = subprocess.run(cmd, env=envv, stdout=subprocess.PIPE, stderr=subprocess.STDOUT, text=True, timeout=budget + 300)
        stats = {}
        if os.path.exists(out + ".stats"):
            stats = json.load(open(out + ".stats"))
        if not stats.get("execs"):
            raise HarnessError(f"fuzz target produced no statistics (exit {p.returncode}): {p.stdout[-800:]}")
        for k in ("execs", "in_domain", "in_domain_ok", "structure_checked", "skipped"):
            col.count("fuzz_" + k, int(stats.get(k, 0)))
        col.notes.append(f"atheris shard {task['shard']} ({task.get('corpus')} corpus): {stats.get('execs')} execs in {budget}s, {stats.get('in_domain')} in the differential domain "
                         f"({stats.get('distinct_in_domain')} distinct), {stats.get('structure_checked')} structure checks, exit {p.returncode}; samples {stats.get('samples', [])[:6]}")
        if p.returncode != 0:
            arts = [f for f in os.listdir(work) if f.startswith("art_")]
            col.notes.append(f"libFuzzer exit {p.returncode} artefacts {arts} (timeouts / crashes of the harness are inconclusive, not violations): {p.stdout[-300:]!r}")
            for a in arts:
                data = open(os.path.join(work, a), "rb").read()
                col.notes.append(f"artefact {a}: {data[:80]!r}")
        # every finding is re-decided in this process by the plain case function (the replay path), which registers the violation
        if os.path.exists(out):
            for line in open(out, encoding="utf-8"):
                f = json.loads(line)
                col.run_case(lambda c: case_fuzz(c, col), {"s": f["s"]})
        # a sample of the in-domain inputs is also recorded as ordinary cases so that evidence shows what the fuzzer reached
        for s in stats.get("samples", []):
            col.run_case(lambda c: case_fuzz(c, col), {"s": s})
    finally:
        shutil.rmtree(work, ignore_errors=True)
