"""C06 — offset and logarithmic units convert by their defining maps and refuse ambiguity.

Oracle: the affine maps (scale, offset) read by R from the definition files (exact Fractions) plus generated offset units with
rational scale/offset; a reference model of the documented offset calculus (docs/user/nonmult.rst) keyed by operand kind
A(bsolute) / O(ffset) / D(elta); the defining log maps for logarithmic units.
"""
from __future__ import annotations

import logging

import math
import operator
from fractions import Fraction

from hypothesis import strategies as st

from .. import env
from ..core import Collector, Skip, Violation, attempt, exc_class, hyp_search

PROPERTY = "C06"
LEVEL = "exploration"
RULE = ("convert: every ordered pair of temperature-like units (kelvin, degR, degC, degF, degRe, their deltas and 3 generated offset units with "
        "rational scale/offset) x Hypothesis magnitudes, Fraction registry, result == affine/scale map or DimensionalityError for offset<->delta; "
        "addsub / muldiv: every ordered pair x {+,-,*,/,**,number operands, both orders} x {autoconvert_offset_to_baseunit on/off}: unit and exact "
        "value (or OffsetUnitCalculusError) fixed by the reference model; inplace: ndarray in-place twins equal the functional forms; log: "
        "conversions among dBW/dBm/dBu/dB/decade/octave/Np and their linear references by the defining maps, mutual inverses, validity of "
        "arithmetic results. Non-trivial = operands with different (scale, offset), a generated unit, or an array in-place form; "
        "distinct = distinct (sub-check, units, operator, mode, magnitudes)")
ASSUMPTIONS = ["the reference model generalises the documented tables (nonmult.rst, TestOffsetUnitMath) from the bundled units to any (scale, offset)",
               "arithmetic on logarithmic units is only documented through conversions: results are checked for well-formedness and linear value, not for one expected unit"]
MIN_COUNTS = {"quick": {"convert": {"_evaluations": 1500}, "addsub": {"_evaluations": 2000}, "muldiv": {"_evaluations": 1500}}}

GEN = {"tA": (Fraction(3, 7), Fraction(11, 3)), "tB": (Fraction(9, 4), Fraction(-50)), "tC": (Fraction(1), Fraction(1, 2))}


def tasks(tier, seed):
    t = [{"sub": "convert", "shard": i} for i in range(2)]
    t += [{"sub": "addsub", "shard": i, "auto": bool(i % 2)} for i in range(4)]
    t += [{"sub": "muldiv", "shard": i, "auto": bool(i % 2)} for i in range(4)]
    t += [{"sub": "inplace", "shard": 0}, {"sub": "log", "shard": 0}, {"sub": "logarith", "shard": 0}, {"sub": "redef", "shard": 0}, {"sub": "order", "shard": 0}]
    return t


_REG = {}


def registry(auto=False, nit="Fraction"):
    k = (auto, nit)
    if k not in _REG:
        u = env.fresh(nit, autoconvert_offset_to_baseunit=auto)
        for name, (s, o) in GEN.items():
            u.define(f"{name} = {s.numerator}/{s.denominator} * kelvin; offset: {o.numerator}/{o.denominator}")
        _REG[k] = u
    return _REG[k]


STANDARD_SCALES = {"kelvin": (Fraction(1), Fraction(0)), "degree_Rankine": (Fraction(5, 9), Fraction(0)), "degree_Celsius": (Fraction(1), Fraction(27315, 100)),
                   "degree_Fahrenheit": (Fraction(5, 9), Fraction(45967, 180)), "degree_Reaumur": (Fraction(5, 4), Fraction(27315, 100))}


def units_table():
    """name -> (kind, scale, offset) ; kinds: A absolute multiplicative, O offset, D delta"""
    R = env.R()
    t = {}
    for n in ("kelvin", "degree_Rankine"):
        t[n] = ("A", R.resolve(n).factor, Fraction(0))
    for n in ("degree_Celsius", "degree_Fahrenheit", "degree_Reaumur"):
        t[n] = ("O", R.resolve(n).factor, R.offset_of(n))
    for n, (s, o) in GEN.items():
        t[n] = ("O", s, o)
    for n, (k, s, o) in list(t.items()):
        if k == "O":
            t["delta_" + n] = ("D", s, Fraction(0))
    return t


T = None


def tab():
    global T
    if T is None:
        T = units_table()
    return T


def to_k(x, u):
    k, s, o = tab()[u]
    return Fraction(x) * s + o


def from_k(v, u):
    k, s, o = tab()[u]
    return (v - o) / s


def conv(x, ua, ub):
    """documented conversion; raises KeyError('dim') when not allowed"""
    ka, kb = tab()[ua][0], tab()[ub][0]
    if (ka == "O" and kb == "D") or (ka == "D" and kb == "O"):
        raise KeyError("dim")
    if ka == "D" or kb == "D":
        return Fraction(x) * tab()[ua][1] / tab()[ub][1]  # scale only
    return from_k(to_k(x, ua), ub)


def conv_scale(x, ua, ub):
    return Fraction(x) * tab()[ua][1] / tab()[ub][1]


class ModelErr(Exception):
    pass


def model_addsub(op, x, ua, y, ub):
    f = operator.add if op == "+" else operator.sub
    ka, kb = tab()[ua][0], tab()[ub][0]
    x, y = Fraction(x), Fraction(y)
    if ka in "AD" and kb in "AD":
        if ua == ub:
            return f(x, y), ua
        if ka == "D" and kb != "D":
            return f(conv_scale(x, ua, ub), y), ub
        return f(x, conv_scale(y, ub, ua)), ua
    if op == "-" and ka == "O" and kb != "D":
        return x - conv(y, ub, ua), "delta_" + ua
    if op == "-" and kb == "O" and ka != "D":
        return x - conv(y, ub, ua), ua
    if ka == "O" and kb == "D":
        return f(x, conv_scale(y, ub, "delta_" + ua)), ua
    if kb == "O" and ka == "D":
        return f(conv_scale(x, ua, "delta_" + ub), y), ub
    raise ModelErr("OffsetUnitCalculusError")


def got_units(q):
    return {k: Fraction(v) for k, v in q._units.items()}


def xs():
    return st.one_of(st.integers(-300, 500), st.fractions(-300, 500, max_denominator=16), st.sampled_from([0, 1, Fraction("273.15"), Fraction("-459.67"), 100]))


# ------------------------------------------------------------------------------------- conversions

def case_convert(case, col=None):
    import pint

    ureg = registry(False)
    ua, ub, x = case["ua"], case["ub"], Fraction(case["x"])
    ka, kb = tab()[ua][0], tab()[ub][0]
    if col is not None:
        col.case(("c", ua, ub, str(x)), ua != ub and tab()[ua][1:] != tab()[ub][1:], sample={"x": x, "from": ua, "to": ub}, cls=f"{ka}->{kb}")
    q = ureg.Quantity(x, ua)
    s, r = attempt(q.to, ub)
    try:
        want = conv(x, ua, ub)
    except KeyError:
        if s == "ok":
            raise Violation("offset_delta_conversion_returned", f"Q({x},{ua}).to({ub}) returned {r.magnitude!r}; offset <-> delta must raise DimensionalityError")
        if not isinstance(r, pint.DimensionalityError):
            raise Violation(f"offset_delta_conversion_wrong_exception:{exc_class(r)}", f"{r!r}")
        return
    if s == "err":
        raise Violation(f"conversion_refused:{ka}->{kb}:{exc_class(r)}", f"Q({x},{ua}).to({ub}) raised {type(r).__name__}: {r}")
    if got_units(r) != {ub: 1}:
        raise Violation("conversion_wrong_unit", f"Q({x},{ua}).to({ub}) has units {dict(r._units)}")
    if isinstance(r.magnitude, float) or Fraction(r.magnitude) != want:
        raise Violation(f"conversion_wrong_value:{ka}->{kb}", f"Q({x},{ua}).to({ub}) = {r.magnitude!r}, defining map gives {want}")
    # mutual inverses
    back = r.to(ua)
    if Fraction(back.magnitude) != x:
        raise Violation("conversion_not_inverse", f"{x} {ua} -> {ub} -> {ua} = {back.magnitude!r}")
    # other entry points agree
    if Fraction(q.m_as(ub)) != want or Fraction(ureg.convert(x, ua, ub)) != want:
        raise Violation("conversion_entry_points_disagree", f"m_as/convert differ for Q({x},{ua}) -> {ub}")
    q2 = ureg.Quantity(x, ua)
    q2.ito(ub)
    if Fraction(q2.magnitude) != want or got_units(q2) != {ub: 1}:
        raise Violation("ito_differs_from_to", f"Q({x},{ua}).ito({ub}) -> {q2.magnitude!r}")
    # base units: offset and absolute units go to kelvin
    if ka != "D":
        b = q.to_base_units()
        if got_units(b) != {"kelvin": 1} or Fraction(b.magnitude) != to_k(x, ua):
            raise Violation("to_base_units_wrong", f"Q({x},{ua}).to_base_units() = {b.magnitude!r} {dict(b._units)}")


def case_compound(case, col=None):
    """A compound unit that contains an offset unit converts only with autoconvert_offset_to_baseunit (through base units), and never to a
    target of another dimension."""
    import pint

    auto = case["auto"]
    ureg = registry(auto)
    off, x, other, dst = case["off"], Fraction(case["x"]), case["other"], case["dst"]
    src = ureg.UnitsContainer({off: 1, other: 1})
    # the same unit written as a string: with as_delta=False the offset unit stays an offset unit (the default reading is delta_<unit>)
    for text in (f"{off} * {other}", f"{off} / {other}", f"{other} / {off}", f"{off} ** 2", f"1 / {off}", f"{off} ** -2", f"{off} ** 0.5", f"{off} ** -1"):
        s_, pu = attempt(ureg.parse_units, text, as_delta=False)
        if s_ == "ok":
            names_ = set(pu._units)
            if any(n.startswith("delta_") for n in names_) or off not in names_:
                raise Violation("as_delta_false_not_honoured", f"parse_units({text!r}, as_delta=False) = {dict(pu._units)}")
        s_, pu = attempt(ureg.parse_units, text)
        if s_ == "ok" and off in set(pu._units):
            raise Violation("default_as_delta_not_applied", f"parse_units({text!r}) = {dict(pu._units)}")
    targets = {"same_dim": ureg.UnitsContainer({"kelvin": 1, other: 1}), "drop_factor": ureg.UnitsContainer({"kelvin": 1}),
               "other_offset": ureg.UnitsContainer({"degree_Fahrenheit": 1}), "unrelated": ureg.UnitsContainer({"second": 1})}
    tgt = targets[dst]
    if col is not None:
        col.case(("cp", off, other, dst, auto, str(x)), True, sample=case, cls=f"{dst}:{'auto' if auto else 'strict'}")
    s, r = attempt(ureg.Quantity(x, src).to, tgt)
    if dst == "same_dim" and auto and s == "ok":
        # the statement allows this conversion to be refused (pint does refuse it); if a number comes back it must be the right one
        if Fraction(r.magnitude) != to_k(x, off):
            raise Violation("compound_offset_conversion_wrong_value", f"Q({x},{off}*{other}).to(kelvin*{other}) = {r.magnitude!r}, expected {to_k(x, off)}")
        return
    if s == "ok":
        raise Violation(f"compound_offset_conversion_returned:{dst}:{'auto' if auto else 'strict'}",
                        f"Q({x},{off}*{other}).to({dict(tgt)}) (autoconvert={auto}) returned {r.magnitude!r}; expected DimensionalityError")
    if not isinstance(r, pint.DimensionalityError):
        raise Violation(f"compound_offset_conversion_wrong_exception:{exc_class(r)}", f"{r!r}")


def case_scale(case, col=None):
    """the five bundled temperature scales are fixed by their definitions (0 degC = 273.15 K, 32 degF = 0 degC with 1.8 degF per kelvin, ...):
    what the definition files say, and what the registry computes, is compared with these constants (an error in the files is otherwise
    invisible to an oracle that reads the same files)"""
    R = env.R()
    n = case["unit"]
    s_, o_ = STANDARD_SCALES[n]
    if col is not None:
        col.case(("scale", n), True, sample=case, cls="standard_scale")
    got = (Fraction(R.resolve(n).factor), Fraction(R.offset_of(n) or 0))
    if got != (s_, o_):
        raise Violation(f"bundled_temperature_scale_differs_from_standard:{n}", f"definition files: 1 {n} = x * {got[0]} + {got[1]} K, standard x * {s_} + {o_} K")
    ureg = registry(False)
    for x in (Fraction(0), Fraction(100), Fraction(-40)):
        k = ureg.Quantity(x, n).to("kelvin").magnitude
        if isinstance(k, float) or Fraction(k) != x * s_ + o_:
            raise Violation(f"bundled_temperature_scale_differs_from_standard:{n}:registry", f"Q({x},{n}).to(kelvin) = {k!r}, standard {x * s_ + o_}")


def run_convert(task, tier, seed, col):
    if task["shard"] == 0:
        for n in STANDARD_SCALES:
            col.run_case(lambda c: case_scale(c, col), {"unit": n})
    offs = sorted(n for n, v in tab().items() if v[0] == "O")
    cstrat = st.builds(lambda o, x, other, dst, auto: {"off": o, "x": x, "other": other, "dst": dst, "auto": auto}, st.sampled_from(offs), xs(),
                       st.sampled_from(["meter", "second", "gram"]), st.sampled_from(["same_dim", "drop_factor", "other_offset", "unrelated"]), st.booleans())
    hyp_search(col, cstrat, lambda c: case_compound(c, col), max_examples=300 if tier == "quick" else 5000, seed=seed * 149 + task["shard"])
    names = sorted(tab())
    strat = st.builds(lambda a, b, x: {"ua": a, "ub": b, "x": x}, st.sampled_from(names), st.sampled_from(names), xs())
    hyp_search(col, strat, lambda c: case_convert(c, col), max_examples=1200 if tier == "quick" else 20000, seed=seed * 109 + task["shard"])


# ------------------------------------------------------------------------------------- addition / subtraction

def case_addsub(case, col=None):
    import pint

    auto = case["auto"]
    ureg = registry(auto)
    ua, ub, x, y, op = case["ua"], case["ub"], Fraction(case["x"]), Fraction(case["y"]), case["op"]
    ka, kb = tab()[ua][0], tab()[ub][0]
    if col is not None:
        col.case(("as", ua, ub, op, auto, str(x), str(y)), ua != ub, sample={"a": [x, ua], "op": op, "b": [y, ub], "autoconvert": auto}, cls=f"{ka}{op}{kb}")
    a, b = ureg.Quantity(x, ua), ureg.Quantity(y, ub)
    f = operator.add if op == "+" else operator.sub
    if kb != "O":
        _addsub_scaled_operand(ureg, f, op, a, x, ua, y, ub, ka, kb)
    s, r = attempt(f, a, b)
    try:
        wv, wu = model_addsub(op, x, ua, y, ub)
    except ModelErr:
        if s == "ok":
            raise Violation(f"ambiguous_operation_returned:{ka}{op}{kb}", f"Q({x},{ua}) {op} Q({y},{ub}) returned {r.magnitude!r} {dict(r._units)}; the documented rules refuse it")
        if not isinstance(r, pint.OffsetUnitCalculusError):
            raise Violation(f"ambiguous_operation_wrong_exception:{exc_class(r)}", f"{ua} {op} {ub}: {r!r}")
        return
    if s == "err":
        raise Violation(f"documented_operation_refused:{ka}{op}{kb}:{exc_class(r)}", f"Q({x},{ua}) {op} Q({y},{ub}) raised {type(r).__name__}: {r}")
    if got_units(r) != {wu: 1}:
        raise Violation(f"wrong_result_unit:{ka}{op}{kb}", f"Q({x},{ua}) {op} Q({y},{ub}) has units {dict(r._units)}, documented {wu}")
    if isinstance(r.magnitude, float) or Fraction(r.magnitude) != wv:
        raise Violation(f"wrong_result_value:{ka}{op}{kb}", f"Q({x},{ua}) {op} Q({y},{ub}) = {r.magnitude!r} {wu}, documented {wv}")
    if Fraction(a.magnitude) != x or Fraction(b.magnitude) != y or got_units(a) != {ua: 1} or got_units(b) != {ub: 1}:
        raise Violation("operand_modified", f"{ua} {op} {ub}")
    # scalar in-place form
    c = ureg.Quantity(x, ua)
    if op == "+":
        c += b
    else:
        c -= b
    if got_units(c) != {wu: 1} or Fraction(c.magnitude) != wv:
        raise Violation(f"inplace_differs:{ka}{op}{kb}", f"in-place {op}: {c.magnitude!r} {dict(c._units)} vs {wv} {wu}")
    # bare numbers: only zero is accepted by +/- (temperatures are not dimensionless)
    for n, ok in ((0, True), (3, False)):
        s2, r2 = attempt(f, a, n)
        if ok and s2 == "err":
            raise Violation("zero_refused", f"Q({x},{ua}) {op} 0 raised {r2!r}")
        if not ok and s2 == "ok":
            raise Violation("number_accepted", f"Q({x},{ua}) {op} 3 returned {r2.magnitude!r}")


def _addsub_scaled_operand(ureg, f, op, a, x, ua, y, ub, ka, kb):
    """The right operand written with a dimensionless scale in its units (y ub * 2 m / cm == 200*y ub): same physics, same rules."""
    import pint

    b2 = ureg.Quantity(y, ub) * ureg.Quantity(2, "meter") / ureg.Quantity(1, "centimeter")
    s, r = attempt(f, a, b2)
    try:
        wv, wu = model_addsub(op, x, ua, 200 * y, ub)
    except ModelErr:
        if s == "ok":
            raise Violation(f"ambiguous_operation_returned:{ka}{op}{kb}:scaled", f"Q({x},{ua}) {op} Q({y},{ub})*2m/cm returned {r.magnitude!r} {dict(r._units)}")
        if not isinstance(r, pint.OffsetUnitCalculusError):
            raise Violation(f"ambiguous_operation_wrong_exception:{exc_class(r)}:scaled", f"{ua} {op} {ub}*m/cm: {r!r}")
        return
    if s == "err":
        raise Violation(f"documented_operation_refused:{ka}{op}{kb}:scaled:{exc_class(r)}", f"Q({x},{ua}) {op} Q({y},{ub})*2m/cm raised {type(r).__name__}: {r}")
    if got_units(r) != {wu: 1}:
        s2, r2 = attempt(r.to, wu)
        if s2 == "err":
            raise Violation(f"wrong_result_unit:{ka}{op}{kb}:scaled", f"Q({x},{ua}) {op} Q({y},{ub})*2m/cm has units {dict(r._units)}, not convertible to {wu}: {r2!r}")
        r = r2
    if isinstance(r.magnitude, float) or Fraction(r.magnitude) != wv:
        raise Violation(f"wrong_result_value:{ka}{op}{kb}:scaled", f"Q({x},{ua}) {op} Q({y},{ub})*2m/cm = {r.magnitude!r} {wu}, the same sum with Q({200 * y},{ub}) is {wv}")


def run_addsub(task, tier, seed, col):
    names = sorted(tab())
    strat = st.builds(lambda a, b, x, y, op: {"ua": a, "ub": b, "x": x, "y": y, "op": op, "auto": task["auto"]},
                      st.sampled_from(names), st.sampled_from(names), xs(), xs(), st.sampled_from(["+", "-"]))
    hyp_search(col, strat, lambda c: case_addsub(c, col), max_examples=900 if tier == "quick" else 15000, seed=seed * 113 + task["shard"])


# ------------------------------------------------------------------------------------- multiplication, division, powers

def model_muldiv(op, a, b, auto):
    """a, b: ('q', x, unit) or ('n', number).  Returns (value, units dict) or raises ModelErr."""
    def is_o(t):
        return t[0] == "q" and tab()[t[2]][0] == "O"

    def root(t):
        # (value in root units, units dict)
        if t[0] == "n":
            return Fraction(t[1]), {}
        k, s, o = tab()[t[2]]
        if k == "O":
            return to_k(t[1], t[2]), {"kelvin": Fraction(1)}
        return Fraction(t[1]), {t[2]: Fraction(1)}

    if op == "**":
        base, k = a, b[1]
        if base[0] == "n":
            raise Skip("number_base")
        if is_o(base):
            if k == 1:
                return Fraction(base[1]), {base[2]: Fraction(1)}
            if k == 0:
                return Fraction(1), {}
            if not auto:
                raise ModelErr("OffsetUnitCalculusError")
            v, u = root(base)
            if v == 0 and k < 0:
                raise Skip("zero_division")
            return v ** k, {n: e * k for n, e in u.items()}
        v, u = root(base)
        if k == 0:
            return Fraction(1), {}
        if v == 0 and k < 0:
            raise Skip("zero_division")
        return v ** k, {n: e * k for n, e in u.items() if e * k != 0}
    if is_o(a) or is_o(b):
        if not auto:
            raise ModelErr("OffsetUnitCalculusError")
        # number operand: O * number keeps the offset unit (exponent 1); everything else goes through root units
        if op == "*" and is_o(a) and b[0] == "n":
            return Fraction(a[1]) * Fraction(b[1]), {a[2]: Fraction(1)}
        if op == "*" and is_o(b) and a[0] == "n":
            return Fraction(a[1]) * Fraction(b[1]), {b[2]: Fraction(1)}
        if op == "/" and is_o(a) and b[0] == "n":
            raise ModelErr("OffsetUnitCalculusError")
    (va, ua), (vb, ub) = root(a), root(b)
    if op == "/" and vb == 0:
        raise Skip("zero_division")
    v = va * vb if op == "*" else va / vb
    u = dict(ua)
    for n, e in ub.items():
        u[n] = u.get(n, 0) + (e if op == "*" else -e)
    return v, {n: e for n, e in u.items() if e != 0}


def case_muldiv(case, col=None):
    import pint

    auto = case["auto"]
    ureg = registry(auto)
    op = case["op"]
    A, B = tuple(case["a"]), tuple(case["b"])

    def build(t):
        return ureg.Quantity(Fraction(t[1]), t[2]) if t[0] == "q" else t[1]

    if A[0] == "n" and B[0] == "n":
        raise Skip("numbers_only")
    kinds = "".join(tab()[t[2]][0] if t[0] == "q" else "n" for t in (A, B))
    if col is not None:
        col.case(("md", str(A), op, str(B), auto), "O" in kinds, sample={"a": A, "op": op, "b": B, "autoconvert": auto}, cls=f"{kinds[0]}{op}{kinds[1]}:{'auto' if auto else 'strict'}")
    f = {"*": operator.mul, "/": operator.truediv, "**": operator.pow}[op]
    a, b = build(A), build(B)
    s, r = attempt(f, a, b)
    try:
        wv, wu = model_muldiv(op, A, B, auto)
    except ModelErr:
        if s == "ok":
            raise Violation(f"ambiguous_operation_returned:{kinds[0]}{op}{kinds[1]}:{'auto' if auto else 'strict'}",
                            f"{A} {op} {B} (autoconvert={auto}) returned {getattr(r, 'magnitude', r)!r} {dict(getattr(r, '_units', {}))}")
        if not isinstance(r, pint.OffsetUnitCalculusError):
            raise Violation(f"ambiguous_operation_wrong_exception:{exc_class(r)}", f"{A} {op} {B}: {r!r}")
        return
    if s == "err":
        if isinstance(r, ZeroDivisionError):
            raise Skip("zero_division")
        raise Violation(f"documented_operation_refused:{kinds[0]}{op}{kinds[1]}:{'auto' if auto else 'strict'}:{exc_class(r)}", f"{A} {op} {B} (autoconvert={auto}) raised {type(r).__name__}: {r}")
    gu = got_units(r) if hasattr(r, "_units") else {}
    gm = r.magnitude if hasattr(r, "_units") else r
    if gu != wu:
        raise Violation(f"wrong_result_unit:{kinds[0]}{op}{kinds[1]}:{'auto' if auto else 'strict'}", f"{A} {op} {B} (autoconvert={auto}): units {gu}, documented {wu}")
    if isinstance(gm, float):
        if op == "**" and case["b"][1] < 0:
            raise Skip("known_int_pow_float")
        if abs(gm - float(wv)) > 1e-9 * abs(float(wv)):
            raise Violation("wrong_result_value:float", f"{A} {op} {B}: {gm!r} vs {float(wv)!r}")
    elif Fraction(gm) != wv:
        raise Violation(f"wrong_result_value:{kinds[0]}{op}{kinds[1]}:{'auto' if auto else 'strict'}", f"{A} {op} {B} (autoconvert={auto}) = {gm!r} {gu}, documented {wv}")


def run_muldiv(task, tier, seed, col):
    names = sorted(tab())
    q = st.builds(lambda u, x: ("q", x, u), st.sampled_from(names), xs().map(Fraction))
    n = st.builds(lambda x: ("n", x), st.one_of(st.integers(-4, 5).filter(bool), st.fractions(-3, 3, max_denominator=5).filter(bool)))
    meter = st.builds(lambda x: ("q", x, "meter"), st.fractions(1, 9, max_denominator=4))
    operand = st.one_of(q, q, n, meter)

    @st.composite
    def strat(draw):
        op = draw(st.sampled_from(["*", "/", "**"]))
        if op == "**":
            return {"a": list(draw(q)), "op": op, "b": ["n", draw(st.sampled_from([0, 1, 2, -1, 3]))], "auto": task["auto"]}
        return {"a": list(draw(operand)), "op": op, "b": list(draw(operand)), "auto": task["auto"]}

    tab()["meter"] = ("A", Fraction(1), Fraction(0))
    hyp_search(col, strat(), lambda c: case_muldiv(c, col), max_examples=700 if tier == "quick" else 12000, seed=seed * 127 + task["shard"])


# ------------------------------------------------------------------------------------- ndarray in-place twins

def case_inplace(case, col=None):
    import numpy as np

    auto = case["auto"]
    ureg = registry(auto, "float")
    ua, ub, op = case["ua"], case["ub"], case["op"]
    xsv, ysv = case["xs"], case["ys"]
    if col is not None:
        col.case(("ip", ua, ub, op, auto, str(xsv)), True, sample=case, cls=f"{op}:{'auto' if auto else 'strict'}")
    mk = lambda vals, u: ureg.Quantity(np.array(vals, dtype=float), u)  # noqa: E731
    other = mk(ysv, ub) if ub != "number" else 2.0
    fop = {"+": operator.add, "-": operator.sub, "*": operator.mul, "/": operator.truediv, "**": operator.pow}[op]
    iop = {"+": operator.iadd, "-": operator.isub, "*": operator.imul, "/": operator.itruediv, "**": operator.ipow}[op]
    if op == "**":
        other = case["k"]
    # conversion in place equals conversion; a refused one leaves the array alone (whatever the reason of the refusal)
    for dst in ("kelvin", "degree_Fahrenheit", "meter", "second", "delta_degree_Celsius", "delta_degree_Fahrenheit", "delta_" + ua if not ua.startswith("delta_") and ua != "kelvin" and ua != "degree_Rankine" else "degree_Celsius"):
        a1 = mk(xsv, ua)
        r1 = attempt(a1.to, dst)
        a2 = mk(xsv, ua)
        r2 = attempt(a2.ito, dst)
        if r1[0] != r2[0]:
            raise Violation("ito_outcome_differs", f"{ua}->{dst}")
        if r1[0] == "ok" and not np.allclose(r1[1].magnitude, a2.magnitude, rtol=1e-12, atol=1e-9):
            raise Violation("ito_value_differs:array", f"{xsv} {ua} -> {dst}: to {r1[1].magnitude}, ito {a2.magnitude}")
        if r1[0] == "err" and (not np.array_equal(a2.magnitude, np.array(xsv, dtype=float)) or dict(a2._units) != dict(mk(xsv, ua)._units)):
            raise Violation("failed_ito_modified_array", f"{xsv} {ua}.ito({dst}) raised {type(r2[1]).__name__} but left {a2!r}")
        arr = np.array(xsv, dtype=float)
        r3 = attempt(ureg.convert, arr, ua, dst, inplace=True)
        if r3[0] != r1[0]:
            raise Violation("convert_inplace_outcome_differs", f"{ua}->{dst}")
        if r3[0] == "err" and not np.array_equal(arr, np.array(xsv, dtype=float)):
            raise Violation("failed_ito_modified_array:convert", f"convert({xsv}, {ua}, {dst}, inplace=True) raised {type(r3[1]).__name__} but left {arr!r}")
    plain = attempt(fop, mk(xsv, ua), other)
    target = mk(xsv, ua)
    keep = other.magnitude.copy() if hasattr(other, "_units") else None
    inpl = attempt(iop, target, other)
    if plain[0] != inpl[0]:
        raise Violation(f"inplace_outcome_differs:{op}", f"{ua} {op} {ub} (autoconvert={auto}): plain {plain[0]} {type(plain[1]).__name__}, in-place {inpl[0]} {type(inpl[1]).__name__}")
    if plain[0] == "err":
        if type(plain[1]) is not type(inpl[1]):
            raise Violation(f"inplace_error_differs:{op}", f"{type(plain[1]).__name__} vs {type(inpl[1]).__name__}")
        return
    p, i = plain[1], inpl[1]
    if dict(p._units) != dict(i._units) or not np.allclose(p.magnitude, i.magnitude, rtol=1e-12, atol=1e-12, equal_nan=True):
        raise Violation(f"inplace_value_differs:{op}", f"{ua} {op} {ub} (autoconvert={auto}): plain {p.magnitude} {dict(p._units)}, in-place {i.magnitude} {dict(i._units)}")
    if keep is not None and not (dict(other._units) == {ub: 1} and np.array_equal(other.magnitude, keep)):
        raise Violation(f"inplace_modified_other_operand:{op}", f"{ua} {op} {ub} (autoconvert={auto})")


def run_inplace(task, tier, seed, col):
    names = sorted(n for n in tab() if n != "meter")
    vals = st.lists(st.floats(-200, 400, allow_nan=False).map(lambda v: round(v, 2)), min_size=2, max_size=3)
    strat = st.builds(lambda a, b, op, x, y, auto, k: {"ua": a, "ub": b, "op": op, "xs": x, "ys": (y + y)[: len(x)], "auto": auto, "k": k},
                      st.sampled_from(names), st.sampled_from(names + ["number"]), st.sampled_from(["+", "-", "*", "/", "**"]), vals, vals, st.booleans(),
                      st.sampled_from([0, 1, 2]))
    hyp_search(col, strat, lambda c: case_inplace(c, col), max_examples=600 if tier == "quick" else 10000, seed=seed * 131)


# ------------------------------------------------------------------------------------- logarithmic units

def log_table():
    R = env.R()
    out = {}
    for n in env.unit_names("log"):
        u = R.units[n]
        ref = u.expr
        out[n] = {"scale": float(Fraction(ref.scale)), "ref": dict(ref.units), "base": float(u.modifiers["logbase"].scale), "factor": float(u.modifiers["logfactor"].scale)}
    return out


def case_log(case, col=None):
    import pint

    ureg = env.ureg("float")
    lt = log_table()
    a, b, x = case["a"], case["b"], case["x"]
    A, B = lt.get(a), lt.get(b)
    if col is not None:
        col.case(("lg", a, b, x), a != b, sample=case, cls=("log->log" if A and B else "log->lin" if A else "lin->log"))

    def lin(unit_info, v):
        return unit_info["scale"] * unit_info["base"] ** (v / unit_info["factor"])

    def refunit(info):
        return ureg.Quantity(1, ureg.UnitsContainer({k: float(e) for k, e in info["ref"].items()})).units if info["ref"] else ureg.dimensionless

    if A and B:
        same = A["ref"].keys() == B["ref"].keys()
        s, r = attempt(ureg.Quantity(x, a).to, b)
        if not same:
            if s == "ok":
                raise Violation("log_conversion_across_dimensions_returned", f"Q({x},{a}).to({b}) = {r.magnitude!r}")
            return
        if s == "err":
            raise Violation(f"log_conversion_refused:{exc_class(r)}", f"Q({x},{a}).to({b}) raised {r!r}")
        fa = float(Fraction(env.R().resolve_compound(A["ref"])[0])) if A["ref"] else 1.0
        fb = float(Fraction(env.R().resolve_compound(B["ref"])[0])) if B["ref"] else 1.0
        want = B["factor"] * math.log((lin(A, x) * fa) / (B["scale"] * fb)) / math.log(B["base"])
        if abs(r.magnitude - want) > 1e-9 * max(1.0, abs(want)):
            raise Violation("log_conversion_wrong_value", f"Q({x},{a}).to({b}) = {r.magnitude!r}, defining maps give {want!r}")
        back = r.to(a)
        if abs(back.magnitude - x) > 1e-9 * max(1.0, abs(x)):
            raise Violation("log_conversion_not_inverse", f"{x} {a} -> {b} -> {a} = {back.magnitude!r}")
        return
    if A:  # log -> its linear reference
        ru = refunit(A)
        s, r = attempt(ureg.Quantity(x, a).to, ru)
        if s == "err":
            raise Violation(f"log_to_linear_refused:{exc_class(r)}", f"Q({x},{a}).to({ru}) raised {r!r}")
        want = lin(A, x)
        if abs(r.magnitude - want) > 1e-9 * abs(want):
            raise Violation("log_to_linear_wrong_value", f"Q({x},{a}).to(ref) = {r.magnitude!r}, defining map {want!r}")
        back = r.to(a)
        if abs(back.magnitude - x) > 1e-9 * max(1.0, abs(x)):
            raise Violation("log_to_linear_not_inverse", f"{x} {a}: back {back.magnitude!r}")
        # in-place array conversion equals the scalar one
        import numpy as np

        arr = ureg.Quantity(np.array([x, x / 2.0, 0.0]), a)
        arr.ito(ru)
        exp = np.array([lin(A, x), lin(A, x / 2.0), lin(A, 0.0)])
        if not np.allclose(arr.magnitude, exp, rtol=1e-9):
            raise Violation("log_to_linear_inplace_array_differs", f"{[x, x / 2, 0]} {a} .ito(ref) = {arr.magnitude}, defining map {exp}")
        arr2 = ureg.Quantity(exp.copy(), ru)
        arr2.ito(a)
        if not np.allclose(arr2.magnitude, np.array([x, x / 2.0, 0.0]), rtol=1e-9, atol=1e-9):
            raise Violation("linear_to_log_inplace_array_differs", f"{exp} ref .ito({a}) = {arr2.magnitude}")


def run_log(task, tier, seed, col):
    lt = sorted(log_table())
    strat = st.builds(lambda a, b, x: {"a": a, "b": b, "x": round(x, 3)}, st.sampled_from(lt), st.sampled_from(lt + ["linear"]), st.floats(-60, 60, allow_nan=False))
    hyp_search(col, strat, lambda c: case_log(c, col), max_examples=500 if tier == "quick" else 8000, seed=seed * 137)


def case_logarith(case, col=None):
    """Arithmetic on log units: the operation raises, or returns a well-formed quantity (every unit defined, convertible to root units)."""
    ureg = env.ureg("float", autoconvert_offset_to_baseunit=case["auto"]) if case["auto"] else env.ureg("float")
    a, b, op = case["a"], case["b"], case["op"]
    if col is not None:
        col.case(("la", a, b, op, case["auto"]), True, sample=case, cls=op)
    qa = ureg.Quantity(case["x"], a)
    qb = ureg.Quantity(case["y"], b) if b != "number" else 2.0
    f = {"+": operator.add, "-": operator.sub, "*": operator.mul, "/": operator.truediv}[op]
    s, r = attempt(f, qa, qb)
    if s == "err":
        return
    if not hasattr(r, "_units"):
        return
    for name in r._units:
        s2, d = attempt(lambda: ureg.get_name(name))
        if s2 == "err":
            raise Violation(f"log_arithmetic_returns_undefined_unit:{op}", f"Q({case['x']},{a}) {op} Q({case['y']},{b}) -> unit {name!r} which the registry does not define")


def run_logarith(task, tier, seed, col):
    lt = sorted(log_table())
    strat = st.builds(lambda a, b, op, x, y, auto: {"a": a, "b": b, "op": op, "x": x, "y": y, "auto": auto}, st.sampled_from(lt), st.sampled_from(lt + ["number"]),
                      st.sampled_from(["+", "-", "*", "/"]), st.integers(-30, 30).map(float), st.integers(-30, 30).map(float), st.booleans())
    hyp_search(col, strat, lambda c: case_logarith(c, col), max_examples=400 if tier == "quick" else 6000, seed=seed * 139)


# ------------------------------------------------------------------------------------- an offset unit whose definition is replaced

def case_redef(case, col=None):
    """An offset unit defined as (s1, o1) and replaced by (s2, o2) - by a context that redefines it, or by a second define() on a registry built with
    on_redefinition 'warn' / 'ignore' - follows the affine map in force: absolute conversions, its delta unit (scale only), differences, offset + delta;
    after the context is left the first map is back."""
    import pint

    (s1, o1), (s2, o2), how, nit = (Fraction(*case["m1"][0]), Fraction(*case["m1"][1])), (Fraction(*case["m2"][0]), Fraction(*case["m2"][1])), case["how"], case["nit"]
    x, y = Fraction(*case["x"]), Fraction(*case["y"])
    if col is not None:
        col.case(("r", str(case)), (s1, o1) != (s2, o2), sample=case, cls=how + ":" + nit)
    logging.disable(logging.CRITICAL)
    try:
        ureg = env.fresh(nit, on_redefinition=("ignore" if how == "define_ignore" else "warn"))
        line = lambda s_, o_: f"degX = {s_.numerator}/{s_.denominator} * kelvin; offset: {o_.numerator}/{o_.denominator} = dgX"  # noqa: E731
        ureg.define(line(s1, o1))
        Q = ureg.Quantity
        T = env.NIT[nit]
        num = (lambda v: v) if nit == "Fraction" else (lambda v: T(v.numerator) / T(v.denominator))

        def battery(s_, o_, tag):
            want = {"abs": x * s_ + o_, "back": (x - o_) / s_, "delta": x * s_, "delta_in": x / s_, "diff": (x - y) * s_, "sum": x + y / s_, "sym": x * s_ + o_}
            asks = {"abs": lambda: Q(num(x), "degX").to("kelvin"), "back": lambda: Q(num(x), "kelvin").to("degX"), "delta": lambda: Q(num(x), "delta_degX").to("kelvin"),
                    "delta_in": lambda: Q(num(x), "delta_degC").to("delta_degX"), "diff": lambda: (Q(num(x), "degX") - Q(num(y), "degX")).to("kelvin"),
                    "sum": lambda: Q(num(x), "degX") + Q(num(y), "delta_degC"), "sym": lambda: Q(num(x), "dgX").to("kelvin")}
            for k_, fn in asks.items():
                s__, r = attempt(fn)
                if s__ == "err":
                    raise Violation(f"redefined_offset_unit_raised:{how}:{k_}:{exc_class(r)}", f"[{tag}] {case}: {k_} raised {type(r).__name__}: {r}")
                g = r.magnitude
                ok = (g == want[k_]) if nit == "Fraction" else abs(float(g) - float(want[k_])) <= 1e-9 * max(1.0, abs(float(want[k_])), abs(float(o_)), abs(float(x * s_)))
                if not ok:
                    raise Violation(f"redefined_offset_unit_wrong:{how}:{k_}", f"[{tag}] degX = {s_} K; offset {o_}: {k_} of x={x}, y={y} gives {g!r}, the affine map gives {want[k_]}")
                if k_ == "sum" and dict(r._units) != {"degX": 1}:
                    raise Violation(f"redefined_offset_unit_wrong:{how}:sum_unit", f"[{tag}] offset + delta gave units {dict(r._units)}")

        battery(s1, o1, "first definition")
        if how == "context":
            ureg.add_context(pint.Context.from_lines(["@context hot", line(s2, o2).split(" = dgX")[0]], non_int_type=T))
            with ureg.context("hot"):
                battery(s2, o2, "inside the redefining context")
            battery(s1, o1, "after leaving the context")
            with ureg.context("hot"):
                battery(s2, o2, "inside the redefining context again")
        else:
            ureg.define(line(s2, o2))
            battery(s2, o2, "after the second define()")
    finally:
        logging.disable(logging.NOTSET)


def run_redef(task, tier, seed, col):
    fr = st.tuples(st.integers(1, 9), st.integers(1, 5))
    off = st.tuples(st.integers(-300, 300).filter(bool), st.integers(1, 4))  # offset 0 would make it a plain scaled unit (no delta counterpart)
    strat = st.fixed_dictionaries({"m1": st.tuples(fr, off), "m2": st.tuples(fr, off), "how": st.sampled_from(["context", "context", "define_ignore", "define_warn"]), "nit": st.sampled_from(["Fraction", "float", "Decimal"]),
                                   "x": st.tuples(st.integers(-50, 50), st.integers(1, 4)), "y": st.tuples(st.integers(-50, 50), st.integers(1, 4))})
    hyp_search(col, strat, lambda c: case_redef(c, col), max_examples=60 if tier == "quick" else 1200, seed=seed * 149 + 3, shrink_budget_s=60)


# ------------------------------------------------------------------------------------- ordering across non-multiplicative units

def case_order_log(case, col=None):
    """< <= > >= between a logarithmic quantity and the same kind of quantity in another (logarithmic or linear) unit go through the defining map:
    the answer is the ordering of the two linear values (model: factor * log_base(x / reference) inverted with the constants of the definitions)"""
    import math
    import operator

    ureg = registry(False, "float")
    tabl = log_table()
    ua, ub, op = case["ua"], case["ub"], case["op"]

    def linear(x, u):
        if u not in tabl:
            return float(x) * float(env.R().resolve_spelling(u).factor) if u != "dimensionless" else float(x)
        t = tabl[u]
        return t["scale"] * t["base"] ** (float(x) / t["factor"])

    if col is not None:
        col.case(("ol", ua, ub, op, str(case["x"]), str(case["y"])), ua != ub, sample=case, cls="log_order")
    a, b = ureg.Quantity(float(case["x"]), ua if ua != "dimensionless" else ""), ureg.Quantity(float(case["y"]), ub if ub != "dimensionless" else "")
    la, lb = linear(case["x"], ua), linear(case["y"], ub)
    if abs(la - lb) <= 1e-9 * max(abs(la), abs(lb)):
        raise Skip("values_too_close_for_float_ordering")
    s_, got = attempt(getattr(operator, op), a, b)
    if s_ == "err":
        raise Violation(f"ordering_across_log_units_raised:{op}:{exc_class(got)}", f"{a!r} {op} {b!r}: {got!r}")
    want = getattr(operator, op)(la, lb)
    if bool(got) != want:
        raise Violation(f"ordering_ignores_logarithmic_map:{op}", f"Q({case['x']},{ua}) {op} Q({case['y']},{ub}) is {got}; the linear values are {la!r} and {lb!r}")


def case_compare_number(case, col=None):
    """comparing an array quantity in a dimensionless-but-not-unitless unit (dB, Np, percent, degree ...) with a plain number reads the operand, it does
    not rewrite it: the array and the unit are what they were and the same comparison gives the same answer again"""
    import operator

    import numpy as np

    ureg = registry(False, "float")
    u, op = case["unit"], case["op"]
    if col is not None:
        col.case(("cn", u, op, str(case["n"])), True, sample=case, cls="compare_number")
    q = ureg.Quantity(np.array([3.0, 13.0, 23.0]), u)
    keep = q.magnitude.copy()
    f = getattr(operator, op)
    r1 = attempt(f, q, case["n"])
    if not np.array_equal(q.magnitude, keep) or dict(q._units) != dict(ureg.Quantity(1.0, u)._units):
        raise Violation(f"comparison_modified_operand:{op}", f"Q([3 13 23],{u}) {op} {case['n']!r}: the operand is now {q!r}")
    r2 = attempt(f, q, case["n"])
    if r1[0] != r2[0] or (r1[0] == "ok" and not np.array_equal(np.asarray(r1[1]), np.asarray(r2[1]))):
        raise Violation(f"same_comparison_twice_differs:{op}", f"Q([3 13 23],{u}) {op} {case['n']!r}: first {r1[1]!r}, then {r2[1]!r}")


def run_order(task, tier, seed, col):
    for u_ in ("decibel", "neper", "octave", "percent", "degree", "meter / kilometer", "dimensionless"):
        for op_ in ("lt", "le", "gt", "ge", "eq", "ne"):
            for n_ in (15.0, 0, 2):
                col.run_case(lambda c: case_compare_number(c, col), {"unit": u_, "op": op_, "n": n_})
    from .c03 import CMP_OPS, TEMP_UNITS, case_offsetcmp

    zeros = sorted({o for _, o in TEMP_UNITS.values()})
    names = sorted(TEMP_UNITS)
    temp = st.builds(lambda ua, ub, ta, tb, op: {"Ta": ta, "Tb": tb, "ua": ua, "ub": ub, "op": op}, st.sampled_from(names), st.sampled_from(names), st.one_of(st.sampled_from(zeros), st.fractions(0, 1000, max_denominator=100)),
                     st.one_of(st.sampled_from(zeros), st.fractions(0, 1000, max_denominator=100)), st.sampled_from(["<", "<=", ">", ">="] if "<" in CMP_OPS else sorted(CMP_OPS)))
    hyp_search(col, temp, lambda c: case_offsetcmp(c, col), max_examples=600 if tier == "quick" else 10000, seed=seed * 151 + 1)
    pure = [n for n, t in log_table().items() if not t["ref"]]  # logarithmic units of a plain ratio (dB, Np, octave, decade ...)
    logs = st.builds(lambda ua, ub, x, y, op: {"ua": ua, "ub": ub, "x": x, "y": y, "op": op}, st.sampled_from(pure), st.sampled_from(pure + ["dimensionless", "percent"]), st.integers(-30, 30), st.integers(-30, 30).map(lambda v: v if v else 1),
                     st.sampled_from(["lt", "le", "gt", "ge"]))
    hyp_search(col, logs, lambda c: case_order_log(c, col), max_examples=400 if tier == "quick" else 6000, seed=seed * 151 + 2)


def run_task(task, tier, seed, col):
    {"convert": run_convert, "addsub": run_addsub, "muldiv": run_muldiv, "inplace": run_inplace, "log": run_log, "logarith": run_logarith, "redef": run_redef, "order": run_order}[task["sub"]](task, tier, seed, col)


def replay(sub, case):
    if sub == "redef":
        return case_redef(case)
    if sub == "order":
        from .c03 import case_offsetcmp

        return case_offsetcmp(case) if "Ta" in case else (case_compare_number(case) if "n" in case else case_order_log(case))
    if sub == "convert" and set(case) == {"unit"}:
        return case_scale(case)
    if sub == "muldiv":
        tab()["meter"] = ("A", Fraction(1), Fraction(0))
    return {"convert": case_convert, "addsub": case_addsub, "muldiv": case_muldiv, "inplace": case_inplace, "log": case_log, "logarith": case_logarith}[sub if not (sub == "convert" and "off" in case) else "compound"](case) if not (sub == "convert" and "off" in case) else case_compound(case)
