"""C17 — wraps / check decorators hand over correct magnitudes and enforce dimensions.

Oracle: an independent re-implementation of the documented contract: per parameter the value the wrapped function must see (converted with
R's exact factors), the re-wrapped return value, or the expected exception class.
"""
from __future__ import annotations

import inspect
from fractions import Fraction

from hypothesis import strategies as st

from .. import env
from ..core import Collector, Skip, Violation, attempt, exc_class, hyp_search

PROPERTY = "C17"
LEVEL = "exploration"
RULE = ("wraps: Hypothesis signatures of 1-5 positional-or-keyword parameters with a suffix of defaults; per parameter a spec among unit string, Unit object, "
        "None, '=A' definitions and references '=A', '=A*B', '=A**2', '=A/B'; call shapes: positional, keyword (in any order), omitted default; arguments: "
        "quantity in another compatible unit, incompatible unit, bare number, string; strict on/off; ret: None, unit, reference, tuple/list. The recorder "
        "function must see exactly the expected magnitudes (exact Fractions), the result must be re-wrapped in the declared or derived units, and errors "
        "must have the documented class. check: dimension specs incl. None, same call shapes, raises DimensionalityError exactly when a dimension differs; every derived dimension name and SI special-name unit against the SI base exponents of oracle/dimtable.py (exact dimension accepted, each base exponent +-1 refused; enumerated). wraps also applies one decorator object to a sibling function first. "
        "decoration: count mismatch / bad spec types / undefined references are rejected at decoration time. Non-trivial = a call with a keyword or "
        "default-supplied argument and a reference spec, or a None between two unit specs; distinct = distinct (signature, specs, call)")
ASSUMPTIONS = ["keyword-only and variadic parameters are outside the documented contract of wraps (it packs by position) and are not generated",
               "when several arguments are each sufficient for an error, any of the documented error classes is accepted"]
MIN_COUNTS = {"quick": {"wraps": {"_evaluations": 800, "keyword_or_default_with_reference": 60, "keywords_out_of_order": 60}, "check": {"_evaluations": 300}}}

POOL = {"L": ["meter", "centimeter", "inch", "kilometer"], "T": ["second", "minute", "millisecond"], "M": ["gram", "kilogram", "pound"]}
DIMS = list(POOL)


def tasks(tier, seed):
    return [{"sub": "wraps", "shard": i} for i in range(4)] + [{"sub": "check", "shard": i} for i in range(2)] + [{"sub": "decoration", "shard": 0}]


def fac(u):
    return Fraction(env.R().resolve_spelling(u).factor)


def dim_of(u):
    return next(k for k, v in POOL.items() if u in v)


# ------------------------------------------------------------------------------------- wraps

@st.composite
def wraps_cases(draw):
    n = draw(st.integers(1, 5))
    params = []
    names = []  # bound reference names in order of definition
    for i in range(n):
        kinds = ["unit", "unit", "unitobj", "none", "def"]
        if names:
            kinds += ["ref", "ref"]
        kind = draw(st.sampled_from(kinds))
        p = {"kind": kind}
        if kind in ("unit", "unitobj"):
            d = draw(st.sampled_from(DIMS))
            p["unit"] = draw(st.sampled_from(POOL[d]))
        elif kind == "def":
            p["name"] = "ABCDE"[len(names)]
            names.append(p["name"])
        elif kind == "ref":
            form = draw(st.sampled_from(["A", "A*B", "A**2", "A/B", "A*A", "A/B", "A**-1", "A/B**2", "A**2/B"]))
            a = draw(st.sampled_from(names))
            b = draw(st.sampled_from([x for x in names if x != a] or names))  # a quotient of two different references when there are two
            p["expr"] = form.replace("A", a).replace("B", b) if form != "A*A" else f"{a}*{a}"
        params.append(p)
    first_default = draw(st.integers(1, n))
    # arguments
    for i, p in enumerate(params):
        p["has_default"] = i >= first_default
        arg = {}
        if p["kind"] in ("unit", "unitobj"):
            d = dim_of(p["unit"])
            how = draw(st.sampled_from(["ok", "ok", "ok", "wrongdim", "number", "string"]))
            arg["how"] = how
            arg["unit"] = draw(st.sampled_from(POOL[d])) if how in ("ok", "string") else draw(st.sampled_from(POOL[[x for x in DIMS if x != d][0]]))
        elif p["kind"] == "def":
            arg["how"] = "ok"
            arg["unit"] = draw(st.sampled_from(POOL[draw(st.sampled_from(DIMS))]))
        elif p["kind"] == "ref":
            arg["how"] = draw(st.sampled_from(["ok", "ok", "ok", "wrongdim"]))
            arg["unit"] = None  # filled in when the bound units are known
            arg["pick"] = draw(st.integers(0, 3))
        else:
            arg["how"] = draw(st.sampled_from(["ok", "number", "object"]))
            arg["unit"] = draw(st.sampled_from(POOL["L"]))
        arg["x"] = draw(st.fractions(1, 20, max_denominator=6))
        p["arg"] = arg
        p["default_arg"] = dict(arg, x=draw(st.fractions(1, 20, max_denominator=6)))
        p["pass"] = draw(st.sampled_from(["pos", "kw", "omit"])) if p["has_default"] else draw(st.sampled_from(["pos", "pos", "kw"]))
    seen_nonpos = False
    for p in params:
        if p["pass"] != "pos":
            seen_nonpos = True
        elif seen_nonpos:
            p["pass"] = "kw"
    kw_order = draw(st.permutations([i for i, p in enumerate(params) if p["pass"] == "kw"]))
    ret = draw(st.sampled_from(["none", "unit", "ref", "tuple", "list"])) if names else draw(st.sampled_from(["none", "unit", "tuple"]))
    ret_spec = {"kind": ret, "unit": draw(st.sampled_from(POOL["L"] + POOL["T"])), "expr": None}
    if ret in ("ref", "list") and names:
        a = draw(st.sampled_from(names))
        ret_spec["expr"] = draw(st.sampled_from([a, f"{a}**2", f"{a}*{names[0]}", f"{a}/{names[-1]}", f"{names[0]}/{a}", f"{a}**-1", f"{names[0]}/{a}**2"]))
    return {"params": params, "kw_order": list(kw_order), "strict": draw(st.booleans()), "ret": ret_spec, "reuse": draw(st.sampled_from([None, None, "reversed", "renamed"]))}


def spec_of(ureg, p):
    if p["kind"] == "unit":
        return p["unit"]
    if p["kind"] == "unitobj":
        return ureg.Unit(p["unit"])
    if p["kind"] == "none":
        return None
    if p["kind"] == "def":
        return "=" + p["name"]
    return "=" + p["expr"]


def eval_units_expr(expr, bound):
    """expr over bound names (A, A*B, A**2, A/B) -> {unit: exponent}"""
    out = {}
    from ..oracle.defreader import parse_expr

    v = parse_expr(expr)
    for name, e in v.units.items():
        for u, x in bound[name].items():
            out[u] = out.get(u, 0) + x * e
    return {u: x for u, x in out.items() if x != 0}


class Marker:
    """an arbitrary non-quantity object passed through a None slot"""

    def __init__(self, tag):
        self.tag = tag


def case_wraps(case, col=None):
    import pint

    R = env.R()
    ureg = env.ureg("Fraction")
    params = case["params"]
    n = len(params)
    pnames = [f"p{i}" for i in range(n)]
    strict = case["strict"]
    # ---- build argument objects and the expected view of the wrapped function
    bound = {}
    effective = []
    for p in params:
        which = p["default_arg"] if p["pass"] == "omit" else p["arg"]
        effective.append(which)
    # definitions first (they are bound from the effective values)
    objs = [None] * n
    for i, (p, a) in enumerate(zip(params, effective)):
        if p["kind"] == "def":
            objs[i] = ureg.Quantity(a["x"], a["unit"])
            bound[p["name"]] = {a["unit"]: Fraction(1)}
    expected = [None] * n
    errors = set()
    for i, (p, a) in enumerate(zip(params, effective)):
        x = Fraction(a["x"])
        if p["kind"] == "def":
            expected[i] = ("value", x)
        elif p["kind"] in ("unit", "unitobj"):
            if a["how"] in ("ok", "wrongdim"):
                objs[i] = ureg.Quantity(x, a["unit"])
                if a["how"] == "ok":
                    expected[i] = ("value", x * fac(a["unit"]) / fac(p["unit"]))
                else:
                    errors.add("DimensionalityError")
            elif a["how"] == "number":
                objs[i] = x
                if strict:
                    errors.add("ValueError")
                else:
                    expected[i] = ("value", x)
            else:
                objs[i] = f"{x.numerator}/{x.denominator} {a['unit']}"
                if strict:
                    expected[i] = ("value", x * fac(a["unit"]) / fac(p["unit"]))
                else:
                    expected[i] = ("same", objs[i])
        elif p["kind"] == "ref":
            target = eval_units_expr(p["expr"], bound)
            tf = Fraction(1)
            for u, e in target.items():
                tf *= fac(u) ** int(e)
            if a["how"] == "ok":
                # the same expression over other units of the same dimensions
                alt = {}
                for u, e in target.items():
                    u2 = POOL[dim_of(u)][a["pick"] % len(POOL[dim_of(u)])]
                    alt[u2] = alt.get(u2, 0) + e
                alt = {u: e for u, e in alt.items() if e != 0}
                af = Fraction(1)
                for u, e in alt.items():
                    af *= fac(u) ** int(e)
                objs[i] = ureg.Quantity(x, ureg.UnitsContainer({u: int(e) for u, e in alt.items()}))
                expected[i] = ("value", x * af / tf)
            else:
                wrong = "second" if not target or any(dim_of(u) != "T" for u in target) else "meter"
                tdims = {}
                for u, e in target.items():
                    tdims[dim_of(u)] = tdims.get(dim_of(u), 0) + e
                tdims = {k: v for k, v in tdims.items() if v != 0}
                if tdims == {dim_of(wrong): 1}:
                    wrong = "gram"
                objs[i] = ureg.Quantity(x, wrong)
                errors.add("DimensionalityError")
        else:  # None: the object is handed over untouched
            if a["how"] == "ok":
                objs[i] = ureg.Quantity(x, a["unit"])
            elif a["how"] == "number":
                objs[i] = x
            else:
                objs[i] = Marker(i)
            expected[i] = ("same", objs[i])
    sig = inspect.Signature([inspect.Parameter(nm, inspect.Parameter.POSITIONAL_OR_KEYWORD,
                                               default=(objs[i] if (params[i]["has_default"] and params[i]["pass"] == "omit") else
                                                        (_default_obj(ureg, params[i]) if params[i]["has_default"] else inspect.Parameter.empty)))
                             for i, nm in enumerate(pnames)])
    seen = {}
    ret = case["ret"]

    def recorder(*a, **k):
        ba = sig.bind(*a, **k)
        ba.apply_defaults()
        seen.update(ba.arguments)
        if ret["kind"] in ("tuple", "list"):
            return (Fraction(7), Fraction(9))
        return Fraction(7)

    recorder.__signature__ = sig
    recorder.__name__ = "recorder"
    ret_units = None
    if ret["kind"] == "none":
        rspec = None
    elif ret["kind"] == "unit":
        rspec = ret["unit"]
    elif ret["kind"] == "ref":
        rspec = "=" + ret["expr"]
    elif ret["kind"] == "tuple":
        rspec = (ret["unit"], None)
    else:
        rspec = ["=" + ret["expr"], ret["unit"]]
    def decorate():
        deco = ureg.wraps(rspec, tuple(spec_of(ureg, p) for p in params), strict=strict)
        if case.get("reuse"):
            # the decorator object is first applied to (and used through) a sibling function with the same parameter names in another order, or other
            # names: the declared units belong to positions, and what the sibling did must not show in the function under test
            snames = list(reversed(pnames)) if case["reuse"] == "reversed" else [f"s{i}" for i in range(n)]
            ssig = inspect.Signature([inspect.Parameter(nm, inspect.Parameter.POSITIONAL_OR_KEYWORD) for nm in snames])

            def sibling(*a, **k):
                return (Fraction(7), Fraction(9)) if ret["kind"] in ("tuple", "list") else Fraction(7)

            sibling.__signature__ = ssig
            sibling.__name__ = "sibling"
            sw = deco(sibling)
            attempt(sw, *objs[:1], **{snames[i]: objs[i] for i in range(1, n)})
            attempt(sw, **{snames[i]: objs[i] for i in range(n)})
        return deco(recorder)

    s, wrapped = attempt(decorate)
    if s == "err":
        raise Violation(f"valid_decoration_refused:{exc_class(wrapped)}", f"wraps({rspec!r}, {[spec_of(ureg, p) for p in params]!r}) raised {type(wrapped).__name__}: {wrapped}")
    pos = [objs[i] for i, p in enumerate(params) if p["pass"] == "pos"]
    kw = {pnames[i]: objs[i] for i in case["kw_order"]}
    if col is not None:
        has_ref = any(p["kind"] == "ref" for p in params)
        nonpos = any(p["pass"] != "pos" for p in params)
        kwidx = case["kw_order"]
        col.case(("w", str(case)), (has_ref and nonpos) or _none_between_units(params) or bool(case.get("reuse")), sample=_sample(case), cls="strict" if strict else "lenient")
        if case.get("reuse"):
            col.count("decorator_object_reused")
        if has_ref and nonpos:
            col.count("keyword_or_default_with_reference")
        if kwidx != sorted(kwidx) or any(params[i]["pass"] == "omit" and any(params[j]["pass"] == "kw" for j in range(i + 1, n)) for i in range(n)):
            col.count("keywords_out_of_order")
    s, out = attempt(wrapped, *pos, **kw)
    if errors:
        if s == "ok":
            raise Violation(f"wraps_accepted_bad_argument:{'/'.join(sorted(errors))}", f"{_sample(case)}: the call returned {out!r}; expected {sorted(errors)}")
        if type(out).__name__ not in errors:
            raise Violation(f"wraps_wrong_exception:{exc_class(out)}", f"{_sample(case)}: raised {type(out).__name__}: {out}; expected {sorted(errors)}")
        return
    if s == "err":
        raise Violation(f"wraps_refused_valid_call:{exc_class(out)}", f"{_sample(case)}: raised {type(out).__name__}: {out}")
    for i, nm in enumerate(pnames):
        kind, want = expected[i]
        got = seen.get(nm)
        if kind == "same":
            if got is not want:
                raise Violation("wraps_touched_none_slot", f"{_sample(case)}: parameter {nm} received {got!r}, the caller passed {want!r}")
        else:
            if isinstance(got, float) or hasattr(got, "_units") or got != want:
                raise Violation(f"wraps_wrong_magnitude:{params[i]['kind']}:{params[i]['pass']}", f"{_sample(case)}: parameter {nm} received {got!r}, expected {want}")
    # return value
    def units_of(q):
        return {k: Fraction(v) for k, v in q._units.items()}

    if ret["kind"] == "none":
        if out != Fraction(7) or hasattr(out, "_units"):
            raise Violation("wraps_return_none_spec", f"{out!r}")
    elif ret["kind"] == "unit":
        if not hasattr(out, "_units") or out.magnitude != 7 or units_of(out) != {ret["unit"]: 1}:
            raise Violation("wraps_return_unit", f"{_sample(case)}: returned {out!r}, expected 7 {ret['unit']}")
    elif ret["kind"] == "ref":
        want = eval_units_expr(ret["expr"], bound)
        if not hasattr(out, "_units") or out.magnitude != 7 or units_of(out) != want:
            raise Violation("wraps_return_reference", f"{_sample(case)}: returned {out!r}, expected 7 {want}")
    elif ret["kind"] == "tuple":
        if not isinstance(out, tuple) or len(out) != 2 or not hasattr(out[0], "_units") or out[0].magnitude != 7 or units_of(out[0]) != {ret["unit"]: 1} or out[1] != 9 or hasattr(out[1], "_units"):
            raise Violation("wraps_return_tuple", f"{_sample(case)}: returned {out!r}")
    else:
        want = eval_units_expr(ret["expr"], bound)
        if not isinstance(out, list) or len(out) != 2 or not all(hasattr(o, "_units") for o in out) or units_of(out[0]) != want or out[0].magnitude != 7 or units_of(out[1]) != {ret["unit"]: 1} or out[1].magnitude != 9:
            raise Violation("wraps_return_list", f"{_sample(case)}: returned {out!r}, expected [7 {want}, 9 {ret['unit']}]")


def _default_obj(ureg, p):
    """default of a parameter that the call does pass explicitly: must not be used"""
    return ureg.Quantity(Fraction(123456), "parsec")


def _none_between_units(params):
    kinds = [p["kind"] for p in params]
    return any(kinds[i] == "none" and i > 0 and i < len(kinds) - 1 and kinds[i - 1] != "none" and kinds[i + 1] != "none" for i in range(len(kinds)))


def _sample(case):
    return {"specs": [(p["kind"], p.get("unit") or p.get("name") or p.get("expr")) for p in case["params"]],
            "call": [(p["pass"], p["arg"]["how"], p["arg"].get("unit"), str(p["arg"]["x"])) for p in case["params"]], "kw_order": case["kw_order"], "strict": case["strict"], "ret": case["ret"]["kind"], "reuse": case.get("reuse")}


def run_wraps(task, tier, seed, col):
    hyp_search(col, wraps_cases(), lambda c: case_wraps(c, col), max_examples=500 if tier == "quick" else 10000, seed=seed * 263 + task["shard"])


# ------------------------------------------------------------------------------------- check

@st.composite
def check_cases(draw):
    n = draw(st.integers(1, 5))
    first_default = draw(st.integers(1, n))
    params = []
    for i in range(n):
        d = draw(st.sampled_from(DIMS + [None, "dimensionless"]))
        form = draw(st.sampled_from(["dimstr", "unit", "container", "dimexpr"]))
        ad = draw(st.sampled_from(DIMS + ["number"]))
        same = draw(st.booleans())
        p = {"dim": d, "form": form, "has_default": i >= first_default}
        adim = (d if d in DIMS else ("number" if d == "dimensionless" else ad)) if same else ad
        p["arg"] = {"dim": adim, "unit": draw(st.sampled_from(POOL[adim])) if adim in POOL else None, "compound": draw(st.booleans())}
        p["default"] = {"dim": adim if draw(st.booleans()) else ad, "unit": None}
        p["default"]["unit"] = draw(st.sampled_from(POOL[p["default"]["dim"]])) if p["default"]["dim"] in POOL else None
        p["pass"] = draw(st.sampled_from(["pos", "kw", "omit"])) if p["has_default"] else draw(st.sampled_from(["pos", "pos", "kw"]))
        params.append(p)
    seen_nonpos = False
    for p in params:
        if p["pass"] != "pos":
            seen_nonpos = True
        elif seen_nonpos:
            p["pass"] = "kw"
    kw_order = draw(st.permutations([i for i, p in enumerate(params) if p["pass"] == "kw"]))
    return {"params": params, "kw_order": list(kw_order)}


DIMNAME = {"L": "[length]", "T": "[time]", "M": "[mass]"}
DIMEXPR = {"L": ["[area] / [length]", "[energy] / [force]", "[velocity] * [time]", "[volume] / [area]", "[force] / [pressure] / [length]"],
           "T": ["[length] / [velocity]", "1 / [frequency]", "[momentum] / [force]", "[energy] / [power]", "[velocity] / [acceleration]"],
           "M": ["[force] / [acceleration]", "[density] * [volume]", "[pressure] * [area] / [acceleration]", "[energy] / [velocity] ** 2", "[momentum] / [velocity]"]}


def _dimexpr_selfcheck():
    from ..oracle.defreader import parse_expr

    R = env.R()
    for k, alts in DIMEXPR.items():
        for a in alts:
            assert R.dim_of_dimexpr(parse_expr(a)) == {DIMNAME[k]: 1}, (k, a, R.dim_of_dimexpr(parse_expr(a)))


def case_check(case, col=None):
    import pint

    ureg = env.ureg("Fraction")
    params = case["params"]
    n = len(params)
    pnames = [f"p{i}" for i in range(n)]

    def mk(a):
        if a["dim"] == "number" or a["unit"] is None:
            return Fraction(3)
        q = ureg.Quantity(Fraction(3), a["unit"])
        if a.get("compound"):
            q = q * ureg.Quantity(2, "radian")  # dimensionless factor: dimension unchanged
        return q

    specs = []
    for p in params:
        if p["dim"] is None:
            specs.append(None)
        elif p["dim"] == "dimensionless":
            specs.append("" if p["form"] != "container" else ureg.UnitsContainer({}))
        elif p["form"] == "dimstr":
            specs.append(DIMNAME[p["dim"]])
        elif p["form"] == "dimexpr":
            # the same dimension written through derived dimension names (nested ones, with exponents other than 1)
            alts = DIMEXPR[p["dim"]]
            specs.append(alts[(len(params) + len(specs)) % len(alts)])
        elif p["form"] == "unit":
            specs.append(POOL[p["dim"]][0])
        else:
            specs.append(ureg.UnitsContainer({DIMNAME[p["dim"]]: 1}))
    sig = inspect.Signature([inspect.Parameter(nm, inspect.Parameter.POSITIONAL_OR_KEYWORD, default=(mk(p["default"]) if p["has_default"] else inspect.Parameter.empty)) for nm, p in zip(pnames, params)])

    def fn(*a, **k):
        return "called"

    fn.__signature__ = sig
    fn.__name__ = "fn"
    s, wrapped = attempt(lambda: ureg.check(*specs)(fn))
    if s == "err":
        raise Violation(f"check_decoration_refused:{exc_class(wrapped)}", f"check({specs!r}) raised {wrapped!r}")
    effective = [(p["default"] if p["pass"] == "omit" else p["arg"]) for p in params]
    bad = []
    for i, (p, a) in enumerate(zip(params, effective)):
        if p["dim"] is None:
            continue
        want = "number" if p["dim"] == "dimensionless" else p["dim"]
        if a["dim"] != want:
            bad.append(i)
    pos = [mk(p["arg"]) for p in params if p["pass"] == "pos"]
    kw = {pnames[i]: mk(params[i]["arg"]) for i in case["kw_order"]}
    if col is not None:
        col.case(("k", str(case)), any(p["pass"] != "pos" for p in params) and n > 1, sample={"specs": [str(x) for x in specs], "call": [(p["pass"], p["arg"]["dim"], p["default"]["dim"]) for p in params], "kw_order": case["kw_order"]},
                 cls="should_raise" if bad else "should_pass")
    s, out = attempt(wrapped, *pos, **kw)
    if bad:
        if s == "ok":
            raise Violation("check_accepted_wrong_dimension", f"specs {[str(x) for x in specs]}, call {[(p['pass'], p['arg']['dim'], p['default']['dim']) for p in params]}: parameters {bad} have the wrong dimension")
        if not isinstance(out, pint.DimensionalityError):
            raise Violation(f"check_wrong_exception:{exc_class(out)}", f"{out!r}")
    elif s == "err":
        raise Violation(f"check_refused_correct_call:{exc_class(out)}", f"specs {[str(x) for x in specs]}, call {[(p['pass'], p['arg']['dim'], p['default']['dim']) for p in params]}: {type(out).__name__}: {out}")
    elif out != "called":
        raise Violation("check_changed_return_value", f"{out!r}")


def case_dimname(case, col=None):
    """check('[name]') for every derived dimension name of the bundled definitions, against the SI base exponents written down in oracle/dimtable.py:
    a quantity in exactly those base units passes, one with a base exponent off by one (or a foreign base factor) is refused; same for wraps with a named SI unit"""
    import pint

    from ..oracle.dimtable import NAMED_DIMS, NAMED_UNITS

    ureg = env.ureg("Fraction")
    name, form = case["name"], case["form"]
    if col is not None:
        col.case(("n", name, form, case["perturb"]), True, sample=case, cls="dimname:" + form)
    exps = dict(NAMED_DIMS[name] if form != "wraps" else NAMED_UNITS[name])
    if case["perturb"]:
        b, d = case["perturb"]
        exps[b] = exps.get(b, 0) + d
        exps = {k: v for k, v in exps.items() if v}
    q = ureg.Quantity(Fraction(3), ureg.UnitsContainer(exps)) if exps else (ureg.Quantity(Fraction(3), "") if form != "wraps" else ureg.Quantity(Fraction(3), ""))
    if form == "check":
        s, out = attempt(ureg.check(name)(lambda x: "called"), q)
    elif form == "qcheck":
        s, out = attempt(lambda: q.check(name))
        if s == "ok":
            s, out = ("ok", "called") if out is True else ("err", pint.DimensionalityError(q.units, name)) if out is False else ("ok", out)
    else:
        s, out = attempt(ureg.wraps(None, (name,))(lambda x: x), q)
        if s == "ok" and not case["perturb"]:
            out = "called" if out == 3 and not hasattr(out, "_units") else out
    if case["perturb"]:
        if s == "ok":
            raise Violation(f"check_accepted_wrong_dimension:named:{name}", f"{form} with {name!r} accepted {q!r}; {name} is {NAMED_DIMS.get(name, NAMED_UNITS.get(name))} in SI base units")
        if not isinstance(out, pint.DimensionalityError):
            raise Violation(f"check_wrong_exception:named:{exc_class(out)}", f"{form} with {name!r} on {q!r}: {out!r}")
    elif s == "err":
        raise Violation(f"check_refused_correct_call:named:{name}", f"{form} with {name!r} refused {q!r}: {type(out).__name__}: {out}; {name} is {NAMED_DIMS.get(name, NAMED_UNITS.get(name))} in SI base units")
    elif out != "called":
        raise Violation(f"named_unit_wrong_value:{name}", f"{form} with {name!r} on {q!r} handed over {out!r}, expected 3 (the SI units with special names are coherent)")


def run_check(task, tier, seed, col):
    _dimexpr_selfcheck()
    if task["shard"] == 0:
        from ..oracle.dimtable import _B, NAMED_DIMS, NAMED_UNITS

        for name in NAMED_DIMS:
            for form in ("check", "qcheck"):
                for perturb in [None] + [(b, d) for b in _B for d in (1, -1)]:
                    col.run_case(lambda c: case_dimname(c, col), {"name": name, "form": form, "perturb": perturb})
        for name in NAMED_UNITS:
            for perturb in [None] + [(b, d) for b in _B[:4] for d in (1, -1)]:
                col.run_case(lambda c: case_dimname(c, col), {"name": name, "form": "wraps", "perturb": perturb})
    hyp_search(col, check_cases(), lambda c: case_check(c, col), max_examples=400 if tier == "quick" else 8000, seed=seed * 269 + task["shard"])


# ------------------------------------------------------------------------------------- decoration-time errors

def case_decoration(case, col=None):
    ureg = env.ureg("Fraction")
    kind = case["kind"]
    nparams, nspecs = case["nparams"], case["nspecs"]
    if col is not None:
        col.case(("d", kind, nparams, nspecs), True, sample=case, cls=kind)
    sig = inspect.Signature([inspect.Parameter(f"p{i}", inspect.Parameter.POSITIONAL_OR_KEYWORD) for i in range(nparams)])

    def fn(*a):
        return 1

    fn.__signature__ = sig
    fn.__name__ = "fn"
    if kind == "wraps_count":
        s, r = attempt(lambda: ureg.wraps(None, tuple(["meter"] * nspecs))(fn))
        want = TypeError if nparams != nspecs else None
    elif kind == "check_count":
        s, r = attempt(lambda: ureg.check(*(["[length]"] * nspecs))(fn))
        want = TypeError if nparams != nspecs else None
    elif kind == "wraps_bad_spec_type":
        s, r = attempt(lambda: ureg.wraps(None, tuple([3] + ["meter"] * (nparams - 1)))(fn))
        want = TypeError
    elif kind == "wraps_bad_ret_type":
        s, r = attempt(lambda: ureg.wraps(5, tuple(["meter"] * nparams))(fn))
        want = TypeError
    elif kind == "wraps_undefined_reference":
        s, r = attempt(lambda: ureg.wraps(None, tuple(["=A"] + ["=A*Z"] + ["meter"] * (nparams - 2)))(fn))
        want = ValueError
    elif kind == "check_bad_dimension":
        s, r = attempt(lambda: ureg.check(*(["[no_such_dimension]"] + ["[length]"] * (nparams - 1)))(fn))
        want = ValueError
    else:
        raise ValueError(kind)
    if want is None:
        if s == "err":
            raise Violation(f"decoration_refused:{kind}:{exc_class(r)}", f"{case}: {r!r}")
    else:
        if s == "ok":
            raise Violation(f"decoration_accepted:{kind}", f"{case}")
        if not isinstance(r, want):
            raise Violation(f"decoration_wrong_exception:{kind}:{exc_class(r)}", f"{case}: {type(r).__name__}: {r}")


def run_decoration(task, tier, seed, col):
    for kind in ("wraps_count", "check_count"):
        for a in range(0, 5):
            for b in range(0, 5):
                col.run_case(lambda c: case_decoration(c, col), {"kind": kind, "nparams": a, "nspecs": b})
    # (an undefined reference such as '=A*Z' is only detected when the wrapped function is called: the statement promises the
    #  decoration-time rejection for count mismatches only, so that case is not asserted)
    for kind in ("wraps_bad_spec_type", "wraps_bad_ret_type", "check_bad_dimension"):
        for a in range(2, 5):
            col.run_case(lambda c: case_decoration(c, col), {"kind": kind, "nparams": a, "nspecs": a})
    col.exhaustive = True


def run_task(task, tier, seed, col):
    {"wraps": run_wraps, "check": run_check, "decoration": run_decoration}[task["sub"]](task, tier, seed, col)


def _replay_check(case):
    return case_dimname(case) if "perturb" in case else case_check(case)


def replay(sub, case):
    return {"wraps": case_wraps, "check": _replay_check, "decoration": case_decoration}[sub](case)
