"""C04 — units form a commutative group under *, /, ** with a canonical representation.

Oracle: a plain dict model of the free abelian group over unit names (exponents as Fractions);
for Buckingham-pi, own Gaussian elimination over Fractions (rank / null-space membership).
"""
from __future__ import annotations

import itertools
import random
from decimal import Decimal
from fractions import Fraction

from hypothesis import strategies as st

from .. import env
from ..core import Collector, Skip, Violation, attempt, exc_class, hyp_search, khash, shard

PROPERTY = "C04"
LEVEL = "exploration"
RULE = ("containers: every unit container over the alphabet {a,b,c} with exponents in {-2,-1,-1/2,1/2,1,2} (343 containers), every ordered "
        "pair (exhaustive) and seed-chosen triples, in the four exponent types (int/float, Decimal, Fraction) and the layers UnitsContainer, "
        "ParserHelper, Unit, Quantity.units, dimensionality; scalar powers {-2,-1,0,1/2,1,2,3}; random containers over real unit names "
        "(Hypothesis); pi: random integer dimension matrices (2-5 quantities x 1-4 base dimensions) given as dimension dicts and unit strings. "
        "Non-trivial = the result has fewer entries than the union of the operands (a cancellation) or a power by 0 or by a fraction; "
        "distinct = distinct (layer, type, operands, operation)")
ASSUMPTIONS = ["the dict model of the free abelian group is the specification of unit algebra",
               "exponents are restricted to dyadic rationals for float containers so that float rounding cannot fake a difference"]
MIN_COUNTS = {"quick": {"containers": {"cancellation": 5000, "pow0": 300}, "pi": {"nullity>0": 50}}}

ALPHA = ("a", "b", "c")
EXPS = (Fraction(-2), Fraction(-1), Fraction(-1, 2), Fraction(0), Fraction(1, 2), Fraction(1), Fraction(2))
POWERS = (Fraction(-2), Fraction(-1), Fraction(0), Fraction(1, 2), Fraction(1), Fraction(2), Fraction(3))
TYPES = ("float", "Decimal", "Fraction")
REAL = {"a": "meter", "b": "second", "c": "gram"}


def tasks(tier, seed):
    t = []
    for ty in TYPES:
        for layer in ("UnitsContainer", "ParserHelper"):
            t += [{"sub": "containers", "layer": layer, "ty": ty, "shard": i, "nshard": 2} for i in range(2)]
    for ty in TYPES:
        t += [{"sub": "containers", "layer": "Unit", "ty": ty, "shard": i, "nshard": 3} for i in range(3)]
    t += [{"sub": "random", "ty": ty, "shard": i} for i, ty in enumerate(TYPES)]
    t += [{"sub": "xproc", "shard": 0}]
    t += [{"sub": "pi", "shard": i} for i in range(2)]
    return t


# ------------------------------------------------------------------------------------- model

def m_mul(u, v):
    out = dict(u)
    for k, e in v.items():
        out[k] = out.get(k, 0) + e
    return {k: e for k, e in out.items() if e != 0}


def m_div(u, v):
    return m_mul(u, {k: -e for k, e in v.items()})


def m_pow(u, p):
    return {k: e * p for k, e in u.items() if e * p != 0}


def all_models():
    out = []
    for es in itertools.product(EXPS, repeat=len(ALPHA)):
        out.append({k: e for k, e in zip(ALPHA, es) if e != 0})
    return out


def conv_exp(e: Fraction, ty):
    if e.denominator == 1:
        return int(e)
    if ty == "float":
        return float(e)
    if ty == "Decimal":
        return Decimal(e.numerator) / Decimal(e.denominator)
    return e


def conv_pow(p: Fraction, ty):
    return conv_exp(p, ty)


NIT = {"float": float, "Decimal": Decimal, "Fraction": Fraction}


def build(layer, ty, model, names=None):
    from pint.util import ParserHelper, UnitsContainer

    names = names or {k: k for k in model}
    d = {names[k]: conv_exp(e, ty) for k, e in model.items()}
    if layer == "UnitsContainer":
        return UnitsContainer(d, non_int_type=NIT[ty])
    if layer == "ParserHelper":
        # scale of the registry's numeric type, as ParserHelper.from_word builds it
        return ParserHelper(1 if ty == "float" else NIT[ty]("1"), d, non_int_type=NIT[ty])
    ureg = env.ureg(ty)
    return ureg.Unit(ureg.UnitsContainer(d))


def observe(layer, obj):
    """(model dict, raw length, has zero entry) of a pint object through its public mapping interface."""
    uc = obj if layer in ("UnitsContainer", "ParserHelper") else obj._units
    items = list(uc.items())
    model = {}
    zero = False
    for k, v in items:
        fv = Fraction(v) if not isinstance(v, float) else Fraction(v)
        if fv == 0:
            zero = True
        model[k] = fv
    return model, len(uc), zero


def expect(layer, ty, obj, want, what, names=None):
    names = names or {k: k for k in ALPHA}
    want = {names.get(k, k): e for k, e in want.items()}
    got, n, zero = observe(layer, obj)
    if zero:
        raise Violation(f"zero_exponent_survives:{what.split('(')[0]}:{layer}", f"{what}: entries {got}")
    if got != want:
        raise Violation(f"wrong_exponents:{what.split('(')[0]}:{layer}", f"{what}: got {got}, model {want}")
    if n != len(want):
        raise Violation(f"wrong_len:{what.split('(')[0]}:{layer}", f"{what}: len {n}, model {len(want)}")
    if layer == "ParserHelper" and obj.scale != 1:
        raise Violation("parserhelper_scale_changed", f"{what}: scale {obj.scale!r}")


def snapshot(layer, obj):
    uc = obj if layer in ("UnitsContainer", "ParserHelper") else obj._units
    return (tuple(sorted((k, repr(v)) for k, v in uc.items())), hash(obj))


def eq_hash(layer, x, y, should, what):
    s, v = attempt(lambda: x == y)
    if s == "err":
        raise Violation(f"eq_raised:{layer}:{exc_class(v)}", f"{what}: == raised {v!r}")
    if bool(v) != should:
        raise Violation(f"eq_disagrees_with_model:{layer}:{'false_negative' if should else 'false_positive'}", f"{what}: == is {v}, model says {should}")
    if bool(x != y) == should:
        raise Violation(f"ne_disagrees_with_model:{layer}", f"{what}: != inconsistent")
    if should and hash(x) != hash(y):
        raise Violation(f"hash_differs_for_equal:{layer}", f"{what}: equal objects, different hashes")


# ------------------------------------------------------------------------------------- the pair check

def case_pair(case):
    layer, ty = case["layer"], case["ty"]
    mu, mv = case["u"], case["v"]
    names = REAL if layer == "Unit" else None
    u, v = build(layer, ty, mu, names), build(layer, ty, mv, names)
    # hash first: a stale cached hash carried into derived objects becomes observable
    su, sv = snapshot(layer, u), snapshot(layer, v)
    lab = f"{mu}|{mv}"

    uv = u * v
    vu = v * u
    expect(layer, ty, uv, m_mul(mu, mv), f"mul({lab})", names)
    expect(layer, ty, vu, m_mul(mu, mv), f"mul_commuted({lab})", names)
    eq_hash(layer, uv, vu, True, f"u*v vs v*u {lab}")
    q = u / v
    expect(layer, ty, q, m_div(mu, mv), f"div({lab})", names)
    expect(layer, ty, u / u, {}, f"self_div({mu})", names)
    back = uv / v
    expect(layer, ty, back, mu, f"mul_then_div({lab})", names)
    eq_hash(layer, back, u, True, f"u*v/v vs u {lab}")
    eq_hash(layer, u, v, mu == mv, f"u vs v {lab}")
    eq_hash(layer, uv, build(layer, ty, m_mul(mu, mv), names), True, f"u*v vs fresh {lab}")
    if layer != "ParserHelper":
        inv = 1 / v
        expect(layer, ty, inv, m_pow(mv, Fraction(-1)), f"rdiv({mv})", names)
    else:
        # a unit-less ParserHelper with a scale (what parsing '3' or '2 a / a' gives) as right operand: the scale is multiplied into a new
        # object, the left operand (possibly a memoised from_string result) keeps its own scale
        from pint.util import ParserHelper

        for k_txt, kval in (("3", 3), ("4", 4)):
            kk = ParserHelper(kval if ty == "float" else NIT[ty](k_txt), {}, non_int_type=NIT[ty])
            s0 = u.scale
            for tag, got, want_scale in (("ph*scalar", u * kk, s0 * kval), ("ph/scalar", u / kk, Fraction(s0) / kval if ty != "float" else s0 / kval)):
                if observe(layer, got)[0] != {k: Fraction(e) for k, e in mu.items()}:
                    raise Violation(f"wrong_exponents:{tag}:ParserHelper", f"{tag}({mu}): got {observe(layer, got)[0]}")
                if got is u or u.scale != s0:
                    raise Violation(f"operand_mutated:ParserHelper:{tag}", f"{tag} on {mu}: the left operand's scale went from {s0!r} to {u.scale!r} (result is the operand itself: {got is u})")
                if abs(float(got.scale) - float(want_scale)) > 1e-12 * abs(float(want_scale)):
                    raise Violation(f"wrong_scale:{tag}", f"{tag} on {mu}: scale {got.scale!r}, expected {want_scale!r}")
        first = ParserHelper.from_string("aa / bb")
        _ = first * ParserHelper(2, {})
        _ = first / ParserHelper(5, {})
        again = ParserHelper.from_string("aa / bb")
        if again.scale != 1 or dict(again.items()) != {"aa": 1, "bb": -1}:
            raise Violation("from_string_result_changed_by_later_arithmetic", f"ParserHelper.from_string('aa / bb') -> scale {again.scale!r}, {dict(again.items())}")
        # mixed operands: a ParserHelper combined with a plain UnitsContainer / dict (either side) follows the same group law
        vc = build("UnitsContainer", ty, mv, names)
        vd = dict(vc.items())
        for tag, got, want in (("ph*uc", u * vc, m_mul(mu, mv)), ("ph/uc", u / vc, m_div(mu, mv)), ("ph*dict", u * vd, m_mul(mu, mv)), ("ph/dict", u / vd, m_div(mu, mv)),
                               ("dict/ph", vd / u, m_div(mv, mu)), ("dict*ph", vd * u, m_mul(mu, mv))):
            expect(layer, ty, got, want, f"{tag}({lab})", names)
    for p in case["powers"]:
        pp = conv_pow(p, ty)
        up = u ** pp
        expect(layer, ty, up, m_pow(mu, p), f"pow({mu},{p})", names)
        eq_hash(layer, up, build(layer, ty, m_pow(mu, p), names), True, f"u**{p} vs fresh {mu}")
        for p2 in (Fraction(2), Fraction(-1), Fraction(1, 2)):
            upp = up ** conv_pow(p2, ty)
            expect(layer, ty, upp, m_pow(mu, p * p2), f"pow_pow({mu},{p},{p2})", names)
    if layer == "Unit":
        ureg = env.ureg(ty)
        dim = lambda m: {k: e for k, e in {{"meter": "[length]", "second": "[time]", "gram": "[mass]"}[names[k]]: e for k, e in m.items()}.items()}  # noqa: E731
        got = env.uc_to_dict(uv.dimensionality)
        if got != dim(m_mul(mu, mv)):
            raise Violation("dimensionality_of_product", f"{lab}: {got}")
        got = env.uc_to_dict(q.dimensionality)
        if got != dim(m_div(mu, mv)):
            raise Violation("dimensionality_of_quotient", f"{lab}: {got}")
        d_u, d_v = u.dimensionality, v.dimensionality
        if (d_u * d_v) != uv.dimensionality or (d_u / d_v) != q.dimensionality:
            raise Violation("dimensionality_not_homomorphic", f"{lab}")
        # Quantity layer: units of products / quotients / powers of quantities
        Q = ureg.Quantity
        qu, qv = Q(2, u), Q(3, v)
        expect("Unit", ty, (qu * qv).units, m_mul(mu, mv), f"quantity_mul({lab})", names)
        expect("Unit", ty, (qu / qv).units, m_div(mu, mv), f"quantity_div({lab})", names)
        for p in case["powers"]:
            if p.denominator == 1:
                expect("Unit", ty, (qu ** int(p)).units, m_pow(mu, p), f"quantity_pow({mu},{p})", names)
        if not mu:
            eq_hash(layer, u, ureg.dimensionless, True, "empty vs dimensionless")
        eq_hash(layer, u ** 0, ureg.dimensionless, True, f"u**0 vs dimensionless {mu}")
        eq_hash(layer, u / u, ureg.dimensionless, True, f"u/u vs dimensionless {mu}")
    if layer in ("UnitsContainer", "ParserHelper"):
        # the container's own editing helpers (used by parsing, alias folding, to_reduced_units ...): each returns a new container that equals
        # and hashes like one built from scratch - the operand has been hashed above, a memoised hash must not travel into the copy
        nm = lambda k: k  # noqa: E731
        for k, e in mu.items():
            for tag, got, want in (("add_cancel", u.add(nm(k), conv_exp(-e, ty)), {x: y for x, y in mu.items() if x != k}), ("add_one", u.add(nm(k), conv_exp(Fraction(1), ty)), m_mul(mu, {k: Fraction(1)})),
                                   ("remove", u.remove([nm(k)]), {x: y for x, y in mu.items() if x != k}), ("rename", u.rename(nm(k), "zz"), dict({x: y for x, y in mu.items() if x != k}, zz=e))):
                expect(layer, ty, got, want, f"{tag}({mu},{k})", {x: x for x in want})
                eq_hash(layer, got, build(layer, ty, want), True, f"{tag}({mu},{k}) vs fresh")
        if layer == "ParserHelper":
            for k in sorted(set(mu) | {"zz"}):
                for tag, got, want in (("ph*str", u * k, m_mul(mu, {k: Fraction(1)})), ("ph/str", u / k, m_div(mu, {k: Fraction(1)}))):
                    expect(layer, ty, got, want, f"{tag}({mu},{k})", {x: x for x in want})
                    eq_hash(layer, got, build(layer, ty, want), True, f"{tag}({mu},{k}) vs fresh")
    if ty == "float" and mu:
        # exponents whose product is zero in floating point although neither factor is: an entry with exponent 0.0 is no entry
        import numpy as np

        for t1, t2 in ((1e-170, 1e-170), (5e-324, 0.5), (np.float32(1e-25), np.float32(1e-25)), (1e-200, -1e-200)):
            s_, r_ = attempt(lambda: (u ** t1) ** t2)
            if s_ == "err":
                continue
            got, n, zero = observe(layer, r_)
            if zero or (all(float(e) * float(t1) * float(t2) == 0 for e in mu.values()) and n != 0):
                raise Violation(f"zero_exponent_survives:pow_underflow:{layer}", f"({mu} ** {t1!r}) ** {t2!r}: entries {got}")
            if n == 0:
                eq_hash(layer, r_, build(layer, ty, {}, names), True, f"({mu} ** {t1!r}) ** {t2!r} vs dimensionless")
    if snapshot(layer, u) != su or snapshot(layer, v) != sv:
        raise Violation(f"operand_mutated:{layer}", f"{lab}")


def case_triple(case):
    layer, ty = case["layer"], case["ty"]
    names = REAL if layer == "Unit" else None
    mu, mv, mw = case["u"], case["v"], case["w"]
    u, v, w = (build(layer, ty, m, names) for m in (mu, mv, mw))
    snaps = [snapshot(layer, x) for x in (u, v, w)]
    l, r = (u * v) * w, u * (v * w)
    expect(layer, ty, l, m_mul(m_mul(mu, mv), mw), f"assoc_l({mu}|{mv}|{mw})", names)
    expect(layer, ty, r, m_mul(m_mul(mu, mv), mw), f"assoc_r({mu}|{mv}|{mw})", names)
    eq_hash(layer, l, r, True, "associativity")
    expect(layer, ty, (u / v) / w, m_div(m_div(mu, mv), mw), f"div_div({mu}|{mv}|{mw})", names)
    expect(layer, ty, u / (v * w), m_div(mu, m_mul(mv, mw)), f"div_mul({mu}|{mv}|{mw})", names)
    # transitivity of ==
    if (u == v) and (v == w) and not (u == w):
        raise Violation("eq_not_transitive", f"{mu}|{mv}|{mw}")
    if [snapshot(layer, x) for x in (u, v, w)] != snaps:
        raise Violation(f"operand_mutated:{layer}", "triple")


def _interesting(mu, mv):
    return len(m_mul(mu, mv)) < len(set(mu) | set(mv)) or len(m_div(mu, mv)) < len(set(mu) | set(mv))


def run_containers(task, tier, seed, col):
    layer, ty = task["layer"], task["ty"]
    models = all_models()
    if layer == "Unit":
        # Unit objects are ~20x slower: sub-sample pairs by seed in quick
        stride = 24 if tier == "quick" else 2
    else:
        stride = 3 if tier == "quick" else 1
    rnd = random.Random(seed)
    k = 0
    for i, mu in enumerate(models):
        if i % task["nshard"] != task["shard"]:
            continue
        for j, mv in enumerate(models):
            h = khash((i, j, seed, layer))
            if stride > 1 and h % stride:
                continue
            powers = POWERS if (h // 97) % 5 == 0 else (POWERS[(h // 13) % len(POWERS)], Fraction(0))
            nt = _interesting(mu, mv)
            col.case((layer, ty, i, j), nt or True, sample={"layer": layer, "exponent_type": ty, "u": mu, "v": mv, "powers": list(powers)},
                     cls="cancellation" if nt else "no_cancellation")
            col.count("pow0")
            col.run_case(case_pair, {"layer": layer, "ty": ty, "u": mu, "v": mv, "powers": list(powers)})
    # triples
    n_tri = 1500 if tier == "quick" else 30000
    if layer == "Unit":
        n_tri //= 5
    rnd = random.Random(seed * 31 + task["shard"])
    for _ in range(n_tri):
        mu, mv, mw = (rnd.choice(models) for _ in range(3))
        col.case((layer, ty, "tri", str(mu), str(mv), str(mw)), True, cls="triple")
        col.run_case(case_triple, {"layer": layer, "ty": ty, "u": mu, "v": mv, "w": mw})
    col.exhaustive = stride == 1


# ------------------------------------------------------------------------------------- random containers over real names

def _random_strategy(ty):
    names = list(env.unit_names("mult"))
    if ty == "float":
        exps = st.one_of(st.integers(-4, 4).filter(bool), st.sampled_from([Fraction(1, 2), Fraction(-3, 2), Fraction(1, 4), Fraction(5, 2)]))
    elif ty == "Decimal":
        exps = st.one_of(st.integers(-4, 4).filter(bool), st.sampled_from([Fraction(1, 2), Fraction(-3, 2), Fraction(1, 4), Fraction(5, 8)]))
    else:
        exps = st.one_of(st.integers(-4, 4).filter(bool), st.fractions(-3, 3, max_denominator=8).filter(bool))
    cont = st.dictionaries(st.sampled_from(names), exps, min_size=0, max_size=4)

    @st.composite
    def strat(draw):
        u = draw(cont)
        v = draw(cont)
        if u and draw(st.booleans()):  # force overlap, incl. exact cancellation
            k = draw(st.sampled_from(sorted(u)))
            v = dict(v)
            v[k] = draw(st.sampled_from([u[k], -u[k], draw(exps)]))
        w = draw(cont)
        layer = draw(st.sampled_from(["UnitsContainer", "ParserHelper", "Unit"]))
        p = draw(st.sampled_from(POWERS))
        return {"layer": layer, "ty": ty, "u": u, "v": v, "w": w, "powers": [p, Fraction(0)]}

    return strat()


def case_random(case, col=None):
    layer = case["layer"]
    c = dict(case)
    if col is not None:
        col.case((layer, case["ty"], str(case["u"]), str(case["v"])), _interesting(case["u"], case["v"]) or True,
                 sample={"layer": layer, "type": case["ty"], "u": case["u"], "v": case["v"]},
                 cls="cancellation" if _interesting(case["u"], case["v"]) else "plain")
    if layer == "Unit":
        _pair_real(c)
    else:
        case_pair(c)
    case_triple_real(c)


def hash_free(m):
    """a small deterministic number derived from a model dict (no hash())"""
    return sum(len(k) * 7 + int(Fraction(e) * 12) for k, e in m.items()) + len(m)


def _pair_real(case):
    """case_pair on real unit names for the Unit layer (dimension bookkeeping through R)."""
    ty = case["ty"]
    ureg = env.ureg(ty)
    R = env.R()
    mu, mv = case["u"], case["v"]
    mk = lambda m: ureg.Unit(ureg.UnitsContainer({k: conv_exp(Fraction(e), ty) for k, e in m.items()}))  # noqa: E731
    u, v = mk(mu), mk(mv)
    su, sv = snapshot("Unit", u), snapshot("Unit", v)
    ident = {k: k for k in set(mu) | set(mv)}
    mu = {k: Fraction(e) for k, e in mu.items()}
    mv = {k: Fraction(e) for k, e in mv.items()}
    expect("Unit", ty, u * v, m_mul(mu, mv), f"mul({mu}|{mv})", ident)
    expect("Unit", ty, u / v, m_div(mu, mv), f"div({mu}|{mv})", ident)
    expect("Unit", ty, u / u, {}, f"self_div({mu})", ident)
    eq_hash("Unit", u * v, v * u, True, "commutativity")
    eq_hash("Unit", u, v, mu == mv, "u vs v")
    for p in case["powers"]:
        expect("Unit", ty, u ** conv_pow(Fraction(p), ty), m_pow(mu, Fraction(p)), f"pow({mu},{p})", ident)
    # dimensionality homomorphism, oracle R
    def rdim(m):
        d = {}
        for k, e in m.items():
            for dk, de in R.resolve(k).dim.items():
                d[dk] = d.get(dk, 0) + de * e
        return {k: x for k, x in d.items() if x != 0}
    for tag, obj, mm in (("product", u * v, m_mul(mu, mv)), ("quotient", u / v, m_div(mu, mv)), ("power", u ** 2, m_pow(mu, Fraction(2)))):
        got = env.uc_to_dict(obj.dimensionality)
        if got != rdim(mm):
            raise Violation(f"dimensionality_of_{tag}", f"{mu}|{mv}: pint {got}, R {rdim(mm)}")
    # dimensionality of containers of dimension names (derived dimensions carry their exponent through the expansion)
    dn = sorted(R.dimensions)
    if dn:
        k1, k2 = dn[hash_free(mu) % len(dn)], dn[hash_free(mv) % len(dn)]
        for cont in ({k1: 2}, {k1: -1}, {k1: 1, k2: -2}, {k1: 3, "[time]": -1}):
            got = env.uc_to_dict(ureg.get_dimensionality(ureg.UnitsContainer({k: conv_exp(Fraction(e), ty) for k, e in cont.items()})))
            from ..oracle.defreader import V

            want = R.dim_of_dimexpr(V(Fraction(1), {k: Fraction(e) for k, e in cont.items()}))
            if got != want:
                raise Violation("dimensionality_of_dimension_container", f"get_dimensionality({cont}) = {got}, definitions give {want}")
    # the same homomorphism inside pint: dim(u*v) == dim(u)*dim(v), dim(u/v) == dim(u)/dim(v), dim(u**p) == dim(u)**p (== and hash),
    # and dimensionalities keep the registry's exponent type (no binary floats in a Fraction/Decimal registry)
    du, dv = u.dimensionality, v.dimensionality
    p3 = conv_pow(Fraction(3), ty)
    for tag, a, b in (("product", (u * v).dimensionality, du * dv), ("quotient", (u / v).dimensionality, du / dv), ("power", (u ** p3).dimensionality, du ** p3)):
        if not (a == b) or hash(a) != hash(b):
            raise Violation(f"dimensionality_not_homomorphic:{tag}:{ty}", f"{mu}|{mv}: dim of {tag} {dict(a)} vs {tag} of dims {dict(b)}")
    if ty != "float":
        for obj in (u, v, u * v):
            bad = [x for x in obj.dimensionality.values() if isinstance(x, float)]
            if bad:
                raise Violation(f"dimensionality_exponent_is_float:{ty}", f"{mu}|{mv}: {dict(obj.dimensionality)}")
    if snapshot("Unit", u) != su or snapshot("Unit", v) != sv:
        raise Violation("operand_mutated:Unit", f"{mu}|{mv}")


def case_triple_real(case):
    layer, ty = case["layer"], case["ty"]
    if layer == "Unit":
        ureg = env.ureg(ty)
        mk = lambda m: ureg.Unit(ureg.UnitsContainer({k: conv_exp(Fraction(e), ty) for k, e in m.items()}))  # noqa: E731
    else:
        mk = lambda m: build(layer, ty, {k: Fraction(e) for k, e in m.items()})  # noqa: E731
    u, v, w = mk(case["u"]), mk(case["v"]), mk(case["w"])
    if not ((u * v) * w == u * (v * w)):
        raise Violation(f"associativity:{layer}", f"{case['u']}|{case['v']}|{case['w']}")
    if hash((u * v) * w) != hash(u * (v * w)):
        raise Violation(f"hash_differs_for_equal:{layer}", "associativity")


def run_random(task, tier, seed, col):
    n = 600 if tier == "quick" else 10000
    hyp_search(col, _random_strategy(task["ty"]), lambda c: case_random(c, col), max_examples=n, seed=seed * 17 + task["shard"])


# ------------------------------------------------------------------------------------- Buckingham pi

def rank(rows):
    m = [list(map(Fraction, r)) for r in rows]
    rk = 0
    ncol = len(m[0]) if m else 0
    for c in range(ncol):
        piv = next((r for r in range(rk, len(m)) if m[r][c] != 0), None)
        if piv is None:
            continue
        m[rk], m[piv] = m[piv], m[rk]
        pv = m[rk][c]
        m[rk] = [x / pv for x in m[rk]]
        for r in range(len(m)):
            if r != rk and m[r][c] != 0:
                f = m[r][c]
                m[r] = [a - f * b for a, b in zip(m[r], m[rk])]
        rk += 1
    return rk


BASE = [("[length]", "meter"), ("[time]", "second"), ("[mass]", "gram"), ("[current]", "ampere")]


def case_pi(case):
    from pint import pi_theorem

    ureg = env.ureg("float")
    matrix = case["matrix"]  # rows: quantities, cols: base dims
    # a column of zeros is not a dimension of the problem: drop it; no dimension at all is outside the statement
    keep = [j for j in range(len(matrix[0])) if any(r[j] for r in matrix)]
    if not keep:
        raise Skip("no_dimension_involved")
    base = [BASE[j] for j in keep]
    matrix = [[r[j] for j in keep] for r in matrix]
    nq, nd = len(matrix), len(matrix[0])
    quantities = {}
    for i, row in enumerate(matrix):
        if case["form"] == "dims":
            quantities[f"q{i}"] = {base[j][0]: e for j, e in enumerate(row) if e != 0}
        else:
            s = " * ".join(f"{base[j][1]}**{e}" for j, e in enumerate(row) if e != 0)
            quantities[f"q{i}"] = s or "radian"
    s, res = attempt(pi_theorem, quantities, ureg)
    if s == "err":
        raise Violation(f"pi_raised:{exc_class(res)}", f"pi_theorem({quantities}) raised {res!r}")
    rk = rank(matrix)
    if len(res) != nq - rk:
        raise Violation("pi_wrong_number_of_groups", f"{quantities}: {len(res)} groups, n - rank = {nq - rk}")
    vecs = []
    for g in res:
        vec = [Fraction(0)] * nq
        for name, e in g.items():
            if e == 0:
                raise Violation("pi_zero_exponent_listed", f"{g}")
            vec[int(name[1:])] = Fraction(e).limit_denominator(10 ** 6)
        for j in range(nd):
            if sum(vec[i] * matrix[i][j] for i in range(nq)) != 0:
                raise Violation("pi_group_not_dimensionless", f"{quantities}: {g}")
        if not any(vec):
            raise Violation("pi_trivial_group", f"{g}")
        vecs.append(vec)
    if vecs and rank(vecs) != len(vecs):
        raise Violation("pi_groups_dependent", f"{quantities}: {res}")


def run_pi(task, tier, seed, col):
    strat = st.builds(
        lambda nq, nd, data, form: {"matrix": [[data[i * 4 + j] for j in range(nd)] for i in range(nq)], "form": form},
        st.integers(2, 5), st.integers(1, 4), st.lists(st.integers(-3, 3), min_size=20, max_size=20), st.sampled_from(["dims", "units"]))

    def chk(case):
        m = case["matrix"]
        rk = rank(m)
        col.case(("pi", str(m), case["form"]), len(m) - rk > 0 and rk > 0, sample=case, cls="nullity>0" if len(m) > rk else "full_rank")
        case_pi(case)

    hyp_search(col, strat, chk, max_examples=400 if tier == "quick" else 6000, seed=seed * 7 + task["shard"])


# ------------------------------------------------------------------------------------- pickles read by another interpreter run

_XP_WRITE = r"""
import pickle, sys
import pint
from pint.util import UnitsContainer, ParserHelper
ureg = pint.UnitRegistry()
objs = {"uc": UnitsContainer({"meter": 1, "second": -2}), "uc_frac": UnitsContainer({"meter": 0.5}), "ph": ParserHelper(1, {"kilogram": 1, "meter": -3}),
        "unit": ureg.Unit("kilogram * meter / second ** 2"), "quantity": ureg.Quantity(3, "meter / second"), "dim": ureg.Unit("newton").dimensionality}
for o in objs.values():
    hash(o)                      # equal objects hash equal: the writer has used them as keys already
    {o: 1}
pickle.dump(objs, open(sys.argv[1], "wb"))
"""

_XP_READ = r"""
import json, pickle, sys
import pint
from pint.util import UnitsContainer, ParserHelper
ureg = pint.UnitRegistry()
pint.set_application_registry(ureg)
objs = pickle.load(open(sys.argv[1], "rb"))
local = {"uc": UnitsContainer({"meter": 1, "second": -2}), "uc_frac": UnitsContainer({"meter": 0.5}), "ph": ParserHelper(1, {"kilogram": 1, "meter": -3}),
         "unit": ureg.Unit("kilogram * meter / second ** 2"), "quantity": ureg.Quantity(3, "meter / second"), "dim": ureg.Unit("newton").dimensionality}
out = {}
for k, o in objs.items():
    l = local[k]
    out[k] = {"eq": bool(o == l), "req": bool(l == o), "hash": hash(o) == hash(l), "in_set": o in {l}, "dict_hit": {l: 1}.get(o) == 1}
    if k in ("uc", "uc_frac", "dim"):
        out[k]["mul_identity"] = bool(o * UnitsContainer() == l) and hash(o * UnitsContainer()) == hash(l)
print(json.dumps(out))
"""


def case_xproc_pickle(case, col=None):
    """containers, units and quantities pickled by one interpreter and read by another (other hash seed) are equal to, and hash like, the
    same objects built locally"""
    import json
    import os
    import shutil
    import subprocess
    import sys
    import tempfile

    work = tempfile.mkdtemp(prefix="vf_c04x_")
    try:
        if col is not None:
            col.case(("xp", str(case)), True, sample=case, cls="cross_process_pickle")
        fn = os.path.join(work, "objs.pickle")
        p = subprocess.run([sys.executable, "-c", _XP_WRITE, fn], env=dict(os.environ, PYTHONHASHSEED=str(case["writer"])), capture_output=True, text=True, timeout=300)
        if p.returncode != 0:
            raise RuntimeError(p.stderr[-500:])
        for hs in case["readers"]:
            p = subprocess.run([sys.executable, "-c", _XP_READ, fn], env=dict(os.environ, PYTHONHASHSEED=str(hs)), capture_output=True, text=True, timeout=300)
            if p.returncode != 0:
                raise Violation("unpickling_in_another_process_raised", f"reader PYTHONHASHSEED={hs}: {p.stderr[-300:]}")
            res = json.loads(p.stdout)
            for k, r in res.items():
                bad = [n for n, v in r.items() if not v]
                if bad:
                    raise Violation(f"unpickled_in_another_process_not_equal:{k}", f"{k} pickled under PYTHONHASHSEED={case['writer']}, read under {hs}: {bad} are False against the same object built locally")
    finally:
        shutil.rmtree(work, ignore_errors=True)


def run_xproc(task, tier, seed, col):
    col.run_case(lambda c: case_xproc_pickle(c, col), {"writer": 1 + seed % 3, "readers": [5, 1 + seed % 3]})


def run_task(task, tier, seed, col):
    if task["sub"] == "xproc":
        return run_xproc(task, tier, seed, col)
    {"containers": run_containers, "random": run_random, "pi": run_pi}[task["sub"]](task, tier, seed, col)


def replay(sub, case):
    if sub == "xproc":
        return case_xproc_pickle(case)
    if sub == "containers":
        return case_triple(case) if "w" in case and "powers" not in case else case_pair(case)
    if sub == "random":
        return case_random(case)
    if sub == "pi":
        return case_pi(case)
    raise ValueError(sub)
