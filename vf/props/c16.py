"""C16 — NumPy functions on quantity arrays respect units.

Oracles: (1) metamorphic — the same physical arrays expressed in two unit assignments give physically equal results (only for operations that
commute with scaling); (2) differential — NumPy applied to the magnitudes in root units, with the dimension dictated by a semantic class
written for this check; (3) error clauses; (4) inputs unchanged.  Factors and dimensions come from R.
"""
from __future__ import annotations

import math
from fractions import Fraction

from hypothesis import strategies as st

from .. import env
from ..core import Collector, Skip, Violation, attempt, exc_class, hyp_search

PROPERTY = "C16"
LEVEL = "exploration"
RULE = ("calls: for every recipe (one per handled NumPy function / ufunc / wrapped method; names read at run time from HANDLED_FUNCTIONS and HANDLED_UFUNCS, "
        "names without a recipe are reported as uncovered) Hypothesis draws float arrays of rank 1-2, a unit per argument from its required class and a "
        "second assignment denoting the same physical arrays; result under A ~ result under B ~ NumPy on root magnitudes with the semantic-class "
        "dimension; rounding-like functions are only compared in their own unit; equality/order-sensitive ones use power-of-two unit ratios (bit/byte/KiB) "
        "so that re-expression is exact. errors: a same-dimension slot filled with another dimension must raise DimensionalityError; offset-unit "
        "arrays are refused where the scalar operator refuses. Inputs must be byte-identical after every non in-place call. methods: histories of ndarray-method calls and in-place state changes on one quantity, each call compared with the same call on a freshly built quantity (non-trivial there = a call after a state change). Non-trivial = arguments in "
        ">= 2 different units of one dimension, or an optional argument, or rank 2 with axis; distinct = distinct (recipe, units, shapes)")
ASSUMPTIONS = ["the recipe table (argument roles and semantic class of the output) is the specification; it was written from the NumPy documentation and pint's docs/user/numpy.ipynb",
               "float comparison rtol 1e-9 (values are O(1..1e4), units differ by at most 1e6)"]
MIN_COUNTS = {"quick": {"calls": {"_evaluations": 1500}}}

L = ["meter", "centimeter", "kilometer", "inch", "foot"]
T = ["second", "minute", "hour", "millisecond"]
B = ["byte", "bit", "kibibyte", "kibibit"]  # power-of-two ratios: exact re-expression
D = ["dimensionless", "percent"]
A = ["radian", "degree", "arcminute", "arcsecond", "milliarcsecond", "turn", "grade"]
# the values of the pool units, written down here from the SI brochure / NIST SP 811 / IEC 80000-13 rather than read from the definition files
# (a reader of the same files cannot see a wrong line in them)
POOL_FACTORS = {"meter": 1.0, "centimeter": 0.01, "kilometer": 1000.0, "inch": 0.0254, "foot": 0.3048, "second": 1.0, "minute": 60.0, "hour": 3600.0, "millisecond": 0.001,
                "bit": 1.0, "byte": 8.0, "kibibyte": 8192.0, "kibibit": 1024.0, "dimensionless": 1.0, "percent": 0.01, "radian": 1.0, "degree": math.pi / 180, "arcminute": math.pi / 10800,
                "arcsecond": math.pi / 648000, "milliarcsecond": math.pi / 648000000, "turn": 2 * math.pi, "grade": math.pi / 200}


def tasks(tier, seed):
    return [{"sub": "calls", "shard": i, "nshard": 8} for i in range(8)] + [{"sub": "errors", "shard": 0}, {"sub": "offset", "shard": 0}, {"sub": "coverage", "shard": 0}, {"sub": "methods", "shard": 0}]


# ------------------------------------------------------------------------------------- recipe table
# roles: one letter per quantity argument (L length, T time, B information, D dimensionless, A angle); the lambda receives (np, *args)
# out: 'same' (dimension of arg 0), 'same1' (of arg 1), 'prod', 'quot', 'sq', 'sqrt', 'cbrt', 'recip', 'pow3', 'dimless', 'bare', or a callable(dims)->dim
# flags: own = not scale-equivariant (compare in own unit only); exact = needs exact re-expression (B units); skipB = no metamorphic run

def R_(name, roles, fn, out="same", **flags):
    return dict(name=name, roles=roles, fn=fn, out=out, **flags)


def recipes():
    r = []
    un = lambda f: (lambda np, a: f(np, a))  # noqa: E731
    # ---- same-unit, shape/selection/reduction
    for n in ["absolute", "fabs", "negative", "positive", "conj", "conjugate", "copy", "ravel", "squeeze", "transpose", "sort", "cumsum", "nancumsum", "sum", "nansum", "mean",
              "nanmean", "median", "nanmedian", "max", "min", "amax", "amin", "nanmax", "nanmin", "ptp", "std", "nanstd", "average", "flip", "atleast_1d", "atleast_2d", "atleast_3d",
              "trim_zeros", "nan_to_num"]:
        r.append(R_(n, "L", (lambda n: lambda np, a: getattr(np, n)(a))(n)))
    r += [R_("diagonal", "L", lambda np, a: np.diagonal(np.resize(a, (2, 2)))), R_("diff", "L", lambda np, a: np.diff(a)), R_("ediff1d", "L", lambda np, a: np.ediff1d(a)), R_("gradient", "L", lambda np, a: np.gradient(a.ravel())),
          R_("gradient:dx", "LT", lambda np, a, dx: np.gradient(a.ravel(), dx.ravel()[0]), out="quot"),
          R_("sum:axis", "L", lambda np, a: np.sum(a, axis=0, keepdims=True)), R_("mean:axis", "L", lambda np, a: np.mean(a, axis=-1)), R_("max:axis", "L", lambda np, a: np.max(a, axis=0)),
          R_("percentile", "L", lambda np, a: np.percentile(a, 30)), R_("quantile", "L", lambda np, a: np.quantile(a, 0.3)), R_("nanpercentile", "L", lambda np, a: np.nanpercentile(a, 70)),
          R_("nanquantile", "L", lambda np, a: np.nanquantile(a, 0.7)), R_("roll", "L", lambda np, a: np.roll(a, 1)), R_("rot90", "L", lambda np, a: np.rot90(np.atleast_2d(a))),
          R_("moveaxis", "L", lambda np, a: np.moveaxis(np.atleast_2d(a), 0, -1)), R_("rollaxis", "L", lambda np, a: np.rollaxis(np.atleast_2d(a), 1)),
          R_("swapaxes", "L", lambda np, a: np.swapaxes(np.atleast_2d(a), 0, 1)), R_("reshape", "L", lambda np, a: np.reshape(a, (-1,))), R_("resize", "L", lambda np, a: np.resize(a, (2, 2))),
          R_("tile", "L", lambda np, a: np.tile(a, 2)), R_("repeat", "L", lambda np, a: a.repeat(2)), R_("expand_dims", "L", lambda np, a: np.expand_dims(a, 0)),
          R_("broadcast_to", "L", lambda np, a: np.broadcast_to(a.ravel()[:1], (3,))), R_("trace", "L", lambda np, a: np.resize(a, (2, 2)).trace()), R_("take", "L", lambda np, a: a.ravel().take([0, -1])),
          R_("compress", "L", lambda np, a: np.compress([True, False, True], a.ravel()[:3])), R_("delete", "L", lambda np, a: np.delete(a.ravel(), 0)),
          R_("pad", "L", lambda np, a: np.pad(a.ravel(), 1)), R_("pad:constant", "LL", lambda np, a, c: np.pad(a.ravel(), 1, constant_values=c.ravel()[0])),
          R_("clip", "LLL", lambda np, a, lo, hi: np.clip(a, np.minimum(lo, hi).ravel()[0], np.maximum(lo, hi).ravel()[0])),
          # optional unit-carrying arguments: only a later one given, an earlier one omitted or None
          R_("clip:max_only", "LL", lambda np, a, hi: np.clip(a, None, hi.ravel()[0])), R_("clip:min_only", "LL", lambda np, a, lo: np.clip(a, lo.ravel()[0], None)),
          R_("nan_to_num:inf_fills", "LLL", lambda np, a, p_, n_: np.nan_to_num(a * np.where(np.arange(a.size).reshape(a.shape) % 3 == 0, np.inf, 1.0) * np.where(np.arange(a.size).reshape(a.shape) % 3 == 1, -1.0, 1.0),
                                                                                posinf=p_.ravel()[0], neginf=n_.ravel()[0])),
          R_("nan_to_num:all_fills", "LLLL", lambda np, a, z_, p_, n_: np.nan_to_num(a * np.where(np.arange(a.size).reshape(a.shape) % 2 == 0, np.inf, 1.0), nan=z_.ravel()[0], posinf=p_.ravel()[0], neginf=n_.ravel()[0])),
          R_("max:initial", "LL", lambda np, a, b: np.max(a, initial=b.ravel()[0])), R_("min:initial", "LL", lambda np, a, b: np.min(a, initial=b.ravel()[0])),
          R_("sum:initial", "LL", lambda np, a, b: np.sum(a, initial=b.ravel()[0])),
          # a reduction whose cells multiply different numbers of factors (where-mask with 0, 1 and 2 factors per column): no single unit
          # describes the result of a dimensional input (must be refused); a dimensionless input is fine
          R_("prod:axis_where", "L", lambda np, a: np.prod(np.resize(a, (3, 3)), axis=0, where=np.array([[False, True, True], [False, False, True], [False, False, False]])),
             raises="DimensionalityError"),
          R_("prod:axis_where:dimensionless", "D", lambda np, a: np.prod(np.resize(a, (3, 3)), axis=0, where=np.array([[False, True, True], [False, False, True], [False, False, False]])), out="dimless"),
          # exponents that are scalars in another guise: a 0-d array, a dimensionless Quantity (stored as a 0-d array by force_ndarray registries)
          R_("power:zero_d_exponent", "L", lambda np, a: np.power(a, np.array(2.0)), out="sq"), R_("power:zero_d_operator", "L", lambda np, a: a ** np.array(3.0), out="pow3"),
          R_("power:scalar_quantity_exponent", "L", lambda np, a: np.power(a, a.__class__(2, "")) if hasattr(a, "_units") else np.power(a, 2), out="sq"),
          R_("power:scalar_quantity_operator", "L", lambda np, a: a ** a.__class__(3, "") if hasattr(a, "_units") else a ** 3, out="pow3"),
          R_("power:quantity_exponent", "DD", lambda np, a, e: np.power(1 + np.abs(a), e / (1 + np.abs(e))), out="dimless"),
          R_("append", "LL", lambda np, a, b: np.append(a, b)), R_("concatenate", "LL", lambda np, a, b: np.concatenate([a.ravel(), b.ravel()])), R_("stack", "LL", lambda np, a, b: np.stack([a.ravel(), b.ravel()])),
          R_("hstack", "LL", lambda np, a, b: np.hstack([a.ravel(), b.ravel()])), R_("vstack", "LL", lambda np, a, b: np.vstack([a.ravel(), b.ravel()])), R_("dstack", "LL", lambda np, a, b: np.dstack([a.ravel(), b.ravel()])),
          R_("column_stack", "LL", lambda np, a, b: np.column_stack([a.ravel(), b.ravel()])), R_("block", "LL", lambda np, a, b: np.block([a.ravel(), b.ravel()])),
          R_("insert", "LL", lambda np, a, b: np.insert(a.ravel(), 1, b.ravel()[0])), R_("where", "LL", lambda np, a, b: np.where(np.arange(a.size).reshape(a.shape) % 2 == 0, a, b)),
          R_("full_like", "LT", lambda np, a, b: np.full_like(a, b.ravel()[0]), out="same1"), R_("linspace", "LL", lambda np, a, b: np.linspace(a.ravel()[0], b.ravel()[0], 5)),
          R_("interp", "LLT", lambda np, x, xp, fp: np.interp(x.ravel(), np.sort(xp.ravel()), fp.ravel()), out=lambda d: d[2]),
          R_("meshgrid", "LT", lambda np, a, b: tuple(np.meshgrid(a.ravel(), b.ravel())), out="each"), R_("broadcast_arrays", "LL", lambda np, a, b: tuple(np.broadcast_arrays(a.ravel()[:1], b.ravel())), out="same"),
          R_("sliding_window_view", "L", lambda np, a: np.lib.stride_tricks.sliding_window_view(a.ravel(), 2)), R_("maximum", "LL", lambda np, a, b: np.maximum(a, b)), R_("minimum", "LL", lambda np, a, b: np.minimum(a, b)),
          R_("add", "LL", lambda np, a, b: np.add(a, b)), R_("subtract", "LL", lambda np, a, b: np.subtract(a, b)), R_("hypot", "LL", lambda np, a, b: np.hypot(a, b)),
          R_("copysign", "LL", lambda np, a, b: np.copysign(a, b)), R_("linalg.norm", "L", lambda np, a: np.linalg.norm(a.ravel())), R_("unwrap", "A", lambda np, a: np.unwrap(a.ravel()))]
    # ---- rounding family: legitimately unit dependent (own unit only)
    for n in ["around", "round", "fix", "rint", "floor", "ceil", "trunc"]:
        r.append(R_(n, "L", (lambda n: lambda np, a: getattr(np, n)(a))(n), own=True))
    r += [R_("modf", "L", lambda np, a: tuple(np.modf(a)), out="each0", own=True), R_("nextafter", "LL", lambda np, a, b: np.nextafter(a, b), own=True)]
    # ---- products, powers
    r += [R_("multiply", "LT", lambda np, a, b: np.multiply(a, b), out="prod"), R_("divide", "LT", lambda np, a, b: np.divide(a, b), out="quot"), R_("true_divide", "LT", lambda np, a, b: np.true_divide(a, b), out="quot"),
          R_("dot", "LT", lambda np, a, b: np.dot(a.ravel(), b.ravel()), out="prod"), R_("matmul", "LT", lambda np, a, b: np.matmul(a.ravel(), b.ravel()), out="prod"),
          R_("cross", "LT", lambda np, a, b: np.cross(np.resize(a, 3), np.resize(b, 3)), out="prod"), R_("einsum", "LT", lambda np, a, b: np.einsum("i,i", a.ravel(), b.ravel()), out="prod"),
          R_("correlate", "LT", lambda np, a, b: np.correlate(a.ravel(), b.ravel()), out="prod"), R_("trapezoid", "LT", lambda np, y, x: np.trapezoid(y.ravel(), np.sort(x.ravel())), out="prod"),
          R_("trapezoid:dx", "LT", lambda np, y, dx: np.trapezoid(y.ravel(), dx=dx.ravel()[0]), out="prod"), R_("trapezoid:plain", "L", lambda np, y: np.trapezoid(y.ravel())),
          R_("var", "L", lambda np, a: np.var(a), out="sq"), R_("nanvar", "L", lambda np, a: np.nanvar(a), out="sq"), R_("square", "L", lambda np, a: np.square(a), out="sq"),
          R_("sqrt", "L", lambda np, a: np.sqrt(np.abs(a)), out="sqrt"), R_("cbrt", "L", lambda np, a: np.cbrt(a), out="cbrt"), R_("reciprocal", "L", lambda np, a: np.reciprocal(a), out="recip"),
          R_("power", "L", lambda np, a: np.power(a, 3), out="pow3"), R_("prod", "L", lambda np, a: np.prod(a.ravel()[:3]), out="pow3"), R_("nanprod", "L", lambda np, a: np.nanprod(a.ravel()[:3]), out="pow3"),
          R_("cumprod", "D", lambda np, a: np.cumprod(a), out="dimless"), R_("nancumprod", "D", lambda np, a: np.nancumprod(a), out="dimless"),
          R_("linalg.solve", "LT", lambda np, a, b: np.linalg.solve(np.resize(a, (2, 2)) + np.eye(2) * a.ravel()[0] * 7, np.resize(b, 2)), out=lambda d: _sub(d[1], d[0])),
          R_("mod", "BB", lambda np, a, b: np.mod(a, b), exact=True), R_("remainder", "BB", lambda np, a, b: np.remainder(a, b), exact=True), R_("fmod", "BB", lambda np, a, b: np.fmod(a, b), exact=True),
          R_("floor_divide", "BB", lambda np, a, b: np.floor_divide(a, b), out="dimless", exact=True), R_("ldexp", "L", lambda np, a: np.ldexp(a, 2)),
          R_("frexp", "L", lambda np, a: np.frexp(a)[0] * 2.0 ** np.frexp(a)[1], own=True)]
    # ---- dimensionless / angles
    for n in ["sin", "cos", "tan", "sinh", "cosh", "tanh"]:
        r.append(R_(n, "A", (lambda n: lambda np, a: getattr(np, n)(a))(n), out="dimless"))
    for n in ["arcsin", "arccos", "arctan", "arcsinh", "arctanh"]:
        r.append(R_(n, "D", (lambda n: lambda np, a: getattr(np, n)(a / (1 + np.abs(a))))(n), out="dimless"))
    r += [R_("arccosh", "D", lambda np, a: np.arccosh(1 + np.abs(a)), out="dimless"), R_("arctan2", "LL", lambda np, a, b: np.arctan2(a, b), out="dimless"),
          R_("exp", "D", lambda np, a: np.exp(a / 8), out="dimless"), R_("expm1", "D", lambda np, a: np.expm1(a / 8), out="dimless"), R_("exp2", "D", lambda np, a: np.exp2(a / 8), out="dimless"),
          R_("log", "D", lambda np, a: np.log(1 + np.abs(a)), out="dimless"), R_("log10", "D", lambda np, a: np.log10(1 + np.abs(a)), out="dimless"), R_("log2", "D", lambda np, a: np.log2(1 + np.abs(a)), out="dimless"),
          R_("log1p", "D", lambda np, a: np.log1p(np.abs(a)), out="dimless"), R_("logaddexp", "DD", lambda np, a, b: np.logaddexp(a / 8, b / 8), out="dimless"),
          R_("logaddexp2", "DD", lambda np, a, b: np.logaddexp2(a / 8, b / 8), out="dimless"), R_("deg2rad", "A", lambda np, a: np.deg2rad(a), out="dimless", ref=lambda np, a: a), R_("rad2deg", "A", lambda np, a: np.rad2deg(a), out="dimless", ref=lambda np, a: a),
          R_("radians", "A", lambda np, a: np.radians(a), out="dimless", ref=lambda np, a: a), R_("degrees", "A", lambda np, a: np.degrees(a), out="dimless", ref=lambda np, a: a)]
    # ---- bare results (predicates, indices); order/equality sensitive ones on exact units
    for n in ["argsort", "argmax", "argmin", "nanargmax", "nanargmin", "count_nonzero", "any", "all", "shape", "size", "ndim", "iscomplex", "isreal", "isfinite", "isinf", "isnan", "signbit", "sign"]:
        r.append(R_(n, "B", (lambda n: lambda np, a: getattr(np, n)(a))(n), out="bare", exact=True))
    r += [R_("nonzero", "B", lambda np, a: tuple(np.nonzero(a)), out="bare", exact=True), R_("searchsorted", "BB", lambda np, a, v: np.searchsorted(np.sort(a.ravel()), v.ravel()), out="bare", exact=True),
          R_("isin", "BB", lambda np, a, b: np.isin(a, b), out="bare", exact=True), R_("intersect1d", "BB", lambda np, a, b: np.intersect1d(a, b), exact=True),
          R_("isclose", "BB", lambda np, a, b: np.isclose(a, b), out="bare", exact=True), R_("allclose", "BB", lambda np, a, b: np.allclose(a, b), out="bare", exact=True),
          R_("equal", "BB", lambda np, a, b: np.equal(a, b), out="bare", exact=True), R_("not_equal", "BB", lambda np, a, b: np.not_equal(a, b), out="bare", exact=True),
          R_("greater", "BB", lambda np, a, b: np.greater(a, b), out="bare", exact=True), R_("greater_equal", "BB", lambda np, a, b: np.greater_equal(a, b), out="bare", exact=True),
          R_("less", "BB", lambda np, a, b: np.less(a, b), out="bare", exact=True), R_("less_equal", "BB", lambda np, a, b: np.less_equal(a, b), out="bare", exact=True),
          R_("result_type", "L", lambda np, a: str(np.result_type(a)), out="bare"), R_("zeros_like", "L", lambda np, a: np.zeros_like(a), out="anyunit"), R_("ones_like", "L", lambda np, a: np.ones_like(a), out="anyunit"),
          R_("empty_like", "L", lambda np, a: np.empty_like(a).shape, out="bare")]
    # ---- in-place
    r += [R_("copyto", "LL", lambda np, a, b: (lambda dst: (np.copyto(dst, b), dst)[1])(a.copy() if not hasattr(a, "_units") else a.__class__(a.magnitude.copy(), a.units)), inplace=True)]
    return r


def _sub(d1, d2):
    out = dict(d1)
    for k, v in d2.items():
        out[k] = out.get(k, 0) - v
    return {k: v for k, v in out.items() if v != 0}


NAN_OK = {"prod", "sum", "nansum", "mean", "nanmean", "max", "nanmax", "min", "nanmin", "std", "nanstd", "var", "nanvar", "cumsum", "nancumsum", "median", "nanmedian",
          "amax", "amin", "cumprod", "nancumprod", "nan_to_num", "nanargmax", "nanargmin", "isnan", "isfinite", "average", "ptp"}
POOLS = {"L": L, "T": T, "B": B, "D": D, "A": A}
# registries built with auto_reduce_dimensions=True rewrite products and powers: operands whose unit repeats a dimension make that visible
COMPOUND = {"L": ["meter * centimeter / inch", "kilometer * foot / meter"], "T": ["second * hour / minute"]}
POOL_FACTORS.update({"meter * centimeter / inch": 0.01 / 0.0254, "kilometer * foot / meter": 1000 * 0.3048, "second * hour / minute": 60.0})
COMPOUND_DIM = {"meter * centimeter / inch": "meter", "kilometer * foot / meter": "meter", "second * hour / minute": "second"}


def _dim(R, unit):
    return {} if unit == "dimensionless" else R.resolve_spelling(COMPOUND_DIM.get(unit, unit)).dim


def _factor(R, unit):
    return POOL_FACTORS[unit] if unit in POOL_FACTORS else float(R.resolve_spelling(unit).factor)


def expected_dim(rec, dims):
    out = rec["out"]
    if callable(out):
        return out(dims)
    if out in ("same", "each0"):
        return dims[0]
    if out == "same1":
        return dims[1]
    if out == "prod":
        d = {}
        for x in dims:
            for k, v in x.items():
                d[k] = d.get(k, 0) + v
        return {k: v for k, v in d.items() if v != 0}
    if out == "quot":
        return _sub(dims[0], dims[1])
    if out == "sq":
        return {k: 2 * v for k, v in dims[0].items()}
    if out == "pow3":
        return {k: 3 * v for k, v in dims[0].items()}
    if out == "sqrt":
        return {k: Fraction(v) / 2 for k, v in dims[0].items()}
    if out == "cbrt":
        return {k: Fraction(v) / 3 for k, v in dims[0].items()}
    if out == "recip":
        return {k: -v for k, v in dims[0].items()}
    if out == "dimless":
        return {}
    return None  # bare / each / anyunit


def normalise(R, res):
    """-> nested tuples of ('q', ndarray in root units, dim) | ('b', plain value)"""
    import numpy as np

    if isinstance(res, (tuple, list)):
        return tuple(normalise(R, x) for x in res)
    if hasattr(res, "_units"):
        units = {k: Fraction(v).limit_denominator(1000) for k, v in res._units.items()}
        f, root, dim, tainted, _ = R.resolve_compound(units)
        return ("q", np.asarray(res.magnitude, dtype=float) * float(f), dim)
    return ("b", res)


def close(x, y):
    import numpy as np

    try:
        x, y = np.asarray(x, dtype=float), np.asarray(y, dtype=float)
    except (TypeError, ValueError):
        return x == y
    if x.shape != y.shape:
        return False
    return bool(np.allclose(x, y, rtol=1e-9, atol=1e-12, equal_nan=True))


def cmp_norm(a, b):
    if isinstance(a, tuple) and a and isinstance(a[0], tuple):
        return len(a) == len(b) and all(cmp_norm(x, y) for x, y in zip(a, b))
    if a[0] != b[0]:
        # a dimensionless quantity and a bare array denote the same thing
        if a[0] == "q" and not a[2]:
            return close(a[1], b[1])
        if b[0] == "q" and not b[2]:
            return close(a[1], b[1])
        return False
    if a[0] == "q":
        return a[2] == b[2] and close(a[1], b[1])
    return close(a[1], b[1]) if not isinstance(a[1], (str, bool)) else a[1] == b[1]


def build_args(np, ureg, R, rec, arrays, units):
    """quantities whose physical (root-unit) values are `arrays`"""
    out = []
    for arr, u in zip(arrays, units):
        m = arr / _factor(R, u)
        out.append(ureg.Quantity(m, u if u != "dimensionless" else ""))
    return out


def case_call(case, col=None):
    import numpy as np

    import pint

    R = env.R()
    ureg = env.ureg("float", auto_reduce_dimensions=True) if case.get("config") == "auto_reduce" else (env.ureg("float", force_ndarray=True) if case.get("config") == "force_ndarray" else env.ureg("float"))
    rec = _recipe(case["recipe"])
    shape = tuple(case["shape"])
    rng_vals = case["values"]
    n = int(np.prod(shape))
    arrays = []
    for i, role in enumerate(rec["roles"]):
        vals = np.array([(rng_vals[(i * 7 + j) % len(rng_vals)]) for j in range(n)], dtype=float)
        if rec["name"] in ("interp", "searchsorted", "trapezoid"):
            vals = np.cumsum(np.abs(vals) + 1.0)  # strictly increasing abscissae: interpolation on tied knots is undefined
        if case.get("nan") and rec["name"].split(":")[0] in NAN_OK and vals.size > 1:
            vals = vals.copy()
            vals[case["nan"] % vals.size] = np.nan
        vals = vals.reshape(shape)
        if rec.get("exact"):
            vals = np.round(vals) * 8.0  # integer number of bits, multiples of 8: exact in every information unit used
        arrays.append(vals)
    uA, uB = case["unitsA"], case["unitsB"]
    if col is not None:
        col.case(("c", rec["name"], tuple(uA), tuple(uB), shape, case.get("config")), uA != uB or len(set(uA)) > 1, sample={"function": rec["name"], "unitsA": uA, "unitsB": uB, "shape": shape, "config": case.get("config")}, cls=rec["name"].split(":")[0])
        if case.get("config"):
            col.count("config:" + case["config"])
    argsA = build_args(np, ureg, R, rec, arrays, uA)
    keepA = [a.magnitude.copy() for a in argsA]
    keepU = [dict(a._units) for a in argsA]
    sA, rA = attempt(rec["fn"], np, *argsA)
    if rec.get("raises"):
        sB, rB = attempt(rec["fn"], np, *build_args(np, ureg, R, rec, arrays, case["unitsB"]))
        for s_, r_, u_ in ((sA, rA, uA), (sB, rB, case["unitsB"])):
            if s_ == "ok":
                raise Violation(f"numpy_accepts_inexpressible_result:{rec['name']}", f"np.{rec['name']} on units {u_} returned {r_!r}; the cells of the result have different dimensions")
            if type(r_).__name__ != rec["raises"]:
                raise Violation(f"numpy_call_raised:{rec['name']}:{exc_class(r_)}", f"np.{rec['name']} on units {u_} raised {type(r_).__name__}: {r_} (expected {rec['raises']})")
        return
    if sA == "err":
        raise Violation(f"numpy_call_raised:{rec['name']}:{exc_class(rA)}", f"np.{rec['name']} on units {uA}, shape {shape} raised {type(rA).__name__}: {rA}")
    if not rec.get("inplace"):
        for a, k, u, ku in zip(argsA, keepA, uA, keepU):
            if not np.array_equal(a.magnitude, k, equal_nan=True) or dict(a._units) != ku:
                raise Violation(f"numpy_call_modified_input:{rec['name']}", f"np.{rec['name']} changed its input ({u})")
    dims = [_dim(R, u) for u in uA]
    nA = normalise(R, rA)
    want_dim = expected_dim(rec, dims)
    if rec.get("own"):
        # not scale-equivariant: NumPy on the magnitudes in the units given, result in the first argument's unit
        ref = rec["fn"](np, *[a.magnitude for a in argsA])
        f0 = _factor(R, uA[0])
        refn = tuple(("q", np.asarray(x, dtype=float) * f0, dims[0]) for x in ref) if isinstance(ref, tuple) else ("q", np.asarray(ref, dtype=float) * f0, dims[0])
        if not cmp_norm(nA, refn):
            raise Violation(f"numpy_result_differs_from_reference:{rec['name']}", f"np.{rec['name']} on {uA}: {rA!r} vs NumPy on magnitudes {ref!r} [{uA[0]}]")
        return
    ref = rec.get("ref", rec["fn"])(np, *arrays)  # 'ref': angle conversions are the identity on the physical angle
    if rec["out"] == "bare":
        refn = normalise(R, ref)
    elif rec["out"] == "each":
        refn = tuple(("q", np.asarray(x, dtype=float), d) for x, d in zip(ref, dims))
    elif rec["out"] == "anyunit":
        refn = None
    elif isinstance(ref, tuple):
        refn = tuple(("q", np.asarray(x, dtype=float), want_dim) for x in ref)
    else:
        refn = ("q", np.asarray(ref, dtype=float), want_dim)
    if refn is not None and not cmp_norm(nA, refn):
        k = "dimension" if (isinstance(nA, tuple) and nA and nA[0] == "q" and refn[0] == "q" and nA[2] != refn[2]) else "value"
        raise Violation(f"numpy_result_differs_from_reference:{rec['name']}:{k}", f"np.{rec['name']} on {uA} shape {shape}: got {_short(nA)}, NumPy on root magnitudes gives {_short(refn)}")
    if rec.get("skipB"):
        return
    argsB = build_args(np, ureg, R, rec, arrays, uB)
    sB, rB = attempt(rec["fn"], np, *argsB)
    if sB == "err":
        raise Violation(f"numpy_call_raised:{rec['name']}:{exc_class(rB)}", f"np.{rec['name']} on units {uB} raised {type(rB).__name__}: {rB}")
    nB = normalise(R, rB)
    if rec["out"] == "anyunit":
        return
    if not cmp_norm(nA, nB):
        raise Violation(f"numpy_result_depends_on_units:{rec['name']}", f"np.{rec['name']}: units {uA} -> {_short(nA)}; units {uB} -> {_short(nB)}")


def _short(n):
    if isinstance(n, tuple) and n and isinstance(n[0], tuple):
        return "(" + ", ".join(_short(x) for x in n) + ")"
    if n[0] == "q":
        return f"{n[1]!r} dim={dict(n[2])}"
    return repr(n[1])


RECIPES = recipes()
RECIPE_BY_NAME = {r["name"]: r for r in RECIPES}
assert len(RECIPE_BY_NAME) == len(RECIPES), "recipe names must be unique"


def _recipe(ref):
    """cases name their recipe (older replay files carry an index into the table)"""
    return RECIPE_BY_NAME[ref] if isinstance(ref, str) else RECIPES[ref]



def _call_strategy(idxs):
    @st.composite
    def strat(draw):
        i = draw(st.sampled_from(idxs))
        rec = RECIPES[i]
        uA, uB = [], []
        config = draw(st.sampled_from([None, None, None, "auto_reduce", "force_ndarray"]))
        for role in rec["roles"]:
            for side in (uA, uB):
                # (an explicit coin rather than a longer pool: Hypothesis tends to repeat earlier index choices, which starved the tail of the pool)
                if config == "auto_reduce" and role in COMPOUND and draw(st.booleans()):
                    side.append(draw(st.sampled_from(COMPOUND[role])))
                else:
                    side.append(draw(st.sampled_from(POOLS[role])))
        shape = draw(st.sampled_from([(3,), (4,), (2, 2), (2, 3)]))
        vals = draw(st.lists(st.integers(1, 40).map(float), min_size=6, max_size=12))
        if draw(st.booleans()):
            vals = [v + 0.5 for v in vals]
        return {"recipe": rec["name"], "unitsA": uA, "unitsB": uB, "shape": list(shape), "values": vals, "nan": draw(st.sampled_from([0, 1, 2, 3])), "config": config}

    return strat()


def run_calls(task, tier, seed, col):
    idxs = [i for i in range(len(RECIPES)) if i % task["nshard"] == task["shard"]]
    # every recipe once in each non-default registry configuration, with operand units that repeat a dimension where the role has some
    # (enumerated: which recipe meets which configuration is not left to the random search)
    for i in idxs:
        rec = RECIPES[i]
        for config in ("auto_reduce", "force_ndarray"):
            uA = [(COMPOUND[r][(i + k) % len(COMPOUND[r])] if config == "auto_reduce" and r in COMPOUND else POOLS[r][(i + k) % len(POOLS[r])]) for k, r in enumerate(rec["roles"])]
            uB = [POOLS[r][(i + k + 1) % len(POOLS[r])] for k, r in enumerate(rec["roles"])]
            col.run_case(lambda c: case_call(c, col), {"recipe": rec["name"], "unitsA": uA, "unitsB": uB, "shape": [3], "values": [2.0, 3.0, 5.0, 7.0, 11.0, 13.0, 4.5, 6.5], "nan": 0, "config": config})
    hyp_search(col, _call_strategy(idxs), lambda c: case_call(c, col), max_examples=1200 if tier == "quick" else 12000, seed=seed * 257 + task["shard"], max_buckets=8)


# ------------------------------------------------------------------------------------- error clause

def case_error(case, col=None):
    import numpy as np

    import pint

    R = env.R()
    ureg = env.ureg("float")
    rec = _recipe(case["recipe"])
    roles = rec["roles"]
    if len(roles) < 2 or roles[0] != roles[1] or rec["out"] in ("prod", "quot") or rec["name"] == "isin":
        raise Skip("no_same_dimension_slot")
    units = [POOLS[r][0] for r in roles]
    units[1] = "second" if roles[1] != "T" else "meter"
    arrays = [np.array([8.0, 16.0, 24.0]) for _ in roles]
    if col is not None:
        col.case(("e", rec["name"]), True, sample={"function": rec["name"], "units": units}, cls=rec["name"])
    args = build_args(np, ureg, R, rec, arrays, units)
    s, r = attempt(rec["fn"], np, *args)
    if s == "ok":
        raise Violation(f"numpy_accepts_wrong_dimension:{rec['name']}", f"np.{rec['name']} with units {units} returned {r!r}")
    if not isinstance(r, pint.DimensionalityError):
        raise Violation(f"numpy_wrong_exception:{rec['name']}:{exc_class(r)}", f"np.{rec['name']} with units {units} raised {type(r).__name__}: {r}")


BARE_OPS = {"add": lambda np, a, b: np.add(a, b), "subtract": lambda np, a, b: np.subtract(a, b), "maximum": lambda np, a, b: np.maximum(a, b), "less": lambda np, a, b: np.less(a, b),
            "where": lambda np, a, b: np.where(np.array([True, False, True]), a, b), "append": lambda np, a, b: np.append(a, b), "hypot": lambda np, a, b: np.hypot(a, b), "equal": lambda np, a, b: np.equal(a, b)}


def case_bare_operand(case, col=None):
    """a bare (unit-less) array next to a dimensioned quantity in a same-dimension slot is refused whatever its dtype: booleans are numbers (True == 1)
    like their float and integer twins; next to a scaled dimensionless quantity they are converted like them"""
    import numpy as np

    import pint

    ureg = env.ureg("float")
    fn = BARE_OPS[case["op"]]
    bare = {"bool": np.array([True, False, True]), "np.bool_": np.bool_(True), "float": np.array([1.0, 0.0, 1.0]), "int": np.array([1, 0, 1])}[case["dtype"]]
    if col is not None:
        col.case(("bo", case["op"], case["dtype"], case["unit"]), True, sample=case, cls="bare_operand:" + case["dtype"])
    q = ureg.Quantity(np.array([2.0, 3.0, 5.0]), case["unit"])
    s_, r_ = attempt(fn, np, q, bare)
    if case["unit"] == "meter":
        if s_ == "ok":
            raise Violation(f"numpy_accepts_wrong_dimension:{case['op']}:bare_{case['dtype']}", f"np.{case['op']}(meter array, bare {case['dtype']} {bare!r}) returned {r_!r}")
        if not isinstance(r_, pint.DimensionalityError):
            raise Violation(f"numpy_wrong_exception:{case['op']}:bare_{case['dtype']}:{exc_class(r_)}", f"{r_!r}")
        return
    # percent: the bare operand counts as a dimensionless number (1 == 100 percent): same answer as its float twin
    s2, r2 = attempt(fn, np, q, np.asarray(bare, dtype=float))
    if s_ != s2 or (s_ == "ok" and not cmp_norm(normalise(env.R(), r_), normalise(env.R(), r2))):
        raise Violation(f"numpy_result_depends_on_dtype_of_bare_operand:{case['op']}", f"np.{case['op']}(percent array, bare {case['dtype']}) -> {r_!r}; with the same numbers as floats -> {r2!r}")


def run_errors(task, tier, seed, col):
    for op in BARE_OPS:
        for dt in ("bool", "np.bool_", "float", "int"):
            for unit in ("meter", "percent"):
                col.run_case(lambda c: case_bare_operand(c, col), {"op": op, "dtype": dt, "unit": unit})
    for i in range(len(RECIPES)):
        col.run_case(lambda c: case_error(c, col), {"recipe": RECIPES[i]["name"]})
    col.exhaustive = True


# ------------------------------------------------------------------------------------- offset units are refused where the operators refuse

OFFSET_OPS = {
    "add": (lambda np, a, b: np.add(a, b), lambda a, b: a + b), "multiply": (lambda np, a, b: np.multiply(a, b), lambda a, b: a * b), "divide": (lambda np, a, b: np.divide(a, b), lambda a, b: a / b),
    "subtract": (lambda np, a, b: np.subtract(a, b), lambda a, b: a - b), "power": (lambda np, a, b: np.power(a, 2), lambda a, b: a ** 2), "sqrt": (lambda np, a, b: np.sqrt(a), lambda a, b: a ** 0.5),
    "square": (lambda np, a, b: np.square(a), lambda a, b: a ** 2), "reciprocal": (lambda np, a, b: np.reciprocal(a), lambda a, b: 1 / a),
    "sum": (lambda np, a, b: np.sum(a), lambda a, b: a[0] + a[1]), "cumsum": (lambda np, a, b: np.cumsum(a), lambda a, b: a[0] + a[1]), "prod": (lambda np, a, b: np.prod(a), lambda a, b: a[0] * a[1]),
    "var": (lambda np, a, b: np.var(a), lambda a, b: a[0] * a[1]), "dot": (lambda np, a, b: np.dot(a, b), lambda a, b: a[0] * b[0] + a[1] * b[1] + a[2] * b[2]), "mean": (lambda np, a, b: np.mean(a), lambda a, b: a[0] - a[1] + a[1]),
    "maximum": (lambda np, a, b: np.maximum(a, b), lambda a, b: a), "cross": (lambda np, a, b: np.cross(np.resize(a, 3), np.resize(b, 3)), lambda a, b: a[0] * b[0]),
}


def case_offset(case, col=None):
    import numpy as np

    import pint

    auto = case.get("auto", False)
    ureg = env.ureg("float", autoconvert_offset_to_baseunit=True) if auto else env.ureg("float")
    name, ub = case["op"], case["ub"]
    fnp, fop = OFFSET_OPS[name]
    a = ureg.Quantity(np.array([10.0, 20.0, 30.0]), "degC")
    b = ureg.Quantity(np.array([1.0, 2.0, 3.0]), ub)
    if case.get("swap"):
        a, b = b, a
    if col is not None:
        col.case(("o", name, ub, auto, case.get("swap", False)), True, sample=case, cls=name + (":auto" if auto else ""))
    so, ro = attempt(fop, a, b)
    sn, rn = attempt(fnp, np, a, b)
    refuses = so == "err" and isinstance(ro, pint.OffsetUnitCalculusError)
    tag = f"{name}{':auto' if auto else ''}"
    if refuses and sn == "ok":
        raise Violation(f"numpy_accepts_offset_units:{tag}", f"np.{name}({dict(a._units)} array, {dict(b._units)} array) (autoconvert={auto}) returned {rn!r} although the operator form raises OffsetUnitCalculusError")
    if so == "ok" and sn == "err" and isinstance(rn, pint.OffsetUnitCalculusError) and name not in ("sum", "cumsum", "mean", "var", "prod", "maximum"):
        raise Violation(f"numpy_refuses_what_operator_allows:{tag}", f"np.{name}({dict(a._units)}, {dict(b._units)}) raised although the operator returns {ro!r}")
    if so == "ok" and sn == "ok" and name in EXACT_TWINS and hasattr(ro, "_units") and hasattr(rn, "_units"):
        x, y = attempt(lambda: ro.to_root_units()), attempt(lambda: rn.to_root_units())
        if x[0] == "ok" and y[0] == "err":
            raise Violation(f"numpy_differs_from_operator_form:{tag}:unusable_unit", f"np.{name}({dict(a._units)}, {dict(b._units)}) (autoconvert={auto}) = {rn!r} cannot be converted to root units; the operator form gives {ro!r}")
        if x[0] == "ok" and y[0] == "ok":
            if dict(x[1]._units) != dict(y[1]._units) or not np.allclose(np.asarray(x[1].magnitude, dtype=float), np.asarray(y[1].magnitude, dtype=float), rtol=1e-9):
                raise Violation(f"numpy_differs_from_operator_form:{tag}", f"np.{name}({dict(a._units)}, {dict(b._units)}) (autoconvert={auto}) = {rn!r}, the operator form gives {ro!r}")


EXACT_TWINS = {"add", "subtract", "multiply", "divide", "dot", "square", "power", "reciprocal"}


def run_offset(task, tier, seed, col):
    for name in OFFSET_OPS:
        for ub in ("degC", "delta_degC", "kelvin", "meter"):
            for auto in (False, True):
                for swap in (False, True):
                    col.run_case(lambda c: case_offset(c, col), {"op": name, "ub": ub, "auto": auto, "swap": swap})
    col.exhaustive = True


# ------------------------------------------------------------------------------------- ndarray methods follow the quantity's current state

METHODS = ["max", "min", "sum", "mean", "std", "var", "cumsum", "conj", "copy", "ravel", "squeeze", "transpose", "flatten", "round", "prod", "argmax", "any", "astype", "item", "clip", "tolist", "cumprod"]
M_UNITS = {"length": ["meter", "centimeter", "kilometer", "inch"], "frequency": ["hertz", "terahertz", "kilohertz"], "dimensionless": ["percent", "ppm", "dimensionless", "permille"]}
FUNCTION_TWINS = ("max", "min", "sum", "mean", "std", "var", "cumsum", "prod", "cumprod", "ravel", "squeeze", "transpose")


def _method_call(q, m):
    if m == "astype":
        return q.astype(float)
    if m == "round":
        return q.round(1)
    if m == "clip":
        return q.clip(q.__class__(0.5, q.units), q.__class__(30.0, q.units))
    if m == "item":
        return q.item(0) if getattr(q.magnitude, "size", 1) >= 1 and hasattr(q.magnitude, "shape") and q.magnitude.shape else q.item()
    return getattr(q, m)()


def _same_result(np, a, b):
    if hasattr(a, "_units") != hasattr(b, "_units"):
        return False
    if hasattr(a, "_units"):
        return dict(a._units) == dict(b._units) and _same_result(np, a.magnitude, b.magnitude)
    try:
        return bool(np.array_equal(np.asarray(a), np.asarray(b), equal_nan=True)) and np.shape(a) == np.shape(b)
    except (TypeError, ValueError):
        return a == b


def case_methods(case, col=None):
    """a history of method calls and in-place state changes on ONE quantity; after every step each method call must equal the same call on a quantity
    freshly built from the current magnitude and units, whose own unit in turn must be the semantic one"""
    import copy

    import numpy as np

    ureg = env.ureg("float")
    init = case["init"]
    mag = float(init[0]) if case["rank"] == "scalar" else (np.array(float(init[0])) if case["rank"] == "zero" else (np.array(init[:4], dtype=float).reshape(2, 2) if case["rank"] == "two" else np.array(init, dtype=float)))
    q = ureg.Quantity(mag, case["unit"])
    kind = "dimensionless" if case["unit"] in M_UNITS["dimensionless"] else "length"
    changes = calls_after_change = 0
    for step in case["steps"]:
        op = step[0]
        if op == "call":
            fresh = ureg.Quantity(copy.deepcopy(q.magnitude), q.units)
            sg, got = attempt(_method_call, q, step[1])
            sw, want = attempt(_method_call, fresh, step[1])
            calls_after_change += 1 if changes else 0
            if sg != sw or (sg == "err" and type(got) is not type(want)):
                raise Violation(f"ndarray_method_depends_on_history:{step[1]}:outcome", f"{case}: after the steps before it, q.{step[1]}() -> {got!r}; on a fresh quantity of the same magnitude and unit -> {want!r}")
            if sg == "ok" and not _same_result(np, got, want):
                raise Violation(f"ndarray_method_depends_on_history:{step[1]}", f"{case}: q = {q!r}; q.{step[1]}() = {got!r}, on a fresh quantity of the same magnitude and unit {want!r}")
            if sg == "ok" and step[1] in FUNCTION_TWINS and hasattr(q.magnitude, "shape"):
                # the method is the function: q.m() denotes what np.m(q) denotes (the function forms are checked against NumPy by the recipes)
                sf, viaf = attempt(lambda: getattr(np, step[1])(q))
                if sf == "ok" and not cmp_norm(normalise(env.R(), got), normalise(env.R(), viaf)):
                    raise Violation(f"ndarray_method_differs_from_function:{step[1]}", f"{case}: q = {q!r}; q.{step[1]}() = {got!r}, np.{step[1]}(q) = {viaf!r}")
            if sg == "ok" and step[1] in ("max", "min", "sum", "mean", "std", "cumsum", "copy", "ravel", "flatten", "round", "clip") and (not hasattr(got, "_units") or dict(got._units) != dict(q._units)):
                raise Violation(f"ndarray_method_wrong_unit:{step[1]}", f"{case}: q = {q!r}; q.{step[1]}() = {got!r}")
            continue
        changes += 1
        if op == "ito":
            q.ito(M_UNITS[kind][step[1] % len(M_UNITS[kind])])
        elif op == "ctx" and kind == "dimensionless":
            continue
        elif op == "ctx":
            kind = "frequency" if kind == "length" else "length"
            q.ito(M_UNITS[kind][step[1] % len(M_UNITS[kind])], "sp")
        elif op == "imul":
            q *= float(step[1])
        elif op == "base":
            q.ito_base_units()
        elif op == "set" and hasattr(q.magnitude, "shape") and q.magnitude.shape:
            q[(0,) * q.magnitude.ndim] = ureg.Quantity(float(step[1]), q.units)
    if col is not None:
        col.case(("m", case["rank"], case["unit"], tuple(tuple(s) for s in case["steps"])), calls_after_change > 0, sample=case, cls=case["rank"])


def _methods_strategy():
    # (two half-lists and a coin rather than one long list: Hypothesis tends to repeat earlier index choices, which starves the tail of a long pool)
    meth = st.one_of(st.sampled_from(METHODS[: len(METHODS) // 2]), st.sampled_from(METHODS[len(METHODS) // 2:]), st.sampled_from(["cumprod", "prod", "var", "cumsum"]))
    step = st.one_of(st.tuples(st.just("call"), meth), st.tuples(st.just("call"), meth), st.tuples(st.just("ito"), st.integers(0, 3)), st.tuples(st.just("ctx"), st.integers(0, 2)),
                     st.tuples(st.just("imul"), st.sampled_from([2, 3, 0.5])), st.tuples(st.just("base"), st.just(0)), st.tuples(st.just("set"), st.integers(1, 9)))
    return st.fixed_dictionaries({"rank": st.sampled_from(["scalar", "zero", "one", "two"]), "unit": st.one_of(st.sampled_from(M_UNITS["length"]), st.sampled_from(M_UNITS["dimensionless"])),
                                  "init": st.lists(st.integers(1, 40).map(lambda v: v + 0.26), min_size=4, max_size=5), "steps": st.lists(step, min_size=2, max_size=8).map(lambda l: [list(x) for x in l])})


def run_methods(task, tier, seed, col):
    hyp_search(col, _methods_strategy(), lambda c: case_methods(c, col), max_examples=1500 if tier == "quick" else 15000, seed=seed * 263 + 5, max_buckets=8)


# ------------------------------------------------------------------------------------- which handled names have a recipe

def run_coverage(task, tier, seed, col):
    from pint.facets.numpy.numpy_func import HANDLED_FUNCTIONS, HANDLED_UFUNCS

    have = {r["name"].split(":")[0] for r in RECIPES} | set(OFFSET_OPS)
    alias = {"lib.stride_tricks.sliding_window_view": "sliding_window_view", "trapz": "trapezoid"}
    names = sorted(set(HANDLED_FUNCTIONS) | set(HANDLED_UFUNCS))
    missing = [n for n in names if alias.get(n, n) not in have]
    for n in names:
        col.case(("cov", n), True, sample={"name": n, "has_recipe": alias.get(n, n) in have}, cls="covered" if alias.get(n, n) in have else "uncovered")
    col.notes.append(f"handled names: {len(names)}; without a recipe: {missing}")


def run_task(task, tier, seed, col):
    {"calls": run_calls, "errors": run_errors, "offset": run_offset, "coverage": run_coverage, "methods": run_methods}[task["sub"]](task, tier, seed, col)


def replay(sub, case):
    return {"calls": case_call, "errors": (case_bare_operand if "dtype" in case else case_error), "offset": case_offset, "methods": case_methods}[sub](case)
