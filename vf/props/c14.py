"""C14 — systems and groups select base units and members exactly as declared.

Oracles: allowed base-unit sets, factors and membership closures computed by R from the definition files; own closure model for
generated group graphs and edit histories; the generating rule for generated systems.
"""
from __future__ import annotations

import logging
from fractions import Fraction

from hypothesis import strategies as st

from .. import env
from ..core import Collector, Skip, Violation, attempt, exc_class, hyp_search, shard

PROPERTY = "C14"
LEVEL = "exploration"
RULE = ("systems: every canonical multiplicative unit x every declared system (SI, mks, cgs, atomic, Planck, imperial, US) and no system (exhaustive): "
        "get_base_units(u, system=s) and default_system=s; Quantity.to_base_units()/ito_base_units() must use only the system's declared base units plus "
        "root units of dimensions it does not replace, preserve dimension and value (exact for rational units in the Fraction registry), be idempotent "
        "and take effect immediately; compound: Hypothesis compound quantities; attrs: ureg.sys.<s>.<x> for every member name; gensys: generated systems "
        "with 'new' and 'new:old' rules incl. units that are powers of a root unit; groups: generated group graphs with 'using', edit histories "
        "(add/remove units and groups, cyclic 'using' refused) compared with an own closure model after every edit, incl. system members and "
        "group/system-restricted compatible units. Non-trivial = unit whose root units differ from the system's base units, or a membership query "
        "after an edit that changes the closure; distinct = distinct (unit, system) / history")
ASSUMPTIONS = ["R reads the @system/@group blocks correctly (validated item by item against the unchanged tree in C10)",
               "units reached through fractional powers (Planck / atomic base units, 29 float-tainted units) are compared with 1e-9 relative tolerance"]
MIN_COUNTS = {"quick": {"systems": {"_evaluations": 2500, "rebased": 800}, "groups": {"_evaluations": 100}}}


def tasks(tier, seed):
    t = [{"sub": "systems", "shard": i, "nshard": 8} for i in range(8)]
    t += [{"sub": "compound", "shard": i} for i in range(2)]
    t += [{"sub": "attrs", "shard": 0}, {"sub": "gensys", "shard": 0}]
    t += [{"sub": "groups", "shard": i} for i in range(3)]
    return t


def system_model(R, s):
    """(allowed unit names, {root unit: (new spelling, exponent)})"""
    sd = R.systems[s]
    repl = {}
    for new, old in sd.rules:
        r = R.resolve_spelling(new)
        if old is None:
            if len(r.root) != 1:
                raise ValueError("new-form rule must be single-rooted")
            old = next(iter(r.root))
        repl[old] = new
    return repl


def case_system(case):
    R = env.R()
    s, u, x = case["system"], case["unit"], Fraction(case["x"])
    ureg = env.ureg("Fraction")
    r = R.resolve(u)
    tainted = r.tainted or r.irrational
    repl = system_model(R, s) if s else {}
    allowed = set(repl.values()) | {b for b in R.units if R.units[b].is_base and b not in repl}
    for new in repl.values():
        rn = R.resolve_spelling(new)
        tainted = tainted or rn.tainted or rn.irrational
    want_val = x * Fraction(r.factor)
    results = []
    if s:
        # (system=None means "the default system" in this API; 'no system' is reached through default_system = None below)
        s1, fb = attempt(ureg.get_base_units, u, system=s)
        if s1 == "err":
            raise Violation(f"get_base_units_raised:{exc_class(fb)}", f"get_base_units({u!r}, system={s!r}) raised {fb!r}")
        f, bu = fb
        results.append(("get_base_units", x * f if not isinstance(f, float) else float(x) * f, dict(bu._units)))
    old = ureg.default_system
    if s and s != old:
        # right after the question about an explicitly named system, the default system still answers for itself
        repl0 = system_model(R, old) if old else {}
        allowed0 = set(repl0.values()) | {b for b in R.units if R.units[b].is_base and b not in repl0}
        for tag, fn in (("get_base_units", lambda: ureg.get_base_units(u)[1]), ("to_base_units", lambda: ureg.Quantity(x, u).to_base_units())):
            s0, r0 = attempt(fn)
            if s0 == "err":
                raise Violation(f"{tag}_raised:{exc_class(r0)}", f"{tag}({u!r}) under the default system raised {r0!r}")
            extra0 = {n for n in r0._units if n not in allowed0}
            if extra0:
                raise Violation(f"base_units_outside_system:{tag}:default_after_explicit",
                                f"{tag}({u!r}) under the default system {old!r}, asked right after get_base_units({u!r}, system={s!r}), uses {sorted(extra0)}")
    try:
        ureg.default_system = s
        q = ureg.Quantity(x, u)
        b = q.to_base_units()
        results.append(("to_base_units", b.magnitude, dict(b._units)))
        b2 = b.to_base_units()
        if dict(b2._units) != dict(b._units) or (b2.magnitude != b.magnitude and not tainted):
            raise Violation("to_base_units_not_idempotent", f"{x} {u} under {s}: {b.magnitude!r} {dict(b._units)} -> {b2.magnitude!r} {dict(b2._units)}")
        q2 = ureg.Quantity(x, u)
        q2.ito_base_units()
        results.append(("ito_base_units", q2.magnitude, dict(q2._units)))
        fb2 = ureg.get_base_units(u)
        results.append(("get_base_units(default)", x * fb2[0] if not isinstance(fb2[0], float) else float(x) * fb2[0], dict(fb2[1]._units)))
    finally:
        ureg.default_system = old
    for tag, mag, units in results:
        names = set(units)
        extra = {n for n in names if n not in allowed}
        if extra:
            raise Violation(f"base_units_outside_system:{tag}", f"{x} {u} under system {s}: result uses {sorted(extra)}; allowed {sorted(allowed)[:12]}")
        # value and dimension are preserved
        f_, root_, dim_, t_, _ = R.resolve_compound({k: Fraction(v) for k, v in units.items()})
        if dim_ != r.dim:
            raise Violation(f"base_units_change_dimension:{tag}", f"{x} {u} under {s}: {units}")
        got_val = Fraction(mag) * Fraction(f_) if not isinstance(mag, float) else None
        if not (tainted or t_) and got_val is not None:
            if got_val != want_val:
                raise Violation(f"base_units_change_value:{tag}", f"{x} {u} under {s}: {mag!r} {units} is {got_val} in root units, expected {want_val}")
        else:
            g = float(mag) * float(f_)
            if abs(g - float(want_val)) > 1e-9 * abs(float(want_val)):
                raise Violation(f"base_units_change_value:{tag}:float", f"{x} {u} under {s}: {g!r} vs {float(want_val)!r}")
    if len({(str(m) if not isinstance(m, float) else round(m, 9), tuple(sorted(un.items()))) for _, m, un in results}) != 1 and not tainted:
        raise Violation("base_unit_entry_points_disagree", f"{x} {u} under {s}: {[(t, str(m)[:30], un) for t, m, un in results]}")


NONMULT = {"degree_Celsius": (Fraction(1), Fraction(27315, 100)), "degree_Fahrenheit": (Fraction(5, 9), Fraction(45967, 180)), "degree_Reaumur": (Fraction(5, 4), Fraction(27315, 100))}


def case_system_nonmult(case):
    """offset units under every default system: to_base_units and its in-place twin give the absolute temperature in kelvin (no system
    replaces kelvin), for scalars and ndarrays alike"""
    import numpy as np

    s, u, x = case["system"], case["unit"], Fraction(case["x"])
    ureg = env.ureg("Fraction")
    scale, off = NONMULT[u]
    want = x * scale + off
    old = ureg.default_system
    try:
        ureg.default_system = s
        a = ureg.Quantity(x, u).to_base_units()
        b = ureg.Quantity(x, u)
        b.ito_base_units()
        for tag, q in (("to_base_units", a), ("ito_base_units", b)):
            back = float(q.to("kelvin").magnitude)  # (atomic and Planck systems replace kelvin: the value is judged in kelvin)
            if abs(back - float(want)) > 1e-9 * float(want):
                raise Violation(f"base_units_of_offset_unit:{tag}", f"Q({x},{u}).{tag}() under system {s} = {q.magnitude!r} {dict(q._units)} = {back} kelvin, expected {want} kelvin")
        if dict(a._units) != dict(b._units) or a.magnitude != b.magnitude:
            raise Violation("base_units_of_offset_unit:in_place_differs", f"Q({x},{u}) under system {s}: to_base_units {a.magnitude!r} {dict(a._units)}, ito_base_units {b.magnitude!r} {dict(b._units)}")
        fl = env.ureg("float")
        o2 = fl.default_system
        try:
            fl.default_system = s
            arr = fl.Quantity(np.array([float(x), 0.0]), u)
            c = arr.to_base_units()
            arr.ito_base_units()
            for tag, q in (("to_base_units:ndarray", c), ("ito_base_units:ndarray", arr)):
                if not np.allclose(q.to("kelvin").magnitude, [float(want), float(off)], rtol=1e-9):
                    raise Violation(f"base_units_of_offset_unit:{tag}", f"{u} under {s}: {q.magnitude!r} {dict(q._units)}")
        finally:
            fl.default_system = o2
    finally:
        ureg.default_system = old


def run_systems(task, tier, seed, col):
    if task["shard"] == 0:
        for u in NONMULT:
            for s_ in [None] + list(env.R().systems):
                col.case(("syn", u, s_), True, sample={"unit": u, "system": s_}, cls="offset_unit")
                col.run_case(case_system_nonmult, {"system": s_, "unit": u, "x": Fraction(25)})
    R = env.R()
    names = env.unit_names("mult")
    systems = [None] + list(R.systems)
    for u in shard(names, task["shard"], task["nshard"]):
        for s in systems:
            repl = system_model(R, s) if s else {}
            rebased = any(k in R.resolve(u).root for k in repl)
            col.case(("sy", u, s), rebased, sample={"unit": u, "system": s}, cls=str(s))
            if rebased:
                col.count("rebased")
            col.run_case(case_system, {"system": s, "unit": u, "x": Fraction(7, 2)})
    col.exhaustive = True


def case_compound(case, col=None):
    R = env.R()
    ureg = env.ureg("Fraction")
    s, units, x = case["system"], case["units"], Fraction(case["x"])
    f, root, dim, tainted, _ = R.resolve_compound({k: Fraction(v) for k, v in units.items()})
    repl = system_model(R, s) if s else {}
    for new in repl.values():
        rn = R.resolve_spelling(new)
        tainted = tainted or rn.tainted or rn.irrational
    allowed = set(repl.values()) | {b for b in R.units if R.units[b].is_base and b not in repl}
    if tainted and sum(abs(Fraction(e)) for e in units.values()) > 2:
        # Planck / atomic base units are ~1e-35 .. 1e-44 in SI: raised to the powers a compound unit needs, pint's intermediate float
        # products become subnormal or underflow (siemens**3 -> 0.0).  A float-range limit, not a unit-system rule: skipped and counted.
        raise Skip("float_range_planck_like_system")
    if col is not None:
        col.case(("cp", str(sorted(units.items())), s, str(x)), True, sample={"units": units, "system": s, "x": x}, cls=str(s))
    old = ureg.default_system
    try:
        ureg.default_system = s
        try:
            b = ureg.Quantity(x, ureg.UnitsContainer(dict(units))).to_base_units()
        except ValueError as e:
            if "inf" in str(e) or "nan" in str(e).lower():
                raise Skip("float_range_overflow")  # planck/atomic base units to the 9th power leave the float range
            raise
    finally:
        ureg.default_system = old
    if set(b._units) - allowed:
        raise Violation("base_units_outside_system:compound", f"{x} {units} under {s}: {dict(b._units)}")
    f2, root2, dim2, t2, _ = R.resolve_compound({k: Fraction(v) for k, v in b._units.items()})
    if dim2 != dim:
        raise Violation("base_units_change_dimension:compound", f"{units} under {s}")
    if not (tainted or t2) and not isinstance(b.magnitude, float):
        if Fraction(b.magnitude) * f2 != x * f:
            raise Violation("base_units_change_value:compound", f"{x} {units} under {s}: {b.magnitude!r} {dict(b._units)}")
    elif abs(float(b.magnitude) * float(f2) - float(x) * float(f)) > 1e-7 * abs(float(x) * float(f)):
        # square-root based base units (Planck, atomic) raised to powers up to 12: float error grows with the exponent
        raise Violation("base_units_change_value:compound:float", f"{x} {units} under {s}: {float(b.magnitude) * float(f2)!r} vs {float(x) * float(f)!r}")


def run_compound(task, tier, seed, col):
    R = env.R()
    names = list(env.unit_names("mult"))
    strat = st.builds(lambda u, s, x: {"units": u, "system": s, "x": x}, st.dictionaries(st.sampled_from(names), st.integers(-3, 3).filter(bool), min_size=1, max_size=4),
                      st.sampled_from([None] + list(R.systems)), st.fractions(1, 50, max_denominator=8))
    hyp_search(col, strat, lambda c: case_compound(c, col), max_examples=400 if tier == "quick" else 8000, seed=seed * 229 + task["shard"])


# ------------------------------------------------------------------------------------- ureg.sys.<system>.<name>

def case_attr(case):
    R = env.R()
    ureg = env.ureg("Fraction")
    s, x = case["system"], case["name"]
    if case.get("casei"):
        # a registry that is not case sensitive: the variant is found whatever the case of the attribute
        ureg = env.ureg("Fraction", case_sensitive=False)
        def ci(word):
            hits = sorted({R.spell[sp] for sp in R.spell if sp.lower() == word.lower()})
            return hits[0] if len(hits) == 1 else None
        want = ci(f"{s}_{x}") or ci(x)
        if want is None:
            raise Skip("no_single_case_insensitive_reading")
    else:
        want = R.spell.get(f"{s}_{x}") or None
        if want is None:
            # the variant may itself be written with a prefix or in the plural (whatever the registry's parser accepts for '<system>_<name>')
            rs = [r_ for r_ in R.readings(f"{s}_{x}") if r_[1] in R.units]
            want = (rs[0][0] + rs[0][1]) if rs else R.spell.get(x)
        if want is None:
            rs = R.readings(x)
            want = (rs[0][0] + rs[0][1]) if rs else None
    st_, got = attempt(lambda: getattr(getattr(ureg.sys, s), x))
    if want is None:
        if st_ == "ok":
            raise Violation("system_attribute_resolves_unknown_name", f"sys.{s}.{x} = {dict(got._units)}")
        return
    if st_ == "err":
        raise Violation(f"system_attribute_raised:{exc_class(got)}", f"sys.{s}.{x}: {got!r}")
    if dict(got._units) != {want: 1}:
        raise Violation("system_attribute_wrong_unit", f"sys.{s}.{x} = {dict(got._units)}, expected {want!r} (variant {s}_{x} {'defined' if f'{s}_{x}' in R.spell else 'not defined'})")
    if got._REGISTRY is not ureg:
        raise Violation("system_attribute_foreign_registry", f"sys.{s}.{x}")
    # dir() lists the members
    members = set(dir(getattr(ureg.sys, s)))
    if members != R.system_members(s):
        raise Violation("system_dir_differs_from_members", f"{s}: {len(members)} vs {len(R.system_members(s))}")


def run_attrs(task, tier, seed, col):
    R = env.R()
    for s in R.systems:
        pool = sorted(R.system_members(s))
        variants = sorted({sp[len(s) + 1:] for sp in R.spell if sp.startswith(s + "_")})
        for x in variants + pool[:: (6 if tier == "quick" else 1)] + ["pint", "gallon", "ton", "hundredweight", "not_a_unit_xyz"]:
            col.case(("at", s, x), f"{s}_{x}" in R.spell, sample={"system": s, "attribute": x}, cls="variant" if f"{s}_{x}" in R.spell else "plain")
            col.run_case(case_attr, {"system": s, "name": x})
        # plural and differently cased attributes of the variants
        for x in variants:
            for y, ci_ in ((x + "s", False), (x.upper(), True), (x.capitalize(), True), (x, True)):
                col.case(("at", s, y, ci_), True, sample={"system": s, "attribute": y, "case_insensitive_registry": ci_}, cls="variant:plural" if not ci_ else "variant:casei")
                col.run_case(case_attr, {"system": s, "name": y, "casei": ci_})
    col.exhaustive = tier == "thorough"


# ------------------------------------------------------------------------------------- generated systems

_GS = [0]


def case_gensys(case, col=None):
    """@system with 'new' and 'new:old' rules, incl. new units that are a power of a root unit (liter = dm**3 replaces meter)."""
    logging.disable(logging.CRITICAL)
    try:
        R = env.R()
        ureg = env.fresh("Fraction")
        rules = case["rules"]
        _GS[0] += 1
        name = f"gsys{_GS[0]}"
        hw = case.get("header_ws", " ")  # column-aligned headers: any run of blanks / tabs separates the words
        grp = case.get("group", "international")
        lines = [f"@system{hw}{name}{hw}using{hw}{grp}"] + [f"    {new}: {old}" if form == "pair" else f"    {new}" for new, old, form in rules] + ["@end"]
        if col is not None:
            col.case(("gs", str(rules), case["probe"], str(case["x"])), True, sample={"lines": lines, "probe": case["probe"]}, cls="+".join(sorted({f for _, _, f in rules})))
        s, r = attempt(ureg.load_definitions, lines)
        if s == "err":
            raise Violation(f"valid_system_refused:{exc_class(r)}", f"{lines}: {r!r}")
        # the members are those of the groups named after 'using'
        want_members = R.group_members(grp) if hasattr(R, "group_members") else None
        got_members = set(ureg.get_system(name, False).members)
        if want_members is not None and got_members != set(want_members):
            raise Violation("generated_system_members_differ_from_using_clause", f"{lines}: {len(got_members)} members, the group {grp!r} has {len(set(want_members))}")
        x = Fraction(case["x"])
        u = case["probe"]
        ru = R.resolve(u)
        s, fb = attempt(ureg.get_base_units, u, system=name)
        if s == "err":
            raise Violation(f"generated_system_unusable:{exc_class(fb)}", f"{lines}: get_base_units({u!r}) raised {type(fb).__name__}: {fb}")
        f, bu = fb
        repl = {old: new for new, old, _ in rules}
        allowed = set(repl.values()) | {b for b in R.units if R.units[b].is_base and b not in repl}
        if set(bu._units) - allowed:
            raise Violation("generated_system_base_units_outside_system", f"{lines}: {u} -> {dict(bu._units)}")
        f2, root2, dim2, t2, _ = R.resolve_compound({k: Fraction(v) for k, v in bu._units.items()})
        if dim2 != ru.dim:
            raise Violation("generated_system_changes_dimension", f"{lines}: {u} -> {dict(bu._units)}")
        got = float(f) * float(f2)
        if abs(got - float(ru.factor)) > 1e-9 * abs(float(ru.factor)):
            raise Violation("generated_system_changes_value", f"{lines}: 1 {u} = {f!r} {dict(bu._units)} = {got!r} in root units, expected {float(ru.factor)!r}")
        # every replaced root unit must actually be gone when the probe contains it
        for old, new in repl.items():
            if old in ru.root and old in bu._units:
                raise Violation("generated_system_rule_not_applied", f"{lines}: {u} -> {dict(bu._units)} still contains {old}")
    finally:
        logging.disable(logging.NOTSET)


def case_refused_system(case, col=None):
    """a @system block whose later rule is invalid is refused as a whole: the registry does not know the system afterwards (not through get_system,
    ureg.sys, default_system or system=), and the corrected block can be defined under the same name and works"""
    import pint

    ureg = env.fresh("Fraction")
    name = "sysbad"
    bad = ["@system " + name, "    centimeter", "    " + case["bad_rule"], "@end"]
    good = ["@system " + name, "    centimeter", "    gram", "@end"]
    if col is not None:
        col.case(("rs", case["bad_rule"]), True, sample=case, cls="refused_system")
    s_, r_ = attempt(ureg.load_definitions, bad)
    if s_ == "ok":
        raise Violation("invalid_system_definition_accepted", f"{bad}")
    for tag, fn in (("get_system", lambda: ureg.get_system(name, False)), ("sys", lambda: getattr(ureg.sys, name)), ("default_system", lambda: setattr(ureg, "default_system", name)),
                    ("system=", lambda: ureg.get_base_units("newton", system=name))):
        s2, r2 = attempt(fn)
        if s2 == "ok":
            raise Violation(f"refused_system_is_known:{tag}", f"{bad} raised {type(r_).__name__}, yet {tag} answers {r2!r}")
    if name in dir(ureg.sys):
        raise Violation("refused_system_is_known:dir", f"{bad}")
    s3, r3 = attempt(ureg.load_definitions, good)
    if s3 == "err":
        raise Violation(f"corrected_system_refused:{exc_class(r3)}", f"after the refused {bad}: {good} raised {type(r3).__name__}: {r3}")
    f, u = ureg.get_base_units("newton", system=name)
    if dict(u._units) != {"gram": 1, "centimeter": 1, "second": -2} or f != 100000:
        raise Violation("corrected_system_wrong", f"newton in the corrected system: {f} {dict(u._units)}")


def run_gensys(task, tier, seed, col):
    for bad_rule in ("nonexistent_unit_xyz", "meter:second", "gram:nonexistent_unit_xyz", "nonexistent_unit_xyz:gram", "newton:joule"):
        col.run_case(lambda c: case_refused_system(c, col), {"bad_rule": bad_rule})
    R = env.R()
    # (new unit, root unit it replaces)
    cands = {"meter": ["centimeter", "inch", "liter", "hectare", "gallon", "barn", "yard", "acre"], "gram": ["kilogram", "pound", "carat"], "second": ["hour", "hertz", "minute"],
             "ampere": ["biot"]}
    probes = ["newton", "joule", "liter", "mile", "pound", "watt", "hour", "knot", "pascal", "coulomb", "meter", "gram", "second"]

    @st.composite
    def strat(draw):
        roots = draw(st.lists(st.sampled_from(sorted(cands)), min_size=1, max_size=3, unique=True))
        rules = []
        for old in roots:
            new = draw(st.sampled_from(cands[old]))
            form = draw(st.sampled_from(["single", "pair"]))
            rules.append([new, old, form])
        return {"rules": rules, "probe": draw(st.sampled_from(probes)), "x": 1, "header_ws": draw(st.sampled_from([" ", "  ", "\t", " \t ", "    "])), "group": draw(st.sampled_from(["international", "international", "Textile", "USCSLiquidVolume"]))}

    hyp_search(col, strat(), lambda c: case_gensys(c, col), max_examples=60 if tier == "quick" else 1200, seed=seed * 233, shrink_budget_s=60)


# ------------------------------------------------------------------------------------- group graphs and edit histories

G_LINES = """
xm = [xlen]
xs = [xtime]
u1 = 2 * xm
u2 = 3 * xm
u3 = 5 * xs
u4 = 7 * xs
u5 = 11 * xm
u6 = 13 * xm / xs
@group g1
    m1 = 17 * xm
@end
@group g2 using g1
    m2 = 19 * xs
@end
@group g3 using g2
    m3 = 23 * xm
@end
@group g4
    m4 = 29 * xm
@end
@system s1 using g3
    xm
@end
@system s2 using g1, g4
    xm
@end
""".strip().splitlines()
G_OWN = {"g1": {"m1"}, "g2": {"m2"}, "g3": {"m3"}, "g4": {"m4"}}
G_USING = {"g1": set(), "g2": {"g1"}, "g3": {"g2"}, "g4": set()}
G_SYS = {"s1": {"g3"}, "s2": {"g1", "g4"}}
G_DIM = {"u1": "L", "u2": "L", "u3": "T", "u4": "T", "u5": "L", "u6": "LT", "m1": "L", "m2": "T", "m3": "L", "m4": "L", "xm": "L", "xs": "T"}


def closure(own, using, g, seen=()):
    out = set(own[g])
    for h in using[g]:
        if h not in seen:
            out |= closure(own, using, h, seen + (g,))
    return out


def reaches(using, a, b, seen=None):
    seen = seen or set()
    if a == b:
        return True
    seen.add(a)
    return any(reaches(using, h, b, seen) for h in using[a] if h not in seen)


def case_groups(case, col=None):
    import pint

    logging.disable(logging.CRITICAL)
    try:
        ureg = pint.UnitRegistry(G_LINES, non_int_type=Fraction)
        own = {k: set(v) for k, v in G_OWN.items()}
        using = {k: set(v) for k, v in G_USING.items()}
        sysuse = {k: set(v) for k, v in G_SYS.items()}
        if col is not None:
            col.case(("gr", str(case["ops"])), True, sample={"ops": case["ops"]}, cls="group_history")

        def verify(where, view=None):
            # view: which groups / systems are looked at after this step, in which order (None = all): a reader that always looks at
            # everything refreshes every memo after every edit and can never see one that was left stale
            for g in (own if view is None else [v for v in view if v in own]):
                want = closure(own, using, g)
                got = set(ureg.get_group(g, False).members)
                if got != want:
                    raise Violation("group_members_differ_from_closure", f"{where}: {g}.members = {sorted(got)}, declared closure {sorted(want)}")
            for s, gs in sysuse.items():
                if view is not None and s not in view:
                    continue
                want = set()
                for g in gs:
                    want |= closure(own, using, g)
                got = set(ureg.get_system(s, False).members)
                if got != want:
                    raise Violation("system_members_differ_from_closure", f"{where}: {s}.members = {sorted(got)}, closure {sorted(want)}")
                for probe in ("xm", "xs"):
                    gotc = {next(iter(x._units)) for x in ureg.get_compatible_units(probe, s)}
                    wantc = {m for m in want if G_DIM[m] == G_DIM[probe]}
                    if gotc != wantc:
                        raise Violation("compatible_units_in_system_differ", f"{where}: get_compatible_units({probe},{s}) = {sorted(gotc)}, expected {sorted(wantc)}")
            for g in (own if view is None else [v for v in view if v in own]):
                gotc = {next(iter(x._units)) for x in ureg.get_compatible_units("xm", g)}
                wantc = {m for m in closure(own, using, g) if G_DIM[m] == "L"}
                if gotc != wantc:
                    raise Violation("compatible_units_in_group_differ", f"{where}: get_compatible_units(xm,{g}) = {sorted(gotc)}, expected {sorted(wantc)}")

        views = list(case.get("views") or [])
        verify("after loading", views[0] if views else None)
        done = []
        for i, op in enumerate(case["ops"]):
            view = views[(i + 1) % len(views)] if views else None
            kind = op[0]
            done.append(op)
            where = f"after {done}"
            if kind == "add_units":
                _, g, u = op
                ureg.get_group(g, False).add_units(u)
                own[g].add(u)
            elif kind == "remove_units":
                _, g, u = op
                if u not in own[g]:
                    done.pop()
                    continue
                ureg.get_group(g, False).remove_units(u)
                own[g].discard(u)
            elif kind == "add_groups":
                _, g, h = op
                if g == h:
                    done.pop()
                    continue
                cyc = reaches(using, h, g)
                s, r = attempt(ureg.get_group(g, False).add_groups, h)
                if cyc:
                    if s == "ok":
                        raise Violation("cyclic_using_accepted", f"{where}: {g}.add_groups({h}) although {h} already uses {g}")
                    continue
                if s == "err":
                    raise Violation(f"valid_add_groups_refused:{exc_class(r)}", f"{where}: {r!r}")
                using[g].add(h)
            elif kind == "remove_groups":
                _, g, h = op
                if h not in using[g]:
                    s, r = attempt(ureg.get_group(g, False).remove_groups, h)
                    done.pop()
                    continue
                s, r = attempt(ureg.get_group(g, False).remove_groups, h)
                if s == "err":
                    raise Violation(f"remove_groups_of_declared_edge_raised:{exc_class(r)}", f"{where}: {g}.remove_groups({h}) raised {r!r} although the edge was added")
                using[g].discard(h)
            elif kind == "sys_add":
                _, s_, g = op
                ureg.get_system(s_, False).add_groups(g)
                sysuse[s_].add(g)
            elif kind == "sys_remove":
                _, s_, g = op
                if g not in sysuse[s_]:
                    done.pop()
                    continue
                ureg.get_system(s_, False).remove_groups(g)
                sysuse[s_].discard(g)
            verify(where, view)
        verify(f"after {done} (everything)")
    finally:
        logging.disable(logging.NOTSET)


def run_groups(task, tier, seed, col):
    gs = ["g1", "g2", "g3", "g4"]
    us = ["u1", "u2", "u3", "u4", "u5", "u6", "m1", "m4"]
    op = st.one_of(st.tuples(st.just("add_units"), st.sampled_from(gs), st.sampled_from(us)), st.tuples(st.just("remove_units"), st.sampled_from(gs), st.sampled_from(us + ["m2", "m3"])),
                   st.tuples(st.just("add_groups"), st.sampled_from(gs), st.sampled_from(gs)), st.tuples(st.just("remove_groups"), st.sampled_from(gs), st.sampled_from(gs)),
                   st.tuples(st.just("add_groups"), st.sampled_from(gs), st.sampled_from(gs)), st.tuples(st.just("sys_add"), st.sampled_from(["s1", "s2"]), st.sampled_from(gs)),
                   st.tuples(st.just("sys_remove"), st.sampled_from(["s1", "s2"]), st.sampled_from(gs)))
    # a shortcut edge next to a longer path, then the longer path is cut: membership must survive through the shortcut
    shortcut = st.sampled_from([[("add_groups", "g3", "g1"), ("remove_groups", "g2", "g1")], [("add_groups", "g3", "g1"), ("remove_groups", "g3", "g2")],
                                [("add_groups", "g4", "g2"), ("add_groups", "g4", "g1"), ("remove_groups", "g2", "g1")]])
    view = st.one_of(st.none(), st.lists(st.sampled_from(gs + ["s1", "s2"]), min_size=1, max_size=2, unique=True), st.sampled_from([["g4"], ["g3"], ["s1"], ["s2"]]))
    # the same inner group edited twice in a row while only an outer group / a system is looked at in between
    twice = st.tuples(st.sampled_from(["g1", "g2"]), st.sampled_from(us), st.sampled_from(us)).map(lambda t: [("add_units", t[0], t[1]), ("add_units", t[0], t[2]), ("remove_units", t[0], t[1])])
    strat = st.tuples(st.lists(st.one_of(op.map(lambda o: [o]), op.map(lambda o: [o]), shortcut, twice), min_size=1, max_size=10), st.lists(view, min_size=1, max_size=6)).map(
        lambda t: {"ops": [list(o) for ch in t[0] for o in ch], "views": t[1]})
    hyp_search(col, strat, lambda c: case_groups(c, col), max_examples=120 if tier == "quick" else 3000, seed=seed * 239 + task["shard"], shrink_budget_s=60)


def run_task(task, tier, seed, col):
    {"systems": run_systems, "compound": run_compound, "attrs": run_attrs, "gensys": run_gensys, "groups": run_groups}[task["sub"]](task, tier, seed, col)


def replay(sub, case):
    if sub == "systems" and case.get("unit") in NONMULT:
        return case_system_nonmult(case)
    return {"systems": case_system, "compound": case_compound, "attrs": case_attr, "gensys": (case_refused_system if "bad_rule" in case else case_gensys), "groups": case_groups}[sub](case)
