"""C05 — equality, ordering and hashing agree with physical value.

Oracle: value_R(q) = exact base value through R's factors / affine maps; eq_R := same R-dimension and equal value.
"""
from __future__ import annotations

import math
from fractions import Fraction

from hypothesis import strategies as st

from .. import env
from ..core import Collector, Skip, Violation, attempt, exc_class, hyp_search, khash

PROPERTY = "C05"
LEVEL = "exploration"
RULE = ("triples: Hypothesis draws a dimension class and 3 quantities in it (same value re-expressed exactly in another unit, a perturbed value, "
        "zero, negatives) in the Fraction registry; temperature: offset/absolute/delta temperature units with exact affine re-expression; "
        "cross: pairs from different dimension classes; numbers: comparisons with bare numbers; floats: order checks away from ties in the float "
        "registry; units: Unit-vs-Unit comparisons agree with 1*unit. Checked: == / != against eq_R, reflexive/symmetric/transitive, equal => "
        "equal hash, trichotomy and order agreement, DimensionalityError across dimensions. Non-trivial = pair in different units of one "
        "class, or an offset unit, a zero, or two units of equal dimension but different root units; distinct = distinct (class, units, values)")
ASSUMPTIONS = ["R's factors/affine maps are the specification of 'physical value'",
               "units with a negative scale (electron_g_factor) are excluded from ordering clauses ('positively scaled units')"]
MIN_COUNTS = {"quick": {"triples": {"reexpressed_equal": 300, "different_root_units": 20}, "temperature": {"_evaluations": 300}}}


def tasks(tier, seed):
    t = [{"sub": "triples", "shard": i} for i in range(4)]
    t += [{"sub": "temperature", "shard": i} for i in range(2)]
    t += [{"sub": "cross", "shard": 0}, {"sub": "numbers", "shard": 0}, {"sub": "floats", "shard": 0}, {"sub": "units", "shard": 0}]
    t += [{"sub": "compound", "shard": i} for i in range(2)] + [{"sub": "inplace", "shard": 0}, {"sub": "context", "shard": 0}]
    return t


def _classes():
    R = env.R()
    byd = {}
    for n in env.unit_names("mult"):
        r = R.resolve(n)
        if r.tainted or r.irrational or r.factor <= 0:
            continue
        byd.setdefault(tuple(sorted(r.dim.items())), []).append(n)
    return {k: v for k, v in byd.items() if len(v) >= 2}


def value_R(x, unit):
    """exact base value of x <unit> (multiplicative, offset, or delta_ of an offset unit)."""
    R = env.R()
    x = Fraction(x)
    if unit.startswith("delta_"):
        u = R.units[unit[len("delta_"):]]
        return x * R.resolve(u.name).factor, R.resolve(u.name).dim
    r = R.resolve(unit)
    off = R.offset_of(unit)
    if off:
        return x * r.factor + off, r.dim
    return x * r.factor, r.dim


def Q(x, u):
    return env.ureg("Fraction").Quantity(x, u)


def rel_check(a, b, va, vb, same_dim, what, order=True):
    """all relations between two quantities against the oracle values"""
    import pint

    eqR = same_dim and va == vb
    s, v = attempt(lambda: a == b)
    if s == "err":
        raise Violation(f"eq_raised:{exc_class(v)}", f"{what}: == raised {v!r}")
    if bool(v) != eqR:
        kind = "false_positive" if v else "false_negative"
        raise Violation(f"eq_disagrees:{kind}:{'same_dim' if same_dim else 'cross_dim'}", f"{what}: == is {v}, physical values {va} vs {vb}, same dimension {same_dim}")
    if bool(a != b) == eqR:
        raise Violation("ne_inconsistent_with_eq", f"{what}")
    if bool(b == a) != eqR:
        raise Violation("eq_not_symmetric", f"{what}: a==b is {v}, b==a is {b == a}")
    if eqR:
        ha, hb = attempt(hash, a), attempt(hash, b)
        if ha[0] == "err" or hb[0] == "err":
            raise Violation("hash_raised", f"{what}: {ha} {hb}")
        if ha[1] != hb[1]:
            raise Violation("hash_differs_for_equal", f"{what}: equal quantities, hashes {ha[1]} != {hb[1]}")
    if not order:
        return
    res = {}
    for name, fn in (("<", lambda: a < b), ("<=", lambda: a <= b), (">", lambda: a > b), (">=", lambda: a >= b)):
        res[name] = attempt(fn)
    if not same_dim:
        for name, (s, v) in res.items():
            if s == "ok":
                raise Violation("ordering_across_dimensions_returned", f"{what}: a {name} b returned {v!r}")
            if not isinstance(v, pint.DimensionalityError):
                raise Violation(f"ordering_across_dimensions_wrong_exception:{exc_class(v)}", f"{what}: a {name} b raised {type(v).__name__}: {v}")
        return
    for name, (s, v) in res.items():
        if s == "err":
            raise Violation(f"ordering_raised:{exc_class(v)}", f"{what}: a {name} b raised {type(v).__name__}: {v}")
    want = {"<": va < vb, "<=": va <= vb, ">": va > vb, ">=": va >= vb}
    for name in want:
        if bool(res[name][1]) != want[name]:
            raise Violation(f"order_disagrees:{name}", f"{what}: a {name} b is {res[name][1]}, base values {va} vs {vb}")
    if sum([bool(res["<"][1]), bool(a == b), bool(res[">"][1])]) != 1:
        raise Violation("trichotomy", f"{what}")


# ------------------------------------------------------------------------------------- triples in one class

def _triples_strategy():
    R = env.R()
    classes = _classes()
    keys = sorted(classes)
    xs = st.one_of(st.integers(-20, 20), st.fractions(-50, 50, max_denominator=40), st.just(0), st.just(Fraction(1)))

    @st.composite
    def strat(draw):
        k = draw(st.sampled_from(keys))
        units = classes[k]
        ua, ub, uc = (draw(st.sampled_from(units)) for _ in range(3))
        x = draw(xs)
        modeb = draw(st.sampled_from(["same", "same", "perturb", "other"]))
        modec = draw(st.sampled_from(["same", "perturb", "other", "zero"]))
        return {"ua": ua, "ub": ub, "uc": uc, "x": x, "modeb": modeb, "modec": modec,
                "d": draw(st.sampled_from([Fraction(1, 1000), Fraction(-1, 7), Fraction(3)])), "y": draw(xs)}

    return strat()


def _derive(R, x, ua, u2, mode, d, y):
    fa, f2 = R.resolve(ua).factor, R.resolve(u2).factor
    same = Fraction(x) * fa / f2
    if mode == "same":
        return same
    if mode == "perturb":
        return same + d
    if mode == "zero":
        return Fraction(0)
    return Fraction(y)


def case_triple(case, col=None):
    R = env.R()
    ua, ub, uc, x = case["ua"], case["ub"], case["uc"], Fraction(case["x"])
    xb = _derive(R, x, ua, ub, case["modeb"], case["d"], case["y"])
    xc = _derive(R, x, ua, uc, case["modec"], case["d"], case["y"])
    a, b, c = Q(x, ua), Q(xb, ub), Q(xc, uc)
    # a read-only question about another unit system in between (equality and hashes must not depend on it); chosen by the case itself
    other = ("cgs", "imperial", "US", None)[(len(ua) + len(ub) + len(uc)) % 4]
    if other:
        ureg_ = env.ureg("Fraction")
        for un in (ua, ub, uc):
            attempt(ureg_.get_base_units, un, system=other)
    (va, da), (vb, db), (vc, dc) = value_R(x, ua), value_R(xb, ub), value_R(xc, uc)
    if col is not None:
        diffroot = R.resolve(ua).root != R.resolve(ub).root
        col.case(("t", ua, ub, uc, str(x), case["modeb"], case["modec"]), ua != ub or x == 0,
                 sample={"a": [x, ua], "b": [xb, ub], "c": [xc, uc]}, cls="reexpressed_equal" if (va == vb and ua != ub) else "other")
        if diffroot and va == vb:
            col.count("different_root_units")
        if x == 0 or xb == 0:
            col.count("zero_operand")
    rel_check(a, b, va, vb, True, f"Q({x},{ua}) vs Q({xb},{ub})")
    rel_check(b, c, vb, vc, True, f"Q({xb},{ub}) vs Q({xc},{uc})")
    rel_check(a, c, va, vc, True, f"Q({x},{ua}) vs Q({xc},{uc})")
    if not (a == a) or a != a:
        raise Violation("eq_not_reflexive", f"Q({x},{ua})")
    if (a == b) and (b == c) and not (a == c):
        raise Violation("eq_not_transitive", f"{(x, ua)}, {(xb, ub)}, {(xc, uc)}")
    # hashing makes equal quantities one set element
    if va == vb == vc and len({a, b, c}) != 1:
        raise Violation("hash_differs_for_equal", f"set of three equal quantities has {len({a, b, c})} elements: {(x, ua)}, {(xb, ub)}, {(xc, uc)}")


def run_triples(task, tier, seed, col):
    hyp_search(col, _triples_strategy(), lambda c: case_triple(c, col), max_examples=800 if tier == "quick" else 15000,
               seed=seed * 41 + task["shard"])


# ------------------------------------------------------------------------------------- temperature-like units

TEMP = ["kelvin", "degree_Rankine", "degree_Celsius", "degree_Fahrenheit", "degree_Reaumur"]
DELTAS = ["delta_degree_Celsius", "delta_degree_Fahrenheit", "delta_degree_Reaumur"]


def _temp_strategy():
    xs = st.one_of(st.integers(-300, 400), st.fractions(-300, 400, max_denominator=20), st.just(0), st.just(Fraction("273.15")), st.just(Fraction("-273.15")))

    @st.composite
    def strat(draw):
        kind = draw(st.sampled_from(["abs", "abs", "delta"]))
        pool = TEMP if kind == "abs" else DELTAS + ["kelvin", "degree_Rankine"]
        return {"ua": draw(st.sampled_from(pool)), "ub": draw(st.sampled_from(pool)), "x": draw(xs),
                "mode": draw(st.sampled_from(["same", "same", "perturb", "samenumber", "zero"])), "kind": kind}

    return strat()


def _affine(unit):
    R = env.R()
    if unit.startswith("delta_"):
        return R.resolve(unit[6:]).factor, Fraction(0)
    return R.resolve(unit).factor, (R.offset_of(unit) or Fraction(0))


def case_temp(case, col=None):
    ua, ub, x, mode, kind = case["ua"], case["ub"], Fraction(case["x"]), case["mode"], case["kind"]
    sa, oa = _affine(ua)
    sb, ob = _affine(ub)
    if kind == "delta":
        # delta and absolute units convert by scale only
        oa = ob = Fraction(0)
    va = x * sa + oa
    if mode == "same":
        xb = (va - ob) / sb
    elif mode == "perturb":
        xb = (va - ob) / sb + Fraction(1, 8)
    elif mode == "zero":
        x, xb = Fraction(0), Fraction(0)
        va = oa
    else:
        xb = x
    vb = xb * sb + ob
    if col is not None:
        col.case(("temp", ua, ub, str(x), mode), ua != ub, sample={"a": [x, ua], "b": [xb, ub], "base_kelvin": [va, vb]},
                 cls="both_zero_different_offsets" if (x == 0 and xb == 0 and oa != ob) else mode)
    a, b = Q(x, ua), Q(xb, ub)
    rel_check(a, b, va, vb, True, f"Q({x},{ua}) vs Q({xb},{ub})")


def run_temperature(task, tier, seed, col):
    hyp_search(col, _temp_strategy(), lambda c: case_temp(c, col), max_examples=600 if tier == "quick" else 10000, seed=seed * 43 + task["shard"])


# ------------------------------------------------------------------------------------- cross-dimension pairs

def _cross_strategy():
    R = env.R()
    names = [n for n in env.unit_names("mult") if not (R.resolve(n).tainted or R.resolve(n).irrational) and R.resolve(n).factor > 0]
    xs = st.one_of(st.integers(-5, 5), st.fractions(-5, 5, max_denominator=9))
    return st.builds(lambda a, b, x, y: {"ua": a, "ub": b, "x": x, "y": y}, st.sampled_from(names), st.sampled_from(names + TEMP), xs, xs)


def case_cross(case, col=None):
    R = env.R()
    ua, ub, x, y = case["ua"], case["ub"], Fraction(case["x"]), Fraction(case["y"])
    (va, da), (vb, db) = value_R(x, ua), value_R(y, ub)
    same = da == db
    if col is not None:
        col.case(("x", ua, ub, str(x), str(y)), not same and (x == 0 or y == 0 or bool(set(da) & set(db))),
                 sample={"a": [x, ua], "b": [y, ub], "same_dimension": same}, cls="same_dim" if same else ("zero_involved" if x == 0 and y == 0 else "diff_dim"))
    rel_check(Q(x, ua), Q(y, ub), va, vb, same, f"Q({x},{ua}) vs Q({y},{ub})")


def run_cross(task, tier, seed, col):
    hyp_search(col, _cross_strategy(), lambda c: case_cross(c, col), max_examples=800 if tier == "quick" else 15000, seed=seed * 47)


# ------------------------------------------------------------------------------------- bare numbers

def _numbers_strategy():
    R = env.R()
    names = [n for n in env.unit_names("mult") if not (R.resolve(n).tainted or R.resolve(n).irrational) and R.resolve(n).factor > 0]
    dimless = [n for n in names if not R.resolve(n).dim]
    xs = st.one_of(st.integers(-5, 5), st.fractions(-5, 5, max_denominator=9), st.just(0))

    @st.composite
    def strat(draw):
        u = draw(st.sampled_from(dimless if draw(st.booleans()) else names))
        x = draw(xs)
        mode = draw(st.sampled_from(["value", "zero", "other", "magnitude"]))
        return {"u": u, "x": x, "mode": mode, "n": draw(xs)}

    return strat()


def case_number(case, col=None):
    import pint

    R = env.R()
    u, x, mode = case["u"], Fraction(case["x"]), case["mode"]
    v, d = value_R(x, u)
    dimless = not d
    n = {"value": v, "zero": Fraction(0), "other": Fraction(case["n"]), "magnitude": x}[mode]
    q = Q(x, u)
    if col is not None:
        col.case(("n", u, str(x), mode, str(n)), True, sample={"q": [x, u], "number": n, "dimensionless": dimless}, cls=("dimless_" if dimless else "dim_") + mode)
    what = f"Q({x},{u}) vs {n}"
    # equality: dimensionless -> value comparison; zero -> sign/zero of the magnitude; otherwise False
    if dimless:
        want_eq = v == n
    elif n == 0:
        want_eq = x == 0
    else:
        want_eq = False
    for tag, fn in (("q==n", lambda: q == n), ("n==q", lambda: n == q)):
        s, r = attempt(fn)
        if s == "err":
            raise Violation(f"number_eq_raised:{exc_class(r)}", f"{what}: {tag} raised {r!r}")
        if bool(r) != want_eq:
            raise Violation(f"number_eq_disagrees:{'dimless' if dimless else 'dim'}:{'zero' if n == 0 else 'nonzero'}", f"{what}: {tag} is {r}, expected {want_eq}")
    if bool(q != n) == want_eq:
        raise Violation("number_ne_inconsistent", what)
    if want_eq and dimless and hash(q) != hash(n):
        # Python's data model: objects that compare equal must hash equal (sets / dict keys)
        raise Violation("hash_differs_for_equal:number", f"{what}: equal, but hash(q) != hash(n)")
    ops = (("<", lambda: q < n, lambda a, b: a < b), ("<=", lambda: q <= n, lambda a, b: a <= b),
           (">", lambda: q > n, lambda a, b: a > b), (">=", lambda: q >= n, lambda a, b: a >= b))
    for name, fn, ref in ops:
        s, r = attempt(fn)
        if dimless:
            if s == "err" or bool(r) != ref(v, n):
                raise Violation(f"number_order_disagrees:dimless", f"{what}: q {name} n -> {r!r}, value {v}")
        elif n == 0:
            if s == "err" or bool(r) != ref(x, 0):
                raise Violation("number_order_disagrees:zero", f"{what}: q {name} 0 -> {r!r}")
        else:
            if s == "ok":
                raise Violation("number_order_defined_for_dimensional", f"{what}: q {name} n returned {r!r}")
            if not isinstance(r, (ValueError, pint.DimensionalityError)):
                raise Violation(f"number_order_wrong_exception:{exc_class(r)}", f"{what}: {r!r}")


def run_numbers(task, tier, seed, col):
    hyp_search(col, _numbers_strategy(), lambda c: case_number(c, col), max_examples=800 if tier == "quick" else 15000, seed=seed * 53)


# ------------------------------------------------------------------------------------- floats: order away from ties, NaN

def _floats_strategy():
    classes = _classes()
    keys = sorted(classes)

    @st.composite
    def strat(draw):
        k = draw(st.sampled_from(keys))
        return {"ua": draw(st.sampled_from(classes[k])), "ub": draw(st.sampled_from(classes[k])),
                "x": draw(st.floats(1e-6, 1e6)), "ratio": draw(st.sampled_from([0.5, 0.999, 1.001, 2.0, 1.0])),
                "sign": draw(st.sampled_from([1, -1])), "nan": draw(st.integers(0, 9)) == 0}

    return strat()


def case_float(case, col=None):
    R = env.R()
    ureg = env.ureg("float")
    ua, ub, x, ratio, sign = case["ua"], case["ub"], case["x"] * case["sign"], case["ratio"], case["sign"]
    fa, fb = R.resolve(ua).factor, R.resolve(ub).factor
    if case["nan"]:
        a, b = ureg.Quantity(math.nan, ua), ureg.Quantity(x, ub)
        if col is not None:
            col.case(("f", ua, ub, "nan"), True, cls="nan")
        if (a == a) or not (a != a) or (a == b) or (a < b) or (a > b) or (a <= b) or (a >= b):
            raise Violation("nan_compares", f"Q(nan,{ua}) vs Q({x},{ub})")
        return
    y = float(Fraction(x) * fa / fb) * ratio
    va, vb = Fraction(x) * fa, Fraction(y) * fb
    if col is not None:
        col.case(("f", ua, ub, x, ratio), ua != ub, sample={"a": [x, ua], "b": [y, ub], "ratio": ratio}, cls="tie" if ratio == 1.0 else "ordered")
    a, b = ureg.Quantity(x, ua), ureg.Quantity(y, ub)
    if ratio == 1.0:
        return  # at a tie float rounding decides; no claim
    for name, fn, want in (("<", lambda: a < b, va < vb), (">", lambda: a > b, va > vb), ("<=", lambda: a <= b, va <= vb), (">=", lambda: a >= b, va >= vb)):
        s, r = attempt(fn)
        if s == "err" or bool(r) != want:
            raise Violation(f"float_order_disagrees:{name}", f"Q({x},{ua}) {name} Q({y},{ub}) -> {r!r}; base values {float(va)} vs {float(vb)}")
    if a == b:
        raise Violation("float_eq_false_positive", f"Q({x},{ua}) == Q({y},{ub}) although values differ by {ratio}")


def run_floats(task, tier, seed, col):
    hyp_search(col, _floats_strategy(), lambda c: case_float(c, col), max_examples=800 if tier == "quick" else 15000, seed=seed * 59)


# ------------------------------------------------------------------------------------- Unit comparisons agree with 1*unit

def case_unit(case, col=None):
    R = env.R()
    ureg = env.ureg("Fraction")
    ua, ub = case["ua"], case["ub"]
    A, B = ureg.Unit(ua), ureg.Unit(ub)
    qa, qb = Q(1, ua), Q(1, ub)
    same = R.resolve(ua).dim == R.resolve(ub).dim
    if col is not None:
        col.case(("u", ua, ub), ua != ub, sample={"a": ua, "b": ub}, cls="same_dim" if same else "diff_dim")
    if (A == B) != (ua == ub):
        raise Violation("unit_eq", f"Unit({ua}) == Unit({ub}) is {A == B}")
    for name, fu, fq in (("<", lambda: A < B, lambda: qa < qb), (">", lambda: A > B, lambda: qa > qb), ("<=", lambda: A <= B, lambda: qa <= qb), (">=", lambda: A >= B, lambda: qa >= qb)):
        ru, rq = attempt(fu), attempt(fq)
        if ru[0] != rq[0] or (ru[0] == "ok" and bool(ru[1]) != bool(rq[1])) or (ru[0] == "err" and type(ru[1]) is not type(rq[1])):
            raise Violation("unit_compare_differs_from_quantity", f"Unit({ua}) {name} Unit({ub}): {ru} vs 1*unit: {rq}")
    # Unit == Quantity(1, same unit)   (Quantity == Unit is not covered by the statement and not asserted)
    if not (A == qa):
        raise Violation("unit_eq_quantity_one", f"Unit({ua}) == 1*{ua} is False")


def run_units(task, tier, seed, col):
    classes = _classes()
    R = env.R()
    names = [n for v in classes.values() for n in v]
    strat = st.builds(lambda k, i, j, other: {"ua": classes[k][i % len(classes[k])], "ub": (classes[k][j % len(classes[k])] if other else names[j % len(names)])},
                      st.sampled_from(sorted(classes)), st.integers(0, 500), st.integers(0, 500), st.booleans())
    hyp_search(col, strat, lambda c: case_unit(c, col), max_examples=500 if tier == "quick" else 8000, seed=seed * 61)


# ------------------------------------------------------------------------------------- compound units, neighbouring exponents

def _compound_strategy():
    classes = _classes()
    keys = sorted(k for k in classes if len(classes[k]) >= 2)
    xs = st.one_of(st.integers(1, 20), st.fractions(1, 50, max_denominator=12))

    @st.composite
    def strat(draw):
        k1, k2 = draw(st.sampled_from(keys)), draw(st.sampled_from(keys))
        u1, u2 = draw(st.sampled_from(classes[k1])), draw(st.sampled_from(classes[k1]))
        t1, t2 = draw(st.sampled_from(classes[k2])), draw(st.sampled_from(classes[k2]))
        return {"u1": u1, "u2": u2, "t1": t1, "t2": t2, "x": draw(xs), "exps": draw(st.sampled_from([[-1, -2], [-2, -1], [1, 2], [-1, -3], [2, -2]])), "perturb": draw(st.sampled_from([0, 0, 1, -1]))}

    return strat()


def case_compound(case, col=None):
    """Quantities in compound units u * t**e, the same value re-expressed in u' * t'**e, for two neighbouring exponents in a row on one
    registry (the second comparison must not be answered with the conversion of the first)."""
    R = env.R()
    ureg = env.ureg("Fraction")
    x = Fraction(case["x"])
    f = lambda n: Fraction(R.resolve(n).factor)  # noqa: E731
    if col is not None:
        col.case(("cp", str(case)), case["u1"] != case["u2"] or case["t1"] != case["t2"], sample=case, cls="compound")
    for e in case["exps"]:
        a_units = ureg.UnitsContainer({case["u1"]: 1}) * ureg.UnitsContainer({case["t1"]: e})
        b_units = ureg.UnitsContainer({case["u2"]: 1}) * ureg.UnitsContainer({case["t2"]: e})
        va = x * f(case["u1"]) * f(case["t1"]) ** e
        y = va / (f(case["u2"]) * f(case["t2"]) ** e) + case["perturb"]
        vb = y * f(case["u2"]) * f(case["t2"]) ** e
        same = True
        rel_check(ureg.Quantity(x, a_units), ureg.Quantity(y, b_units), va, vb, same, f"Q({x},{dict(a_units)}) vs Q({y},{dict(b_units)})")


def run_compound(task, tier, seed, col):
    hyp_search(col, _compound_strategy(), lambda c: case_compound(c, col), max_examples=600 if tier == "quick" else 10000, seed=seed * 331 + task["shard"])


# ------------------------------------------------------------------------------------- quantities changed in place

def _inplace_strategy():
    classes = _classes()
    keys = sorted(k for k in classes if len(classes[k]) >= 2)

    @st.composite
    def strat(draw):
        k = draw(st.sampled_from(keys))
        ua, ub, uc = (draw(st.sampled_from(classes[k])) for _ in range(3))
        return {"ua": ua, "ub": ub, "uc": uc, "x": draw(st.integers(1, 40)), "d": draw(st.integers(1, 9)), "prime": draw(st.sampled_from(["none", "dimensionality", "compare", "hash", "dimensionless"])),
                "op": draw(st.sampled_from(["//=", "/=", "*=inv"]))}

    return strat()


def case_inplace(case, col=None):
    """A quantity that has been looked at (dimensionality, an ordering, its hash) and is then turned into a pure number in place compares
    and hashes like that number."""
    R = env.R()
    ureg = env.ureg("Fraction")
    f = lambda n: Fraction(R.resolve(n).factor)  # noqa: E731
    x, d = Fraction(case["x"]), Fraction(case["d"])
    q = ureg.Quantity(x, case["ua"])
    if col is not None:
        col.case(("ip", str(case)), case["prime"] != "none", sample=case, cls=f"{case['prime']}:{case['op']}")
    if case["prime"] == "dimensionality":
        q.dimensionality
    elif case["prime"] == "compare":
        q > ureg.Quantity(1, case["ub"])
    elif case["prime"] == "hash":
        hash(q)
    elif case["prime"] == "dimensionless":
        q.dimensionless, q.unitless
    other = ureg.Quantity(d, case["uc"])
    ratio = x * f(case["ua"]) / (d * f(case["uc"]))
    if case["op"] == "//=":
        q //= other
        n = Fraction(ratio.numerator // ratio.denominator)
    elif case["op"] == "/=":
        q /= other
        n = ratio
    else:
        q *= 1 / other
        n = ratio
    what = f"Q({x},{case['ua']}) (after {case['prime']}) {case['op']} Q({d},{case['uc']})"
    for tag, fn, want in (("q==n", lambda: q == n, True), ("n==q", lambda: n == q, True), ("q!=n", lambda: q != n, False), ("q==n+1", lambda: q == n + 1, False), ("q<n+1", lambda: q < n + 1, True),
                          ("q>n+1", lambda: q > n + 1, False), ("q>=n", lambda: q >= n, True), ("q==Q(n)", lambda: q == ureg.Quantity(n, ""), True), ("Q(n)==q", lambda: ureg.Quantity(n, "") == q, True)):
        s_, v = attempt(fn)
        if s_ == "err":
            raise Violation(f"inplace_then_number:{tag}:raised:{exc_class(v)}", f"{what}: {tag} raised {v!r} (the quantity is the number {n})")
        if bool(v) != want:
            raise Violation(f"inplace_then_number:{tag}", f"{what}: {tag} is {v}, the quantity is the number {n}")
    if hash(q) != hash(n):
        raise Violation("inplace_then_number:hash", f"{what}: hash differs from hash({n})")


TEMP_NAMES = ["kelvin", "degree_Celsius", "degree_Fahrenheit", "degree_Rankine", "millikelvin"]


def case_inplace_temp(case, col=None):
    """A temperature converted in place (after its flags have been looked at) compares, hashes and tests like a freshly built quantity
    with the same value and unit."""
    ureg = env.ureg("Fraction")
    ua, ub, prime = case["ua"], case["ub"], case["prime"]
    T = Fraction(case["T"])  # kelvin
    from .c03 import TEMP_UNITS

    sa, oa = TEMP_UNITS[ua]
    sb, ob = TEMP_UNITS[ub]
    q = ureg.Quantity((T - oa) / sa, ua)
    if col is not None:
        col.case(("it", str(case)), ua != ub, sample=case, cls=f"temp:{prime}")
    if prime == "bool":
        attempt(bool, q)
    elif prime == "eq0":
        attempt(lambda: q == 0)
    elif prime == "cmp":
        attempt(lambda: q > ureg.Quantity(1, "kelvin"))
    elif prime == "mul":
        attempt(lambda: q * 2)
    q.ito(ub)
    fresh = ureg.Quantity((T - ob) / sb, ub)
    if q.magnitude != fresh.magnitude or dict(q._units) != dict(fresh._units):
        raise Violation("inplace_conversion_wrong", f"Q({(T - oa) / sa},{ua}).ito({ub}) = {q.magnitude} {dict(q._units)}, expected {fresh.magnitude}")
    partners = [ureg.Quantity(0, "kelvin"), ureg.Quantity(0, "degree_Celsius"), ureg.Quantity(Fraction(27315, 100), "kelvin"), 0, ureg.Quantity(0, "degree_Rankine")]
    for pt in partners:
        for tag, fn in (("==", lambda o: o == pt), ("r==", lambda o: pt == o), ("!=", lambda o: o != pt), ("<", lambda o: o < pt), (">=", lambda o: o >= pt), ("bool", lambda o: bool(o)),
                        ("hash", lambda o: hash(o))):
            ra, rb = attempt(fn, q), attempt(fn, fresh)
            same = (ra[0] == rb[0]) and ((ra[0] == "err" and type(ra[1]) is type(rb[1])) or (ra[0] == "ok" and ra[1] == rb[1]))
            if not same:
                raise Violation(f"object_history_changes_comparison:{tag}", f"Q({(T - oa) / sa},{ua}) after {prime} and ito({ub}) {tag} {pt!r}: {ra[1]!r}; a fresh Q({fresh.magnitude},{ub}) gives {rb[1]!r}")


def run_inplace(task, tier, seed, col):
    tstrat = st.builds(lambda a, b, T, pr: {"ua": a, "ub": b, "T": T, "prime": pr}, st.sampled_from(TEMP_NAMES), st.sampled_from(TEMP_NAMES),
                       st.sampled_from([Fraction(0), Fraction(27315, 100), Fraction(45967, 180), Fraction(300), Fraction(1, 2)]), st.sampled_from(["none", "bool", "eq0", "cmp", "mul"]))
    hyp_search(col, tstrat, lambda c: case_inplace_temp(c, col), max_examples=300 if tier == "quick" else 3000, seed=seed * 349 + task["shard"])
    hyp_search(col, _inplace_strategy(), lambda c: case_inplace(c, col), max_examples=500 if tier == "quick" else 8000, seed=seed * 337 + task["shard"])


# ------------------------------------------------------------------------------------- ordering across dimensions while a context is active

CTX_PAIRS = [("sp", "nanometer", "terahertz"), ("sp", "meter", "hertz"), ("sp", "electron_volt", "nanometer"), ("boltzmann", "kelvin", "electron_volt"), ("chemistry", "mole", "gram")]


def case_context(case, col=None):
    """An active context makes conversions between two dimensions possible; it does not make them comparable: == stays False, ordering
    raises DimensionalityError."""
    import pint

    ureg = env.ureg("float")
    name, ua, ub = CTX_PAIRS[case["pair"] % len(CTX_PAIRS)]
    x, y = case["x"], case["y"]
    if col is not None:
        col.case(("cx", name, ua, ub, x, y), True, sample={"context": name, "a": [x, ua], "b": [y, ub]}, cls=name)
    kw = {"mw": ureg.Quantity(18.0, "g/mol")} if name == "chemistry" else {}
    with ureg.context(name, **kw):
        a, b = ureg.Quantity(x, ua), ureg.Quantity(y, ub)
        for tag, fn in (("<", lambda: a < b), (">", lambda: a > b), ("<=", lambda: a <= b), (">=", lambda: b >= a)):
            s_, v = attempt(fn)
            if s_ == "ok":
                raise Violation("ordering_across_dimensions_returned:context", f"inside context {name!r}: Q({x},{ua}) {tag} Q({y},{ub}) returned {v!r}")
            if not isinstance(v, pint.DimensionalityError):
                raise Violation(f"ordering_across_dimensions_wrong_exception:context:{exc_class(v)}", f"{v!r}")
        if (a == b) or not (a != b):
            raise Violation("eq_disagrees:false_positive:context", f"inside context {name!r}: Q({x},{ua}) == Q({y},{ub})")


def run_context(task, tier, seed, col):
    strat = st.builds(lambda p, x, y: {"pair": p, "x": x, "y": y}, st.integers(0, len(CTX_PAIRS) - 1), st.sampled_from([0.0, 1.0, 500.0, 2.5]), st.sampled_from([0.0, 1.0, 600.0, 299792458.0]))
    hyp_search(col, strat, lambda c: case_context(c, col), max_examples=80 if tier == "quick" else 400, seed=seed * 347)


def run_task(task, tier, seed, col):
    extra = {"compound": run_compound, "inplace": run_inplace, "context": run_context}
    if task["sub"] in extra:
        return extra[task["sub"]](task, tier, seed, col)
    {"triples": run_triples, "temperature": run_temperature, "cross": run_cross, "numbers": run_numbers, "floats": run_floats,
     "units": run_units}[task["sub"]](task, tier, seed, col)


def replay(sub, case):
    extra = {"compound": case_compound, "inplace": case_inplace, "context": case_context}
    if sub == "inplace" and "T" in case:
        return case_inplace_temp(case)
    if sub in extra:
        return extra[sub](case)
    return {"triples": case_triple, "temperature": case_temp, "cross": case_cross, "numbers": case_number, "floats": case_float,
            "units": case_unit}[sub](case)
