"""C15 — unit-rewriting helpers preserve the physical quantity.

Oracle: R's dimension vectors and exact factors (value preservation), R-based proportionality test (merge-freeness of to_reduced_units),
prefix arithmetic from R's prefix table (to_compact).
"""
from __future__ import annotations

import math
from decimal import Decimal
from fractions import Fraction

from hypothesis import strategies as st

from .. import env
from ..core import Collector, Skip, Violation, attempt, exc_class, hyp_search

PROPERTY = "C15"
LEVEL = "exploration"
RULE = ("helpers: Hypothesis quantities (1-4 units over the whole registry incl. prefixed spellings, exponents -3..3, magnitudes over 60 decades and both signs, "
        "int/Fraction/float/Decimal/ufloat) x {to_root_units, to_base_units, to_reduced_units, to_compact (with and without unit=), to_preferred} and their "
        "ito_ twins: same R-dimension and same base value (exact in the Fraction registry for rational units), in-place form equals the functional form; "
        "to_reduced_units leaves no two units with proportional dimension; to_compact changes one decimal prefix on one unit, brings a first-power leading "
        "unit into [1,1000) when a prefix exists, and returns dimensionless/0/NaN/inf unchanged; auto: registries with auto_reduce_dimensions and "
        "autoconvert_to_preferred apply the helpers after * and /. Non-trivial = >= 2 units two of which share a dimension up to a power, or a magnitude "
        "outside [1,1000), or a prefixed unit with an uncertain magnitude; distinct = distinct (helper, units, magnitude)")
ASSUMPTIONS = ["value preservation is judged in base dimensions (dimensionless base units radian/count/bit are interchangeable, as in C01)",
               "magnitudes within 1e-9 relative of a power of 1000 are not used for the [1,1000) clause (float rounding decides the prefix there)"]
MIN_COUNTS = {"quick": {"helpers": {"_evaluations": 1500, "reducible": 60, "compact_range_checked": 20}}}


def tasks(tier, seed):
    t = [{"sub": "helpers", "nit": nit, "shard": i} for i, nit in enumerate(["Fraction", "Fraction", "float", "Decimal", "float", "Fraction"])]
    t += [{"sub": "auto", "shard": i} for i in range(2)]
    t += [{"sub": "special", "shard": 0}]
    return t


def value_of(R, mag, units):
    """(value in root units as Fraction|float, dimension dict, exact?)"""
    f, root, dim, tainted, _ = R.resolve_compound({k: _fr(v) for k, v in units.items()})
    if hasattr(mag, "nominal_value"):
        return float(mag.nominal_value) * float(f), dim, False
    exact = not tainted and not isinstance(f, Decimal) and not isinstance(mag, (float, Decimal))
    if exact:
        return Fraction(mag) * f, dim, True
    return float(mag) * float(f), dim, False


def _float_range_risk(R, units, nit):
    """pint multiplies the factors of a compound unit leaf by leaf; with Planck/atomic units raised to a total power above 2 the partial
    products leave the float range (0 * inf = nan) although the final factor is representable: outside the domain of the float tiers."""
    w = 0
    for n, e in units.items():
        r = R.resolve_spelling(n)
        f = abs(float(r.factor)) if r.factor else 1.0
        if r.tainted or not (1e-15 < f < 1e15):
            if nit != "Fraction" or r.tainted:
                w += abs(e)
    return w > 2


def _running_product_risk(ureg, units):
    """Domain guard (not an oracle): replay the order in which the registry multiplies the scales met while descending the definitions and look at
    the size of the running product; once it leaves the normal float range (sub-normal numbers keep only a few digits, inf * 0 is nan) the final
    factor is no longer good to float accuracy although it is representable: such cases are outside the float tiers."""
    logp = [0.0]
    worst = [0.0]

    def walk(ref, exp, depth=0):
        if depth > 40:
            return
        for key in ref:
            e2 = float(exp) * float(ref[key])
            try:
                d = ureg._units[ureg.get_name(key)]
            except Exception:  # noqa: BLE001
                return
            if d.is_base:
                continue
            sc = abs(float(d.converter.scale)) if getattr(d.converter, "scale", 1) else 1.0
            if sc > 0:
                term = math.log10(sc) * e2
                logp[0] += term
                worst[0] = max(worst[0], abs(logp[0]), abs(term))
            if d.reference is not None:
                walk(d.reference, e2, depth + 1)

    walk(ureg.UnitsContainer({k: v for k, v in units.items()}), 1)
    return worst[0] > 290


def _fr(v):
    """exponent as Fraction; float exponents (1/3 from to_reduced_units) are snapped to small rationals"""
    return Fraction(v).limit_denominator(1000) if isinstance(v, float) else Fraction(v)


def same_value(a, b, exact):
    if exact:
        return a == b
    a, b = float(a), float(b)
    if a != a or b != b:
        return a != a and b != b
    if math.isinf(a) or math.isinf(b):
        return a == b
    return abs(a - b) <= 1e-9 * max(abs(a), abs(b)) + 1e-300


def proportional(d1, d2):
    if not d1 or not d2 or set(d1) != set(d2):
        return False
    k = None
    for x in d1:
        r = Fraction(d2[x]) / Fraction(d1[x])
        if k is None:
            k = r
        elif r != k:
            return False
    return True


def strip_prefixes(R, units):
    out = {}
    for n, e in units.items():
        if n in R.units:
            base = n
        else:
            rs = R.readings(n)
            base = rs[0][1] if rs else n
        out[base] = out.get(base, 0) + Fraction(e)
    return {k: v for k, v in out.items() if v != 0}


def _strategy(nit):
    R = env.R()
    # defined names that also read as prefix+unit or plural (rads, dtex, milliarcsecond, kilometer_per_second ...) make "the prefix-free input"
    # ambiguous; they are exercised separately by the 'special' sub-check
    names = [n for n in env.unit_names("mult") if len(R.readings(n)) <= 1]
    prefixed = ["kilometer", "millisecond", "microgram", "megawatt", "nanometer", "kilogram", "centimeter", "gigahertz", "millivolt", "kilojoule"]
    if nit == "Fraction":
        mags = st.one_of(st.integers(-10 ** 6, 10 ** 6), st.fractions(-10 ** 6, 10 ** 6, max_denominator=10 ** 4), st.builds(lambda m, e: Fraction(m) * Fraction(10) ** e, st.integers(1, 999), st.integers(-30, 30)))
    elif nit == "Decimal":
        mags = st.one_of(st.integers(-10 ** 6, 10 ** 6), st.builds(lambda m, e: Decimal(m).scaleb(e), st.integers(-999, 999), st.integers(-28, 28)))
    else:
        mags = st.one_of(st.integers(-10 ** 6, 10 ** 6), st.builds(lambda m, e, s: s * m * 10.0 ** e, st.floats(1.0, 9.99), st.integers(-30, 30), st.sampled_from([1, -1])),
                         st.sampled_from([0.0, float("nan"), float("inf"), -float("inf"), 1.0, 999.999, 1000.0, 0.999]))

    @st.composite
    def strat(draw):
        if draw(st.integers(0, 3)) == 0:
            # the [1, 1000) clause: one first-power unit, prefixed or not, plain or uncertain magnitude
            u = draw(st.sampled_from(prefixed + ["meter", "second", "gram", "watt", "hertz", "volt", "joule", "newton", "pascal", "liter"]))
            return {"nit": nit, "units": {u: 1}, "m": draw(mags), "helper": "compact", "unc": draw(st.booleans()) if nit == "float" else False}
        n = draw(st.integers(1, 4))
        units = {}
        first = draw(st.sampled_from(names + prefixed))
        units[first] = draw(st.sampled_from([1, 1, 2, -1, 3, -2]))
        byd = None
        for _ in range(n - 1):
            if draw(st.integers(0, 2)) == 0:
                # a unit whose dimension is proportional to one already present (reducible)
                base = draw(st.sampled_from(sorted(units)))
                d = R.resolve_spelling(base).dim
                cands = [m for m in names if proportional(d, R.resolve(m).dim)]
                u = draw(st.sampled_from(cands)) if cands else draw(st.sampled_from(names))
            else:
                u = draw(st.sampled_from(names + prefixed))
            if u not in units:
                units[u] = draw(st.sampled_from([1, 2, -1, -2, 3, -3]))
        # to_preferred hands the exponents to the MIP solver, which does not accept Decimal: only float / Fraction registries
        helper = draw(st.sampled_from(["root", "base", "reduced", "compact", "compact_unit"] + (["preferred"] if nit != "Decimal" else [])))
        unc = draw(st.integers(0, 5)) == 0 if nit == "float" else False
        return {"nit": nit, "units": units, "m": draw(mags), "helper": helper, "unc": unc}

    return strat()


def case_helper(case, col=None):
    R = env.R()
    nit = case["nit"]
    ureg = env.ureg(nit)
    units, m, helper = case["units"], case["m"], case["helper"]
    for n in units:
        ureg.get_name(n)
    if case.get("unc"):
        from uncertainties import ufloat

        if not isinstance(m, float) or m != m or math.isinf(m) or m == 0:
            raise Skip("uncertain_magnitude_needs_finite_nonzero")
        m = ufloat(m, abs(m) * 0.01)
    if _float_range_risk(R, units, nit) or (nit != "Fraction" and _running_product_risk(ureg, units)):
        raise Skip("float_range")
    mk = lambda: ureg.Quantity(m, ureg.UnitsContainer(dict(units)))  # noqa: E731
    q = mk()
    v0, d0, exact0 = value_of(R, m, units)
    dims = [R.resolve_spelling(n).dim for n in units]
    reducible = any(proportional(dims[i], dims[j]) for i in range(len(dims)) for j in range(i + 1, len(dims)))
    nominal = m.nominal_value if hasattr(m, "nominal_value") else m
    if col is not None:
        col.case(("h", helper, str(sorted(units.items())), str(m), nit), reducible or not (1 <= abs(float(nominal)) < 1000 if nominal == nominal else False),
                 sample={"helper": helper, "units": units, "m": str(m), "registry": nit}, cls=helper)
        if reducible and helper == "reduced":
            col.count("reducible")
    pref = None
    if helper == "root":
        f, g = (lambda x: x.to_root_units()), (lambda x: x.ito_root_units())
    elif helper == "base":
        f, g = (lambda x: x.to_base_units()), (lambda x: x.ito_base_units())
    elif helper == "reduced":
        f, g = (lambda x: x.to_reduced_units()), (lambda x: x.ito_reduced_units())
    elif helper == "compact":
        f, g = (lambda x: x.to_compact()), None
    elif helper == "compact_unit":
        # to_compact(unit=...): a same-dimension target built from root units
        tgt = ureg.Quantity(1, ureg.UnitsContainer(dict(units))).to_root_units().units
        f, g = (lambda x: x.to_compact(tgt)), None
    else:
        pref = [ureg.Unit(u) for u in ("meter", "second", "kilogram", "ampere", "kelvin", "mole", "candela", "watt")]
        f, g = (lambda x: x.to_preferred(pref)), (lambda x: x.ito_preferred(pref))
    snapshot = (repr(q.magnitude), dict(q._units))
    s, r = attempt(f, q)
    if s == "err" and nit != "Fraction" and helper == "reduced" and type(r).__name__ == "DimensionalityError":
        # known finding (narrow class): merged exponents such as 7/3 are not representable in float/Decimal, 'x ** 2.33333' then has
        # dimension [length] ** 7.000000000000001 and the internal conversion is refused
        raise Violation("reduced_units_inexact_exponent", f"to_reduced_units on {m!r} {units} ({nit}) raised DimensionalityError: {r}")
    if s == "err":
        if isinstance(r, AssertionError):
            amb = sorted(n for n in units if len(R.readings(n)) > 1) or ["?"]
            raise Violation("helper_raised:AssertionError:ambiguous_unit_name:" + "+".join(amb), f"{helper} on {m} {units}: AssertionError in infer_base_unit (names with several readings: {amb})")
        if isinstance(r, ValueError) and ("inf" in str(r) or "nan" in str(r).lower()):
            raise Skip("non_finite_magnitude_conversion")
        if isinstance(r, (ZeroDivisionError,)):
            raise Skip("zero_division")
        raise Violation(f"helper_raised:{helper}:{exc_class(r)}", f"{helper} on {m!r} {units} ({nit}) raised {type(r).__name__}: {r}")
    if (repr(q.magnitude), dict(q._units)) != snapshot:
        raise Violation(f"helper_modified_input:{helper}", f"{m!r} {units}")
    ru = {k: _fr(v) for k, v in r._units.items()}
    if _float_range_risk(R, ru, nit):
        raise Skip("float_range")
    v1, d1, exact1 = value_of(R, r.magnitude, ru)
    if d1 != d0 and helper == "reduced" and nit != "Fraction" and all(abs(float(d1.get(k, 0)) - float(d0.get(k, 0))) < 1e-6 for k in set(d1) | set(d0)):
        raise Violation("reduced_units_inexact_exponent", f"to_reduced_units on {m!r} {units} ({nit}): result units {dict(r._units)} have dimension {d1}")
    if d1 != d0:
        raise Violation(f"helper_changed_dimension:{helper}", f"{helper} on {m!r} {units}: result units {dict(r._units)}")
    nonfinite = isinstance(nominal, float) and (nominal != nominal or math.isinf(nominal))
    if not nonfinite and not same_value(v0, v1, exact0 and exact1):
        raise Violation(f"helper_changed_value:{helper}:{'exact' if exact0 and exact1 else 'float'}", f"{helper} on {m!r} {units} ({nit}): {r.magnitude!r} {dict(r._units)} is {v1} in root units, input was {v0}")
    if nit == "Fraction" and exact0 and isinstance(r.magnitude, float) and all(e.denominator == 1 for e in ru.values()):
        raise Violation(f"helper_float_contamination:{helper}", f"{helper} on {m!r} {units}: magnitude {r.magnitude!r}")
    # in-place twin
    if g is not None:
        q2 = mk()
        s2, r2 = attempt(g, q2)
        if s2 == "err":
            raise Violation(f"inplace_helper_raised:{helper}:{exc_class(r2)}", f"ito_{helper} on {m!r} {units}: {r2!r}")
        same_m = (repr(q2.magnitude) == repr(r.magnitude)) or (not hasattr(q2.magnitude, "nominal_value") and q2.magnitude == r.magnitude)
        if {k: _fr(v) for k, v in q2._units.items()} != ru or (not same_m and not nonfinite):
            raise Violation(f"inplace_helper_differs:{helper}", f"ito_{helper} left {q2.magnitude!r} {dict(q2._units)}, to_{helper} returns {r.magnitude!r} {dict(r._units)}")
    if g is not None and nit == "float" and not case.get("unc") and not nonfinite:
        # integer arrays cannot hold a converted value: the in-place form either refuses (and leaves the quantity alone) or gives what the
        # functional form gives - never truncated numbers
        import numpy as np

        ia = np.array([1, 2, 3], dtype=np.int64)
        sf, rf = attempt(f, ureg.Quantity(ia.copy(), ureg.UnitsContainer(dict(units))))
        qi = ureg.Quantity(ia.copy(), ureg.UnitsContainer(dict(units)))
        si, ri = attempt(g, qi)
        if sf == "ok":
            if si == "ok" and not ({k: _fr(v) for k, v in qi._units.items()} == {k: _fr(v) for k, v in rf._units.items()} and np.allclose(np.asarray(qi.magnitude, dtype=float), np.asarray(rf.magnitude, dtype=float), rtol=1e-9, atol=0)):
                raise Violation(f"inplace_helper_truncates_integer_array:{helper}", f"ito_{helper} on [1 2 3] {units} left {qi!r}; to_{helper} returns {rf!r}")
            if si == "err" and (not np.array_equal(qi.magnitude, ia) or {k: _fr(v) for k, v in qi._units.items()} != {k: _fr(v) for k, v in units.items()}):
                raise Violation(f"refused_inplace_helper_changed_quantity:{helper}", f"ito_{helper} on [1 2 3] {units} raised {type(ri).__name__} and left {qi!r}")
            if col is not None:
                col.count("integer_array_twin")
    if helper == "root":
        if any(not R.units[R.lookup(n)[1]].is_base or R.lookup(n)[0] != 1 for n in ru):
            raise Violation("root_units_not_root", f"{dict(r._units)}")
    if helper == "reduced":
        rd = [(n, R.resolve_spelling(n).dim) for n in ru]
        for i in range(len(rd)):
            for j in range(i + 1, len(rd)):
                both_dimensionless = not rd[i][1] and not rd[j][1] and bool(d0)
                # (two different dimensionless units - radian and degree, percent and ppm - are the same dimension to the power 1: they merge
                # too when the quantity as a whole is not dimensionless)
                if proportional(rd[i][1], rd[j][1]) or both_dimensionless:
                    raise Violation("reduced_units_still_mergeable", f"to_reduced_units on {units}: {dict(r._units)} keeps {rd[i][0]} and {rd[j][0]} (same dimension up to a power)")
    if helper in ("compact", "compact_unit"):
        check_compact(R, ureg, m, units, q, r, helper, col)
    if helper == "preferred" and d0:
        prefnames = {"meter", "second", "kilogram", "ampere", "kelvin", "mole", "candela", "watt"}
        span = {"[length]", "[time]", "[mass]", "[current]", "[temperature]", "[substance]", "[luminosity]"}
        if set(d0) <= span and all(Fraction(e).denominator == 1 for e in d0.values()) and not set(ru) <= prefnames:
            raise Violation("preferred_units_not_used", f"to_preferred on {units}: {dict(r._units)}")


def check_compact(R, ureg, m, units, q, r, helper, col):
    nominal = m.nominal_value if hasattr(m, "nominal_value") else m
    ru = {k: _fr(v) for k, v in r._units.items()}
    special = (not q._units) or nominal == 0 or (isinstance(nominal, float) and (nominal != nominal or math.isinf(nominal)))
    d_in = value_of(R, 1, units)[1] if units else {}
    if units and not d_in and not special:
        return  # dimensionless but not unitless (angstrom / meter): only value preservation is claimed
    if not units or special:
        if ru != {k: Fraction(v) for k, v in q._units.items()} or repr(r.magnitude) != repr(q.magnitude):
            raise Violation("compact_changed_special_input", f"to_compact on {m!r} {units} returned {r.magnitude!r} {dict(r._units)}")
        return
    src = strip_prefixes(R, units) if helper == "compact" else strip_prefixes(R, {k: v for k, v in q.to_root_units()._units.items()})
    got = dict(ru)
    # exactly one unit may carry a decimal prefix; everything else equals the prefix-free input
    diffs = []
    stripped = {}
    for n, e in got.items():
        if n in src and src[n] == e:
            stripped[n] = e
            continue
        # (a result such as 'kilometer_per_second' is a defined unit AND kilo + meter_per_second: take the reading whose stem is in the input)
        rs = [x for x in R.readings(n) if x[0] and x[1] in src] or [x for x in R.readings(n) if x[0]]
        if len(rs) >= 1 and rs[0][0]:
            p, base = rs[0]
            diffs.append((n, p, base, e))
            stripped[base] = stripped.get(base, 0) + e
        else:
            stripped[n] = e
    if {k: v for k, v in stripped.items() if v != 0} != src:
        raise Violation("compact_changed_units", f"to_compact on {m!r} {units}: {dict(r._units)} is not the input with one prefix changed (prefix-free input {src})")
    if len(diffs) > 1:
        raise Violation("compact_prefixed_several_units", f"to_compact on {m!r} {units}: {dict(r._units)}")
    for n, p, base, e in diffs:
        val = R.prefixes[p].value
        if val <= 0 or Fraction(10) ** round(math.log10(float(val))) != val:
            raise Violation("compact_used_non_decimal_prefix", f"{n}")
    # [1, 1000) when the unit that takes the prefix has exponent 1 and a 10^(3k) prefix exists
    rm = r.magnitude.nominal_value if hasattr(r.magnitude, "nominal_value") else r.magnitude
    lead = [e for n, e in src.items() if e > 0]
    if len(src) == 1 and list(src.values()) == [1]:
        base_mag = float(q.to(ureg.UnitsContainer({k: (float(v) if Fraction(v).denominator != 1 else int(v)) for k, v in src.items()})).magnitude.nominal_value
                         if hasattr(q.magnitude, "nominal_value") else q.to(ureg.UnitsContainer({k: int(v) for k, v in src.items()})).magnitude)
        if base_mag and math.isfinite(base_mag) and float(rm):
            # compacting only moves the decimal point: prefix-free magnitude / compact magnitude is a power of ten
            lg = math.log10(abs(base_mag) / abs(float(rm)))
            if abs(lg - round(lg)) > 1e-9:
                raise Violation("compact_factor_not_a_power_of_ten", f"to_compact on {m!r} {units}: {rm!r} {dict(r._units)}; prefix-free magnitude {base_mag!r}, ratio 10**{lg!r}")
            k3 = math.floor(math.log10(abs(base_mag)) / 3) * 3
            frac = math.log10(abs(base_mag)) / 3
            near_boundary = abs(frac - round(frac)) < 1e-9
            have = {round(math.log10(float(pd.value))) for pd in R.prefixes.values() if pd.value > 0 and Fraction(10) ** round(math.log10(float(pd.value))) == pd.value}
            if -30 <= k3 <= 30 and (k3 in have or k3 == 0) and not near_boundary:
                if col is not None:
                    col.count("compact_range_checked")
                if not (1 <= abs(float(rm)) < 1000):
                    raise Violation("compact_magnitude_out_of_range", f"to_compact on {m!r} {units}: {rm!r} {dict(r._units)} although the prefix 10^{k3} exists")


def run_helpers(task, tier, seed, col):
    hyp_search(col, _strategy(task["nit"]), lambda c: case_helper(c, col), max_examples=900 if tier == "quick" else 12000, seed=seed * 241 + task["shard"])


# ------------------------------------------------------------------------------------- registry options that apply the helpers automatically

def case_auto(case, col=None):
    R = env.R()
    opt = case["opt"]
    if opt == "reduce":
        ureg = env.ureg("Fraction", auto_reduce_dimensions=True)
    else:
        ureg = env.ureg("Fraction", autoconvert_to_preferred=True)
        ureg.default_preferred_units = [ureg.Unit(u) for u in ("meter", "second", "kilogram", "watt")]
    a, b, op = case["a"], case["b"], case["op"]
    xa, xb = Fraction(case["xa"]), Fraction(case["xb"])
    if col is not None:
        col.case(("a", opt, a, b, op, str(xa), str(xb)), True, sample=case, cls=f"{opt}:{op}")
    qa, qb = ureg.Quantity(xa, a), ureg.Quantity(xb, b)
    s, r = attempt((lambda: qa * qb) if op == "mul" else (lambda: qa / qb))
    if s == "err":
        raise Violation(f"auto_{opt}_raised:{exc_class(r)}", f"Q({xa},{a}) {op} Q({xb},{b}) with {opt}: {type(r).__name__}: {r}")
    va, da, ea = value_of(R, xa, {a: 1})
    vb, db, eb = value_of(R, xb, {b: 1})
    want = va * vb if op == "mul" else va / vb
    wd = {}
    for k, e in da.items():
        wd[k] = wd.get(k, 0) + e
    for k, e in db.items():
        wd[k] = wd.get(k, 0) + (e if op == "mul" else -e)
    wd = {k: e for k, e in wd.items() if e != 0}
    v1, d1, e1 = value_of(R, r.magnitude, {k: _fr(v) for k, v in r._units.items()})
    if d1 != wd:
        raise Violation(f"auto_{opt}_changed_dimension", f"Q({xa},{a}) {op} Q({xb},{b}): {dict(r._units)}")
    if not same_value(want, v1, ea and eb and e1):
        raise Violation(f"auto_{opt}_changed_value", f"Q({xa},{a}) {op} Q({xb},{b}) with {opt}: {r.magnitude!r} {dict(r._units)} = {v1}, expected {want}")
    if opt == "reduce":
        rd = [(n, R.resolve_spelling(n).dim) for n in r._units]
        for i in range(len(rd)):
            for j in range(i + 1, len(rd)):
                if proportional(rd[i][1], rd[j][1]):
                    raise Violation("auto_reduce_left_mergeable_units", f"Q({xa},{a}) {op} Q({xb},{b}): {dict(r._units)}")


def run_auto(task, tier, seed, col):
    R = env.R()
    names = [n for n in env.unit_names("mult") if not (R.resolve(n).tainted or R.resolve(n).irrational) and R.resolve(n).factor > 0]
    strat = st.builds(lambda a, b, op, xa, xb, opt: {"a": a, "b": b, "op": op, "xa": xa, "xb": xb, "opt": opt}, st.sampled_from(names), st.sampled_from(names), st.sampled_from(["mul", "div"]),
                      st.fractions(1, 50, max_denominator=9), st.fractions(1, 50, max_denominator=9), st.sampled_from(["reduce", "reduce", "preferred"]))
    hyp_search(col, strat, lambda c: case_auto(c, col), max_examples=300 if tier == "quick" else 6000, seed=seed * 251 + task["shard"])


# ------------------------------------------------------------------------------------- defined names with a second reading (known finding witnesses)

def case_special(case, col=None):
    ureg = env.ureg("float")
    u = case["unit"]
    if col is not None:
        col.case(("sp", u), True, sample=case, cls="ambiguous_name")
    s, r = attempt(lambda: ureg.Quantity(1500, u).to_compact())
    if s == "err":
        if isinstance(r, AssertionError):
            raise Violation("helper_raised:AssertionError:ambiguous_unit_name:" + u, f"Q(1500,{u!r}).to_compact() raised AssertionError (the name also reads as prefix+unit / plural)")
        raise Violation(f"helper_raised:compact:{exc_class(r)}", f"{u}: {r!r}")


def case_named_prefixed_compact(case, col=None):
    """to_compact builds its target as prefix name + unit name; where the definitions also contain a unit of exactly that name
    (milliarcsecond, kilometer_per_second, ...) the result is still the input with the decimal point moved"""
    R = env.R()
    ureg = env.ureg("float")
    n, p, u = case["name"], case["prefix"], case["unit"]
    pval = float(R.prefixes[p].value)
    x = 5.0 * pval
    if col is not None:
        col.case(("npc", n), True, sample=case, cls="named_prefixed")
    s, r = attempt(lambda: ureg.Quantity(x, u).to_compact())
    if s == "err":
        raise Violation(f"helper_raised:compact:{exc_class(r)}", f"Q({x},{u!r}).to_compact(): {r!r}")
    back = r.to(u).magnitude
    if abs(back - x) > 1e-9 * abs(x):
        raise Violation("helper_changed_value:compact:float", f"Q({x},{u!r}).to_compact() = {r!r} = {back} {u}")
    lg = math.log10(abs(x) / abs(float(r.magnitude)))
    if abs(lg - round(lg)) > 1e-9:
        raise Violation("compact_factor_not_a_power_of_ten", f"Q({x},{u!r}).to_compact() = {r.magnitude!r} {dict(r._units)}: not the input with the decimal point moved (ratio 10**{lg!r})")


def run_special(task, tier, seed, col):
    R_ = env.R()
    for n_ in R_.units:
        for p_, u_ in R_.readings(n_):
            if p_ and u_ in R_.units and u_ != n_ and R_.units[u_].kind not in ("offset", "log"):
                lg_ = math.log10(float(R_.prefixes[p_].value))
                if abs(lg_ - round(lg_)) < 1e-12 and round(lg_) % 3 == 0:
                    col.run_case(lambda c: case_named_prefixed_compact(c, col), {"name": n_, "prefix": p_, "unit": u_})
    # shapes the random search is not left to find by luck: two dimensionless units next to a dimensional one (to_reduced_units merges the two),
    # two units of one dimension with different powers, every helper x number type
    for units_ in ({"meter": 1, "radian": 1, "degree": 1}, {"second": -1, "percent": 1, "ppm": 1}, {"meter": 1, "radian": 1, "turn": 1}, {"gram": 1, "bit": 1, "radian": 1},
                   {"liter": 1, "meter": -1}, {"hectare": 1, "kilometer": -1}, {"kilometer": 1, "meter": -1, "second": 1}):
        for helper_ in ("reduced", "root", "base", "compact"):
            for nit_ in ("Fraction", "float"):
                col.run_case(lambda c: case_helper(c, col), {"units": dict(units_), "m": 3, "helper": helper_, "nit": nit_})
    R = env.R()
    # every defined name that has a second reading as prefix+unit or plural
    amb = [n for n in R.units if len(R.readings(n)) > 1]
    for u in amb + ["meter", "second"]:
        col.run_case(lambda c: case_special(c, col), {"unit": u})
    col.exhaustive = True


def run_task(task, tier, seed, col):
    {"helpers": run_helpers, "auto": run_auto, "special": run_special}[task["sub"]](task, tier, seed, col)


def replay(sub, case):
    if sub == "special" and "prefix" in case:
        return case_named_prefixed_compact(case)
    if sub == "special" and "helper" in case:
        return case_helper(case)
    return {"helpers": case_helper, "auto": case_auto, "special": case_special}[sub](case)
