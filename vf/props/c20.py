"""C20 — the bundled registry carries the internationally standardised values.

Oracle: /verif/data/standards.txt, a table curated independently of pint's definition files.
R is deliberately *not* used here (it reads the same files as pint).
"""
from __future__ import annotations

import os
from decimal import Decimal, getcontext, localcontext, Context
from fractions import Fraction

from .. import env
from ..core import HOME, Collector, Skip, Violation, attempt, exc_class, shard
from ..numcmp import float_close, rel_err
from ..oracle.defreader import parse_expr

PROPERTY = "C20"
LEVEL = "exploration"
RULE = ("every entry of data/standards.txt (exact rationals for defined units/prefixes/constants, pi-expressions, CODATA 2022 decimal strings, "
        "temperature probe points) x every listed spelling x {Fraction, float} registries: Quantity(1, spelling).to(<SI base expression>) "
        "must equal the tabulated value (== in Fraction for exact entries; 1e-45 for pi entries; stated tolerance for derived CODATA "
        "values; ulp tolerance in float), the spelling must resolve to the entry, the symbol must match. The finite table is enumerated "
        "completely, as are prefix symbol x unit symbol of standard units, defined names reading as prefix + unit, and the derived dimension names / SI special-name units of oracle/dimtable.py. Non-trivial = entry whose value != 1; distinct = distinct entry name")
ASSUMPTIONS = ["the table was written from memory of the SI brochure / NIST SP 811 / Handbook 44 / CODATA 2022 without network access and "
               "cross-checked only by internal consistency relations (mile = 1760 yd, lb = 7000 gr, gal = 231 in^3, R = k N_A, ...)",
               "two SI defining constants (caesium frequency, K_cd) are not carried by the registry and are not in the table"]
MIN_COUNTS = {"quick": {"table": {"_evaluations": 1400}}}

PI = Decimal("3.14159265358979323846264338327950288419716939937510582097494")
_CTX = Context(prec=70)


def load_table():
    rows = []
    with open(os.path.join(HOME, "data", "standards.txt"), encoding="utf-8") as fh:
        for ln, line in enumerate(fh, 1):
            line = line.split("#", 1)[0].strip() if not line.lstrip().startswith("#") else ""
            if not line:
                continue
            parts = [p.strip() for p in line.split("|")]
            kind, name, others, sym, target, value = parts[:6]
            tol = parts[6] if len(parts) > 6 else None
            rows.append({"kind": kind, "name": name, "spellings": [name] + [s.strip() for s in others.split(",") if s.strip()],
                         "symbol": None if sym == "-" else sym, "target": target, "value": value, "tol": tol, "line": ln})
    return rows


def eval_value(expr: str):
    """Exact Fraction for rational expressions; Decimal (70 digits) when pi occurs."""
    v = parse_expr(expr)
    pe = v.units.pop("pi", 0) if "pi" in v.units else 0
    if v.units:
        raise ValueError(f"unexpected names in table value {expr!r}: {v.units}")
    if pe == 0:
        return v.scale
    with localcontext(_CTX):
        s = Decimal(v.scale.numerator) / Decimal(v.scale.denominator)
        return s * PI ** int(pe)


def consistency():
    """Internal relations of the table itself (run on every load; failing = harness error)."""
    t = {r["name"]: eval_value(r["value"]) for r in load_table() if r["kind"] == "exact"}
    rel = [
        (t["mile"], 1760 * t["yard"]), (t["mile"], 5280 * t["foot"]), (t["mile"], 63360 * t["inch"]),
        (t["pound"], 7000 * t["grain"]), (t["pound"], 16 * t["ounce"]), (t["troy_ounce"], Fraction("0.0311034768")),
        (t["gallon"], Fraction("3.785411784e-3")), (t["fluid_ounce"] * 128, t["gallon"]), (t["bushel"], Fraction("0.03523907016688")),
        (t["force_pound"], Fraction("4.4482216152605")), (t["horsepower"], Fraction("745.69987158227022")),
        (t["pound_force_per_square_inch"], t["force_pound"] / t["square_inch"]), (t["light_year"], 299792458 * t["year"]),
        (t["acre"], 10 * t["chain"] ** 2), (t["molar_gas_constant"], Fraction("8.31446261815324")),
        (t["international_british_thermal_unit"], Fraction("4.1868") * Fraction("453.59237") * Fraction(5, 9)),
        (t["millimeter_Hg"], Fraction("13595.1") * Fraction("9.80665") / 1000), (t["troy_pound"], Fraction("0.3732417216")),
        (t["slug"], Fraction("4.4482216152605") / Fraction("0.3048")), (t["metric_horsepower"], 75 * Fraction("9.80665")),
        (t["survey_mile"] * 3937, 5280 * 1200), (t["imperial_fluid_ounce"] * 160, t["imperial_gallon"]),
        (t["knot"] * 3600, t["nautical_mile"]), (t["mile_per_hour"] * 3600, t["mile"]),
    ]
    for i, (a, b) in enumerate(rel):
        if a != b:
            raise AssertionError(f"table inconsistency #{i}: {a} != {b}")


def tasks(tier, seed):
    return [{"sub": "table", "shard": i, "nshard": 8} for i in range(8)]


def _to(ureg, x, spelling, target):
    q = ureg.Quantity(x, spelling)
    return q.to(target) if target else q.to(ureg.UnitsContainer({}))


ENTRY = [""]


def case_entry(case):
    row, sp, nit = case["row"], case["spelling"], case["nit"]
    ENTRY[0] = row["name"]
    ureg = env.ureg(nit)
    kind = row["kind"]
    name = row["name"]
    if kind == "prefix":
        want = eval_value(row["value"])
        for unit_sp, base in ((sp + "gram", "gram"),) + (((row["symbol"] + "g", "g"),) if row["symbol"] and sp == name else ()):
            s, q = attempt(lambda: ureg.Quantity(1, unit_sp).to(base))
            if s == "err":
                raise Violation(f"standard_unreadable:{name}", f"{unit_sp!r}: {type(q).__name__}: {q}")
            _cmp(nit, q.magnitude, want, "exact", None, f"prefix {unit_sp}")
        s, nm = attempt(ureg.get_name, sp + "gram")
        if s == "err" or nm != name + "gram":
            raise Violation(f"standard_name:{name}", f"get_name({sp + 'gram'!r}) = {nm!r}")
        if row["symbol"]:
            s, sy = attempt(ureg.get_symbol, name + "gram")
            if s == "err" or sy != row["symbol"] + "g":
                raise Violation(f"standard_symbol:{name}", f"get_symbol({name + 'gram'!r}) = {sy!r}, standard {row['symbol'] + 'g'!r}")
            # the standard symbol of a prefixed unit is prefix symbol + unit symbol, also for units written without an explicit symbol
            # (mbar, kbit, Mibit), before and after the prefixed unit has been used
            for base, bsym in (("gram", "g"), ("bar", "bar"), ("bit", "bit"), ("byte", "B")):
                for when in ("first", "after_use"):
                    for tag, fn in (("get_symbol", lambda: ureg.get_symbol(name + base)), ("format~", lambda: format(ureg.Unit(name + base), "~"))):
                        s, sy = attempt(fn)
                        if s == "err" or sy != row["symbol"] + bsym:
                            raise Violation(f"standard_symbol:{name}:prefixed:{tag}", f"{tag} of {name + base!r} ({when}) = {sy!r}, standard {row['symbol'] + bsym!r}")
                    attempt(lambda: ureg.Quantity(1, name + base).to_root_units())
        return
    # canonical resolution of the spelling
    s, nm = attempt(ureg.get_name, sp)
    s2, nm0 = attempt(ureg.get_name, name)
    if s == "err" or s2 == "err" or nm != nm0:
        raise Violation(f"standard_name:{name}", f"spelling {sp!r} resolves to {nm!r}, entry {name!r} to {nm0!r}")
    if row["symbol"] and sp == name:
        s, sy = attempt(ureg.get_symbol, name)
        if s == "err" or sy != row["symbol"]:
            raise Violation(f"standard_symbol:{name}", f"get_symbol({name!r}) = {sy!r}, standard {row['symbol']!r}")
    if kind == "temp":
        for probe in row["value"].split(","):
            x, k = [Fraction(p.strip()) for p in probe.split("->")]
            xx, kk = (x, k) if nit == "Fraction" else (float(x), float(k))
            s, q = attempt(lambda: ureg.Quantity(xx, sp).to("kelvin"))
            if s == "err":
                raise Violation(f"standard_wrong_dimension:{name}", f"Q({x},{sp!r}).to(kelvin): {type(q).__name__}: {q}")
            _cmp(nit, q.magnitude, k, "exact", None, f"Q({x},{sp!r}).to(kelvin)", temp=True)
            s, q = attempt(lambda: ureg.Quantity(kk, "kelvin").to(sp))
            if s == "err":
                raise Violation(f"standard_wrong_dimension:{name}", f"Q({k},kelvin).to({sp!r}): {q}")
            _cmp(nit, q.magnitude, x, "exact", None, f"Q({k},kelvin).to({sp!r})", temp=True)
        return
    want = eval_value(row["value"]) if kind != "codata" else Fraction(row["value"])
    s, q = attempt(_to, ureg, 1, sp, row["target"])
    if s == "err":
        import pint

        k = "standard_wrong_dimension" if isinstance(q, pint.DimensionalityError) else "standard_unreadable"
        raise Violation(f"{k}:{name}", f"Q(1,{sp!r}).to({row['target']!r}): {type(q).__name__}: {q}")
    _cmp(nit, q.magnitude, want, kind, row["tol"], f"Q(1,{sp!r}).to({row['target']!r})")
    if nit == "float":
        # the standard value does not depend on the number type of the magnitude one happens to hold: exact rationals and decimals in the
        # default (float) registry are converted with the same factor, to float accuracy
        from decimal import Decimal as _D

        for mag, tag in ((Fraction(1), "Fraction(1)"), (_D(1), "Decimal(1)")):
            s_, qm = attempt(_to, ureg, mag, sp, row["target"])
            if s_ == "err":
                raise Violation(f"standard_unreadable:{name}:{tag}", f"Q({tag},{sp!r}).to({row['target']!r}): {type(qm).__name__}: {qm}")
            _cmp("float", float(qm.magnitude), want, kind if kind != "exact" else "exact", row["tol"], f"Q({tag},{sp!r}).to({row['target']!r})")
    # the same factor through the base-unit machinery of the default (SI/mks) system; asked for every spelling and on
    # both passes over the table, so a factor cached under a wrong key shows up
    for other in ("imperial", "cgs"):
        attempt(ureg.get_base_units, sp, system=other)  # a question about another system in between does not change the default system's answer
    s, fb = attempt(ureg.get_base_units, sp)
    if s == "err":
        raise Violation(f"standard_unreadable:{name}", f"get_base_units({sp!r}): {type(fb).__name__}: {fb}")
    f, bu = fb
    R = env.R()
    si_base = ({b for b in R.units if R.units[b].is_base} - {"gram"}) | {"kilogram"}
    if not set(bu._units) <= si_base:
        raise Violation(f"standard_base_units_not_SI:{name}", f"get_base_units({sp!r}) under the default (mks) system, asked after get_base_units(.., system='imperial'/'cgs'): {dict(bu._units)}")
    s, q2 = attempt(lambda: ureg.Quantity(f, bu).to(row["target"]) if row["target"] else ureg.Quantity(f, bu).to(ureg.UnitsContainer({})))
    if s == "err":
        raise Violation(f"standard_wrong_dimension:{name}", f"get_base_units({sp!r}) = {f!r} {dict(bu._units)}: {q2}")
    _cmp(nit, q2.magnitude, want, kind, row["tol"], f"get_base_units({sp!r})")
    s, q3 = attempt(lambda: ureg.Quantity(1, sp).to_base_units())
    if s == "err":
        raise Violation(f"standard_unreadable:{name}", f"Q(1,{sp!r}).to_base_units(): {q3}")
    if dict(q3._units) != dict(bu._units):
        raise Violation(f"standard_base_units_differ:{name}", f"to_base_units {dict(q3._units)} vs get_base_units {dict(bu._units)}")
    _cmp(nit, q3.magnitude, f, "exact" if nit == "Fraction" and not isinstance(f, float) else "pi", None, f"Q(1,{sp!r}).to_base_units() vs get_base_units")


def _cmp(nit, got, want, kind, tol, what, temp=False):
    if kind == "exact" or (kind == "codata" and (tol is None or Fraction(tol) == 0)):
        if nit == "Fraction":
            if isinstance(got, float):
                # only allowed for entries that pint reaches through a fractional power; none of the exact entries does
                raise Violation(f"standard_not_exact_type:{ENTRY[0]}", f"{what}: float {got!r} in the Fraction registry")
            if Fraction(got) != want:
                raise Violation(f"standard_value_differs:{ENTRY[0]}", f"{what}: registry {Fraction(got)} = {float(got)!r}, standard {want} = {float(want)!r}")
        else:
            ok = float_close(float(got), want, 12) if want != 0 else abs(float(got)) < 1e-9
            if temp and not ok:
                ok = abs(float(got) - float(want)) < 1e-9 * max(1.0, abs(float(want)))
            if not ok:
                raise Violation(f"standard_value_differs:{ENTRY[0]}", f"{what}: registry {float(got)!r}, standard {float(want)!r}")
        return
    if kind == "pi":
        g = Fraction(got)
        w = Fraction(want)
        lim = Fraction(1, 10 ** 45) if nit == "Fraction" else Fraction(1, 10 ** 14)
        if rel_err(g, w) > lim:
            raise Violation(f"standard_value_differs:{ENTRY[0]}", f"{what}: registry {float(g)!r}, standard {float(w)!r} (rel {float(rel_err(g, w)):.3g})")
        return
    # derived CODATA value with tolerance
    if rel_err(Fraction(got), want) > Fraction(tol):
        raise Violation(f"standard_value_differs:{ENTRY[0]}", f"{what}: registry {float(got)!r}, CODATA {float(want)!r} (rel {float(rel_err(Fraction(got), want)):.3g} > {tol})")


SI_SYMBOLS = {"second": "s", "meter": "m", "gram": "g", "ampere": "A", "kelvin": "K", "mole": "mol", "candela": "cd", "hertz": "Hz", "newton": "N", "pascal": "Pa", "joule": "J",
              "watt": "W", "volt": "V", "ohm": "Ω", "farad": "F", "tesla": "T", "liter": "l", "byte": "B", "bit": "bit", "electron_volt": "eV", "becquerel": "Bq", "sievert": "Sv"}


def case_prefixed_symbol(case):
    """prefix symbol + unit symbol of a standard unit denotes prefix value x unit (judged by value and dimension: a few such spellings are
    other defined units of the same size, e.g. fm = fermi), before and after other lookups"""
    ureg = env.ureg("Fraction")
    psym, pval, unit, usym = case["psym"], eval_value(case["pval"]), case["unit"], case["usym"]
    text = psym + usym
    s, q = attempt(lambda: ureg.Quantity(1, text).to(unit))
    if s == "err":
        raise Violation(f"standard_prefixed_symbol_unreadable:{text}", f"Q(1,{text!r}).to({unit!r}): {type(q).__name__}: {q}")
    if isinstance(q.magnitude, float) or Fraction(q.magnitude) != pval:
        raise Violation(f"standard_prefixed_symbol_wrong:{text}", f"1 {text} = {q.magnitude!r} {unit}, standard {pval}")


def case_named_prefixed(case):
    """a defined unit whose name also reads as prefix + unit (milliarcsecond, kilometer_per_second, dtex) is that prefix times that unit"""
    R = env.R()
    ureg = env.ureg("Fraction")
    name, p, u = case["name"], case["prefix"], case["unit"]
    want = Fraction(R.prefixes[p].value)
    s, q = attempt(lambda: ureg.Quantity(1, ureg.UnitsContainer({name: 1})).to(ureg.UnitsContainer({u: 1})))
    if s == "err":
        raise Violation(f"named_prefixed_unit_inconsistent:{name}", f"Q(1,{name}).to({u}): {type(q).__name__}: {q}")
    if abs(float(q.magnitude) - float(want)) > 1e-12 * float(want):
        raise Violation(f"named_prefixed_unit_inconsistent:{name}", f"the definition of {name!r} gives {q.magnitude!r} {u}; its name reads as {p} + {u} = {want} {u}")


def case_dimname(case):
    """derived dimension names and the SI units with special names against oracle/dimtable.py (SI brochure tables, not the definition files)"""
    from ..oracle.dimtable import BASE_DIM, NAMED_DIMS, NAMED_UNITS

    ureg = env.ureg("Fraction")
    name = case["name"]
    if name.startswith("["):
        want = {BASE_DIM[b]: e for b, e in NAMED_DIMS[name].items()}
        s, got = attempt(ureg.get_dimensionality, name)
        if s == "err" or {k: v for k, v in dict(got).items()} != want:
            raise Violation(f"standard_dimension_differs:{name}", f"get_dimensionality({name!r}) -> {got!r}; SI: {want}")
        return
    exps = NAMED_UNITS[name]
    want = {BASE_DIM[b]: e for b, e in exps.items()}
    s, got = attempt(lambda: dict(ureg.Unit(name).dimensionality))
    if s == "err" or got != want:
        raise Violation(f"standard_dimension_differs:{name}", f"Unit({name!r}).dimensionality -> {got!r}; SI: {want}")
    s, q = attempt(lambda: ureg.Quantity(1, name).to(ureg.UnitsContainer(exps)))
    if s == "err" or q.magnitude != 1:
        raise Violation(f"standard_value_differs:{name}:coherent", f"1 {name} -> {q!r} in SI base units; the SI units with special names are coherent (factor 1)")


def case_refused_edit(case):
    """a registry that refuses redefinitions (on_redefinition='raise', the policy of the application registry) still carries the standard values after
    an attempt to replace one of them was refused"""
    import pint

    ureg = pint.UnitRegistry(non_int_type=Fraction, on_redefinition="raise")
    for line in case["lines"]:
        s_, r_ = attempt(ureg.define, line)
        if s_ == "ok":
            raise Violation("standard_unit_redefined_under_policy_raise", f"define({line!r}) was accepted by a registry built with on_redefinition='raise'")
    for spelling, target, want in (("yard", "meter", Fraction(9144, 10000)), ("foot", "meter", Fraction(3048, 10000)), ("mile", "meter", Fraction(1609344, 1000)), ("lb", "kilogram", Fraction(45359237, 100000000)),
                                   ("pound", "kilogram", Fraction(45359237, 100000000)), ("inch", "meter", Fraction(254, 10000)), ("ounce", "kilogram", Fraction(45359237, 1600000000))):
        s_, q = attempt(lambda: ureg.Quantity(1, spelling).to(target))
        if s_ == "err" or Fraction(q.magnitude) != want:
            raise Violation(f"standard_value_differs:{spelling}:after_refused_redefinition", f"after the refused {case['lines']}: 1 {spelling} -> {q!r} {target}, standard {want}")


def run_table(task, tier, seed, col):
    if task["shard"] == 0:
        consistency()
        R = env.R()
        for lines in (["yard = 0.9 * meter"], ["yard = 0.9 * meter = yd"], ["livre = 0.5 * kilogram = lb"], ["inch = 2.5 * centimeter = in"], ["@alias meter = yard"]):
            col.case(("refused", lines[0]), True, sample={"lines": lines}, cls="refused_edit")
            col.run_case(case_refused_edit, {"lines": lines})
        from ..oracle.dimtable import NAMED_DIMS, NAMED_UNITS

        for name in list(NAMED_DIMS) + list(NAMED_UNITS):
            col.case(("dimname", name), True, sample={"name": name}, cls="dimension_name")
            col.run_case(case_dimname, {"name": name})
        for name in R.units:
            for p, u in R.readings(name):
                if p and u in R.units and u != name:
                    col.case(("named_prefixed", name), True, sample={"name": name, "reads_as": [p, u]}, cls="named_prefixed")
                    col.run_case(case_named_prefixed, {"name": name, "prefix": p, "unit": u})
        for r in load_table():
            if r["kind"] == "prefix" and r["symbol"] and Fraction(eval_value(r["value"])).denominator in (1,) or (r["kind"] == "prefix" and r["symbol"] and str(r["value"]).startswith("1e")):
                for unit, usym in SI_SYMBOLS.items():
                    if r["symbol"] + usym == "dB":
                        continue  # dB is the decibel; a decibyte has no standard symbol
                    col.case(("psym", r["symbol"], usym), True, cls="prefixed_symbol")
                    col.run_case(case_prefixed_symbol, {"psym": r["symbol"], "pval": r["value"], "unit": unit, "usym": usym})
    rows = load_table()
    work = [(r, sp, nit) for r in rows for sp in r["spellings"] for nit in ("Fraction", "float")]
    mine = shard(work, task["shard"], task["nshard"])
    # second pass in reverse order: every entry is also asked after all the others have been
    for r, sp, nit in mine + mine[::-1]:
        nt = r["kind"] != "exact" or eval_value(r["value"]) != 1
        col.case(("entry", r["name"]), nt, sample={"entry": r["name"], "spelling": sp, "registry": nit, "target": r["target"], "value": r["value"]},
                 cls=r["kind"])
        col.run_case(case_entry, {"row": r, "spelling": sp, "nit": nit})
    col.exhaustive = True


def run_task(task, tier, seed, col):
    run_table(task, tier, seed, col)


def replay(sub, case):
    if "psym" in case:
        return case_prefixed_symbol(case)
    if "prefix" in case and "name" in case:
        return case_named_prefixed(case)
    if set(case) == {"name"}:
        return case_dimname(case)
    if set(case) == {"lines"}:
        return case_refused_edit(case)
    # history-sensitive defects (a factor cached under a wrong key) need the table to have been walked first
    from ..core import Violation as _V
    for r in load_table():
        for sp in r["spellings"]:
            try:
                case_entry({"row": r, "spelling": sp, "nit": case["nit"]})
            except _V:
                pass
    return case_entry(case)
