#!/usr/bin/env python3
"""Regenerate the seeded-change table of DESIGN.md (between the SEEDTABLE markers) from seeded/*/meta.json."""
import glob
import json
import os

HERE = os.path.dirname(os.path.dirname(os.path.abspath(__file__)))


def main():
    rows = ["  | seed | mechanism broken | first run | caught by (quick tier unless stated) |", "  |---|---|---|---|"]
    for p in sorted(glob.glob(os.path.join(HERE, "seeded", "*", "meta.json"))):
        m = json.load(open(p))
        sid = os.path.basename(os.path.dirname(p))
        files = ",".join(os.path.basename(f) for f in m.get("files", []))
        b = m.get("breaks", "").replace("\n", " ").replace("|", "/")
        if len(b) > 170:
            b = b[:170].rsplit(" ", 1)[0] + " …"
        cr = m.get("check_result", "").replace("|", "/").replace("\n", " ")
        first = "missed" if cr.startswith("MISSED") else "caught"
        idx = cr.find("CAUGHT")
        now = cr[idx:].replace("CAUGHT ", "", 1) if idx >= 0 else cr
        if len(now) > 240:
            now = now[:240].rsplit(" ", 1)[0] + " …"
        rows.append(f"  | {sid} | `{files}`: {b} | {first} | {now} |")
    path = os.path.join(HERE, "DESIGN.md")
    s = open(path).read()
    a = s.index("<!-- SEEDTABLE -->") + len("<!-- SEEDTABLE -->")
    b = s.index("<!-- /SEEDTABLE -->")
    s = s[:a] + "\n" + "\n".join(rows) + "\n  " + s[b:]
    open(path, "w").write(s)
    print("seed table:", len(rows) - 2, "rows")


if __name__ == "__main__":
    main()
