#!/bin/bash
# usage: tools/seedtest.sh <dir with patch.diff + demo.py> <Cnn> [check args]
# Applies the seeded change to /repo, runs its demonstration and the check, and always reverts.
set -u
D="$(realpath "$1")"; shift
cd /verif
if ! git -C /repo diff --quiet; then echo "/repo dirty, refusing"; exit 3; fi
git -C /repo apply "$D/patch.diff" || { echo "patch does not apply"; exit 3; }
(cd /tmp && PYTHONPATH=/repo /venv/bin/python "$D/demo.py" >/tmp/seed_demo.out 2>&1); echo "demo exit (patched)=$?"
./check "$@" 2>&1 | grep -E "VIOLATION|violation|HARNESS|^C[0-9]+ tier" | cut -c1-400 | head -${SEED_HEAD:-8}
git -C /repo checkout -- .
(cd /tmp && PYTHONPATH=/repo /venv/bin/python "$D/demo.py" >/dev/null 2>&1); echo "demo exit (clean)=$?"
