#!/bin/bash
# usage: tools/mut.sh <patch> <Cnn> [more check args]  — apply a patch to /repo, run the check, always revert.
set -u
P="$1"; shift
cd /verif
if ! git -C /repo diff --quiet; then echo "/repo dirty, refusing"; exit 3; fi
git -C /repo apply "$(realpath "$P")" || { echo "patch does not apply"; exit 3; }
./check "$@" 2>&1 | tail -${MUT_TAIL:-6}
rc=${PIPESTATUS[0]}
git -C /repo checkout -- .
echo "exit=$rc"
