#!/usr/bin/env python3
"""Regenerate /verif/MANIFEST.json from the table below (single source of truth for the interface)."""
import json
import os

HERE = os.path.dirname(os.path.dirname(os.path.abspath(__file__)))
ALL = [f"C{i:02d}" for i in range(1, 21)]

CHECKS = {
    "C01": dict(
        technique="bounded-exhaustive enumeration of unit pairs + Hypothesis compound units against an independent definition reader (differential oracle)",
        text="Generated-input search with an explicit oracle: every ordered pair of the ~390 multiplicative canonical units is converted "
             "(exhaustive for that finite sub-domain) and every compatibility predicate is compared with dimension vectors computed by an "
             "independent reader of the definition files; spellings, compound units with integer/rational exponents, closure laws and "
             "registry configurations are sampled. Establishes the property on the enumerated pairs, samples the rest.",
        note="Trusts R (vf/oracle/defreader.py, no pint code) as reader of default_en.txt; compound units, spellings and configurations are sampled, not exhausted. Later additions: keyword-order permutations for ureg.check, generated registries loaded through every path of C10 (file, @import, on-disk caches), cross-process warm-cache listing check. Round 7: predicates also with units/quantities of another registry.",
        design="5/C01"),
    "C02": dict(
        technique="bounded-exhaustive enumeration of same-dimension unit pairs in Fraction/Decimal/float registries + Hypothesis compound units; differential oracle = exact rational ratio from an independent definition reader; algebraic laws (identity, inverse, path independence)",
        text="Every ordered same-dimension pair of multiplicative canonical units (7.4k ordered pairs, exhaustive) is converted in all three numeric "
             "configurations, twice and in both orders, and compared with the exact Fraction ratio computed by R: == and int/Fraction type in the "
             "Fraction registry, 1e-26 relative in Decimal, (16+4n) ulp in float. Prefix x spelling x plural strings, root-unit expansions, "
             "conversion laws and compound units are enumerated/sampled. Exhaustive on the pair domain, sampling beyond it.",
        note="R reads the same definition files (wrong literals in the files are C20's); 29 float-tainted units (fractional power of a scale) are compared with the float tolerance in every registry type. Later additions: agreement of every entry point of one conversion (to/ito/m_as, context name passed along, ndarray, in place, integer ndarray in place) with ureg.convert; generated registries through all load paths. Round 6: conversions not asked to work in place leave their source array alone (also inside contexts, asked twice); the float bound of compound conversions scales with the exponents.",
        design="5/C02"),
    "C03": dict(
        technique="Hypothesis expression trees over quantities evaluated under two unit assignments (metamorphic relation) and against a reference evaluation over exact (value, dimension) pairs; operator-form differential (plain vs reflected vs in-place) with operand snapshots",
        text="Random expression trees (depth <= 3) over + - * / // % divmod, integer powers, neg, abs and a comparison are built so that additive nodes are "
             "dimensionally valid by construction most of the time; every leaf is one physical value in two units with an exact Fraction re-expression. In the "
             "Fraction registry both evaluations and the reference model must agree exactly (value, dimension, error class, no float contamination); in the "
             "float registry agreement is required within a propagated error bound, away from ties. Reflected and in-place forms (scalars and ndarrays) "
             "must equal the plain form and leave every operand but the in-place target untouched. Sampling only.",
        note="Leaf units are restricted to rational, positively scaled multiplicative units; ill-conditioned float trees (near-zero divisors, nested powers > 4) are skipped and counted. One known finding (int ** negative power) is excluded by construction in the tree tier and reported by the forms tier. Later additions: comparisons across offset units (offsetcmp), exact Fraction magnitudes in the float registry, auto_reduce_dimensions configuration, bare-number ordering/equality. Round 6: in-place forms that NumPy refuses (integer target, wider operand) leave the target denoting what it denoted (judged physically). Round 7: in-place chains (looked-at quantity changed by *=, /=, **= over exponents -3..3, then used again). Round 8: plain + / - on array operands evaluated twice (delta and absolute units); offset/log operands next to another dimension raise DimensionalityError.",
        design="5/C03"),
    "C04": dict(
        technique="bounded-exhaustive enumeration of unit containers over a 3-letter alphabet (all ordered pairs, sampled triples) in 3 exponent types x 3 layers against a dict model of the free abelian group; Hypothesis containers over real unit names; Hypothesis integer matrices for pi-theorem with own Fraction rank/null-space oracle",
        text="All 343 containers over {a,b,c} with exponents in {-2..2, +-1/2} and their ordered pairs are multiplied, divided, raised and compared in the "
             "UnitsContainer, ParserHelper and Unit/Quantity layers for int/float, Decimal and Fraction exponents; each result must equal the dict model, "
             "carry no zero entry, hash equal when equal and leave operands untouched. Dimensionality homomorphism is checked against R. pi_theorem results "
             "must be dimensionless, independent and of size n - rank. Exhaustive over the pair domain in the thorough tier, seed-strided in quick.",
        note="Float/Decimal exponents restricted to dyadic rationals (no rounding artefacts). Integrality of pi-theorem exponents is not part of the statement and not asserted. Later additions: in-pint dimensionality homomorphism and exponent types, dimensionality of containers of derived dimension names, mixed ParserHelper/UnitsContainer/dict operands. Round 7: container editing helpers (add/remove/rename, ParserHelper * str) on hashed operands; powers whose product underflows leave no entry.",
        design="5/C04"),
    "C05": dict(
        technique="Hypothesis pairs/triples of quantities per dimension class with exact re-expression in other units (Fraction registry); oracle = exact base values and affine maps from an independent definition reader; equivalence, hash and trichotomy laws",
        text="Quantities are drawn per dimension class as exact re-expressions of one physical value in other units, perturbed values, zeros and negatives "
             "(Fraction registry, exact), temperature-like units through R's affine maps (offset, absolute, delta), cross-dimension pairs, bare numbers, floats "
             "away from ties and NaN. ==/!= must equal 'same R-dimension and equal R-value', be symmetric/transitive, equal quantities must hash equal "
             "(also to the bare number they equal), exactly one of <,==,> must hold in agreement with the base values, ordering across dimensions must raise "
             "DimensionalityError. Sampling (thousands of cases per run), no exhaustive sub-domain.",
        note="Units with non-rational or negative factors are excluded from exact/ordering clauses; Quantity == Unit (as opposed to Unit == Quantity) is outside the statement. Later additions: compound units with neighbouring exponents, quantities changed in place (incl. temperatures converted in place) compared with freshly built ones, active contexts (ordering across dimensions raises, == is False).",
        design="5/C05"),
    "C06": dict(
        technique="Hypothesis over all ordered pairs of temperature-like units (bundled + generated rational offset units) x operators x registry modes against a reference model of the documented offset calculus and the exact affine maps from an independent definition reader; defining log maps for logarithmic units; functional-vs-in-place differential on ndarrays",
        text="Conversions among absolute, offset and delta temperature units (incl. 3 generated units with rational scale/offset) are compared exactly (Fraction "
             "registry) with the affine/scale maps, offset<->delta must raise DimensionalityError, all entry points and inverses agree. +, -, *, /, ** with "
             "quantities and numbers in both orders and both autoconvert modes must give exactly the unit and value of the reference model (A/O/D kinds, written "
             "from nonmult.rst) or OffsetUnitCalculusError. ndarray in-place forms must equal the functional forms and leave the other operand untouched; "
             "compound units containing an offset unit never convert to another dimension. Log units are checked against x_lin = scale*base**(x/factor), "
             "inverses, scalar vs in-place array conversion, and well-formedness of arithmetic results. Sampling over a small finite unit set x random magnitudes.",
        note="Arithmetic on logarithmic units is documented only through conversions: validity predicate, one known finding (delta_<log unit> undefined). Later additions: right operands with a dimensionless scale in their units, parse_units(text, as_delta=...) relations for compound and powered offset strings. Round 6: sub-check redef - an offset unit whose definition is replaced by a redefining context or a second define() follows the affine map in force (absolute, delta, difference, offset + delta, alias) in Fraction/float/Decimal registries. Round 7: sub-check order (ordering across offset and logarithmic units); refused in-place conversions always checked. Round 8: comparing array quantities in dB/Np/percent/degree with plain numbers leaves the operand alone.",
        design="5/C06"),
    "C07": dict(
        technique="bounded-exhaustive enumeration of expression trees x spelling variants with a Python-operator evaluation of the tree as oracle; Hypothesis larger trees in float/Decimal/Fraction registries; mutation-based malformed inputs; audit-hook monitored parsing of hostile and random strings; coverage-guided atheris/libFuzzer campaigns (thorough tier) with an audit-hook, a Python-grammar differential and a structural oracle inside the target",
        text="Every tree with <= 3 leaves (<= 4 in thorough) over {2,3,m,s} x {+,-,*,/,//,**} with one optional unary minus is rendered with exactly the "
             "parentheses Python needs, in up to 48 spelling variants (explicit *, blank, parenthesis and blank-free juxtaposition, ^, superscripts, redundant parentheses, "
             "whitespace) and must parse to the value/type/error class of the tree evaluated with Python operators. Word forms, larger random trees in all three "
             "numeric configurations, every +/- / a(b) uncertainty notation with signs and exponents, malformed strings (must raise) and a sys.addaudithook "
             "monitor over hostile/random strings (no exec/compile/import/open/os/socket events, no foreign objects returned) complete the check.",
        note="The no-execution clause is a universally quantified negative: the audit-hook oracle is precise but the input search is evidence, not proof. CPython's own attempt to open a file literally named '<string>' when the tokenizer raises SyntaxError is allowed. Later additions: blank-free juxtaposition, digit-group underscores, operators dangling before a closing parenthesis, results of a parse mutated in place before the next parse (alias). Round 6: the words inf/infinity/nan are numbers of the registry's own number type (float, Decimal).",
        design="5/C07"),
    "C08": dict(
        technique="bounded-exhaustive enumeration of all prefix x spelling x plural strings (1.3e5) against the decomposition rule computed by an independent definition reader; Hypothesis mutated/random strings; op-sequence (model-based) lookup histories compared with fresh registries; cross-process determinism probe",
        text="Every string p+u+s over the 72 prefix spellings, ~900 unit spellings and the optional plural is resolved and compared with R's tables: exact "
             "spellings first, unique reading -> canonical name/symbol/prefix value applied once, several readings -> membership, none -> UndefinedUnitError; "
             "mutated and random identifiers must be rejected; case variants are checked with case_sensitive=False per call and per registry and under 4 hash "
             "seeds in sub-processes; offset units in compound strings x as_delta/default_as_delta; lookup histories must answer like a fresh registry. "
             "The cross product is exhaustive; the rest is sampled.",
        note="Among several genuine readings of one string only membership and determinism are asserted (the statement does not rank them). Two known findings (double prefixes) are listed in known_findings.json. Later additions: spellings added after construction (@alias / define / load_definitions) in case-sensitive and case-insensitive registries. Round 7: every entry point taking a unit string follows case_sensitive=False / default_as_delta=False registries.",
        design="5/C08"),
    "C09": dict(
        technique="complete enumeration of every canonical unit x 7 format specs x {long, ~} with layout-specific inverse parsers (structural oracle) and parse-back round trips; Hypothesis compound units / quantities in float, Decimal and Fraction registries; op-sequence check of default_format changes on long-lived objects",
        text="For each of the ~400 canonical units at exponents 1, 2, -1 and paired with /second**2, each of D, C, P, H, L, Lx in long and short form is "
             "rendered and parsed back by a parser written for that layout; the multiset of (name or symbol, exponent, numerator/denominator) must match, and "
             "D/C/P text must parse_units back to an equal unit (symbols only when R reads them back uniquely). Compound units with integer/fractional "
             "exponents in all three numeric configurations, quantities with magnitude specs, str(q)/Quantity(str) round trips, the '#' modifier, "
             "default_format sequences on held objects and sort functions are sampled. Formatting must never raise or alter its argument.",
        note="Babel-localised output is outside the statement. One known finding: '%' / per-mille followed by a superscript in '~P'. Later additions: quantity default formats incl. '#', exponents/magnitudes using every digit, LaTeX magnitude oracle, formatting inside a context that redefines a unit, symbols taken from the independent definition reader. Round 6: integral exponents of the registry's own number type (Decimal('10'), Fraction(20)).",
        design="5/C09"),
    "C10": dict(
        technique="complete comparison of the bundled definition files with an independent reader; Hypothesis model-first generated definition files rendered in permuted/variant layouts and loaded through five paths x three numeric types (model oracle + differential between paths); fault injection from a catalogue of ill-formed statements",
        text="(a) Every unit, spelling, symbol, prefix, derived dimension, group, system, context and default that R reads from default_en.txt/constants_en.txt is "
             "compared with the loaded registry in float, Decimal and Fraction configurations. (b) Random registry models (DAG of units with rational factors, "
             "prefixes with '_' placeholders, aliases, symbols, offset unit, groups with 'using' chains, a system rule of either form, derived dimension) are "
             "rendered with permuted unit/prefix lines, spacing, comments and literal spellings and loaded from a list of lines, a file, define() calls, a file with "
             "@import and a cold+warm disk cache; every answer must equal the model and agree across paths. (c) One ill-formed statement out of 25 kinds is "
             "inserted at a random place: loading or the first use of the name must raise.",
        note="Generated contexts are exercised by C11/C12. Units added via define() are not asked for compatible-unit listings (known finding of C13). Later additions: load paths cache_lines / cache_import with decoy definition sets, @defaults, @alias directives, case-insensitive table, power rules in @system, cross-process cache check (xcache). Round 6: faults also through load_definitions on a living registry; references to undefined groups/units; refused @system blocks and refused redefinitions (on_redefinition='raise') leave nothing behind; each fault x path x number type enumerated once; cross-process cache script records every probe separately and covers registries built from lines. Round 7: offset units without symbol / with aliases and their delta spellings; block headers with runs of blanks and tabs. Round 8: a group's own units (non_inherited_unit_names) as written.",
        design="5/C10"),
    "C11": dict(
        technique="Hypothesis over bundled and randomly generated contexts (rule graphs with monomial equations, parameters, overlapping rules, redefinitions) x activation forms x stacks; reference oracle = own BFS over dimension vectors (all shortest chains, recency precedence) with exact evaluation of the rule equations using factors from an independent definition reader",
        text="For each bundled context (incl. Gaussian/ESU in a float tier) and for random stacks of up to four generated contexts with deliberately inconsistent "
             "rational constants, a quantity is converted between units of linked dimensionalities through every activation form (with-block, enable/disable, "
             "contexts passed to to()/ito(), decorator, nested blocks, alias, Context object). The result must equal the exact value of some shortest chain found "
             "by the oracle's BFS with the most recently enabled rule per edge, unreachable targets must raise DimensionalityError, same-dimension conversions are "
             "unchanged, no context may stay active. Redefinitions must apply to the unit and its dependants exactly while active (also nested and with keywords).",
        note="Parameter inheritance with several enclosing contexts that disagree is under-specified by the statement: skipped and counted. Later additions: derived dimension names in rules; contexts built with from_lines without a to-base function and with Context() + add_transformation; nested contexts that both declare parameters (each rule uses its own context's value); the bundled sp/boltzmann/energy contexts against c, h, k written in the check. Round 6: every bundled-context conversion is repeated on an ndarray magnitude (element-wise equal to the scalar conversions, source untouched). Round 7: parameterless contexts at the bottom of the stack.",
        design="5/C11"),
    "C12": dict(
        technique="model-based (stateful) testing: bounded-exhaustive breadth-first enumeration of operation sequences over a 27-letter alphabet on a fresh tiny registry, plus Hypothesis random sequences, each interpreted next to a reference stack model with a probe battery after every step; fault injection through four kinds of invalid activation",
        text="Every sequence up to length 3 (4 in thorough) over enable/disable(0,1,2,all)/with-enter/with-exit/raise-inside-with/failing activation/define-new-unit "
             "is run on a fresh registry that has rule-only, redefinition-only, mixed and invalid contexts and a default system; after every operation the "
             "observable answers (rule conversions incl. two-hop chains, parameter-dependent values, redefined and dependent units through to(), "
             "get_root_units, to_root_units, get_base_units, prefixed units, compatible-unit listings, number of active contexts) must equal what the model's stack "
             "implies; a failing activation must raise and change nothing; after unwinding, the battery must equal the one recorded before the first activation. "
             "Random sequences up to 25 operations and a shared-Context check (two registries, re-entry with other parameters) complete it.",
        note="The former known finding (base-units cache across context stacks) is repaired in /repo (1d885d8) and checked like everything else. Units defined while a redefining context is active are C13's clause. Later additions: per-call contexts (to/ito with a context name) in the operation alphabet; on_redefinition='raise' policy observed after every step; activation with an unhashable parameter value (refused or accepted-and-disabled: nothing left behind). Round 6: cold probes (spare units asked once, right after a failed activation: the battery itself warms the caches). Round 7: reading of compound unit strings with offset units across contexts; Context objects with an unresolvable rule endpoint. Round 8: first activation of Context objects (derived-dimension / unit-name / Unit endpoints, parameter by keyword, default or inherited) equals later ones.",
        design="5/C12"),
    "C13": dict(
        technique="model-based (stateful) testing with Hypothesis operation sequences: every answer of a long-lived registry is compared with the answer of a twin built fresh from the declarative state (differential against a fresh registry), each question put to an untouched copy of the twin; registry-isolation differential",
        text="Random histories of up to 30 steps mix 18 kinds of read-only questions (conversions, unit/expression parsing incl. case-insensitive calls, root and "
             "base units with and without explicit system, dimensionality, compatible units per group/system, formatting, to_compact, to_base_units, long-lived "
             "objects, group and system members) with state changes (define unit/prefix/alias, enable/disable rule and redefining contexts, default_system incl. "
             "None, group edits, building and using a second registry). After each state change a twin is built from the definition text plus the logged "
             "definitions and settings; subject and twin must agree on every answer, and a brand-new registry replays the final state. A second tier does the "
             "same on the bundled registry (contexts and systems), a third checks that nothing done to a second registry changes the first.",
        note="Three known findings are excluded by construction/narrow class: units from define() missing in compatible-unit listings, definitions made inside a redefining context, double prefixes (the base-units cache across context stacks is repaired in /repo, 1d885d8). Deep copy is used to hand every question an untouched twin. Later additions: motifs (enter/leave redefining context, ask-define-ask, failing activation then retry, default_system switches, API context with keyword parameter, to_compact around a late prefix, get_name/get_symbol queries, defined names that also read as prefix + unit). Round 6: sub-check redefine (questions and replaced definitions vs a registry built from the final text; found the stale-cache defect repaired in 7c97a2d); xcache with line-built registries sharing a cache folder. Round 7: listing motif; conversions of one pair with several magnitude types. Round 8: isolation against a second registry built from other definitions of the same names, with context switches in the first.",
        design="5/C13"),
    "C14": dict(
        technique="complete enumeration of every unit x every declared system against allowed-unit sets and exact factors from an independent definition reader; Hypothesis compound quantities, generated systems (both rule forms, power-of-root units) and model-based group/system edit histories checked against an own closure model",
        text="For each of the ~390 multiplicative units and each of SI, mks, cgs, atomic, Planck, imperial, US and 'no system', get_base_units(system=), "
             "to_base_units, ito_base_units and get_base_units after a default_system change must agree, use only the system's declared base units plus untouched "
             "root units, preserve dimension and exact value (Fraction registry; 1e-9 for float-tainted units) and be idempotent. Compound quantities, "
             "sys.<system>.<name> attribute resolution and dir(), generated systems with 'new' and 'new:old' rules (incl. liter/hectare/gallon/barn as new "
             "base units) are sampled. Group graphs with 'using' chains undergo random add/remove-units/groups histories incl. shortcut-then-cut shapes and "
             "system group edits; members, system members and group/system-restricted compatible units are compared with an own transitive closure after every edit; cyclic 'using' must be refused.",
        note="Compound quantities under square-root based systems (Planck, atomic) with total exponent > 2 are skipped: intermediate float products underflow. A group using itself is accepted by pint and loops forever (not in the statement; never generated). Later additions: default system asked right after an explicit-system query; partial read views in group histories. Round 6: plural and differently cased attributes of ureg.sys.<system> (case-insensitive registry); refused @system blocks are unknown afterwards and the corrected block can be defined. Round 7: header whitespace of generated systems; members equal the using clause.",
        design="5/C14"),
    "C15": dict(
        technique="Hypothesis quantities over the whole registry x every rewriting helper and its in-place twin, with value/dimension oracles from an independent definition reader (exact in the Fraction registry), an R-based proportionality predicate for to_reduced_units and prefix arithmetic for to_compact; registries with auto_reduce_dimensions / autoconvert_to_preferred",
        text="Random quantities (1-4 units incl. prefixed spellings, exponents -3..3, magnitudes over 60 decades, int/Fraction/float/Decimal/ufloat) go through "
             "to_root_units, to_base_units, to_reduced_units, to_compact (with and without unit=), to_preferred and their ito_ twins: the result must have the "
             "same R-dimension and base value (== in the Fraction registry for rational units), leave the input untouched, and the in-place form must equal the "
             "functional one. to_reduced_units may keep no two units with proportional dimension; to_compact may change exactly one decimal prefix, must bring "
             "a single first-power unit into [1,1000) when the prefix exists (also for uncertain magnitudes on prefixed units) and return dimensionless/0/NaN/inf "
             "unchanged. Products and quotients in auto_reduce_dimensions / autoconvert_to_preferred registries are checked the same way.",
        note="Two known findings: to_compact AssertionError for names with two readings (rads, dtex); to_reduced_units with non-terminating merged exponents in float/Decimal registries. to_preferred is not run in the Decimal registry (the MIP solver rejects Decimal). Later additions: pairs of dimensionless units count as mergeable; float-range domain restriction; the to_compact factor must be a power of 1000; defined names that read as prefix + unit compact like the spelled-out prefix. Round 7: in-place twins on integer arrays.",
        design="5/C15"),
    "C16": dict(
        technique="Hypothesis over a recipe table covering the handled NumPy functions/ufuncs/methods (names read at run time): metamorphic relation (same physical arrays in two unit assignments) + differential against NumPy on root magnitudes with a semantic-class dimension oracle; error-clause enumeration; offset-unit cases compared with the operator forms",
        text="~200 recipes give, per handled name, the argument roles, the call and the semantic class of the output (same unit, product, quotient, square, sqrt, "
             "dimensionless, bare ...). Random float arrays (rank 1-2, optional NaN) are attached to units drawn per argument from the required class, twice; the "
             "result must be physically equal under both assignments and equal to NumPy applied to the root-unit magnitudes with the expected dimension. Rounding "
             "functions are compared in their own unit only; order/equality-sensitive ones use bit/byte/KiB so that re-expression is exact. Every same-dimension "
             "slot is also filled with another dimension (must raise DimensionalityError); offset-unit arrays are run through 16 operations in both registry "
             "modes and operand orders and compared with the operator form; inputs must be unchanged after non in-place calls; names without a recipe are listed in evidence.",
        note="23 known-finding classes with two root causes: (1) mod/remainder/fmod/floor_divide do not convert their operands (pinned by the existing test-suite), (2) the ufunc implementations bypass the offset-unit rules. Functions without a recipe are reported, not claimed. Later additions: optional unit arguments given late (clip/nan_to_num/max/min/sum initial), reductions with axis+where, quantity exponents; recipes referenced by name; histories of ndarray-method calls and in-place state changes compared with fresh quantities (sub-check methods); values of the pool units written in the check (not read from the definition files), more angle units. Round 6: a quarter of the calls run in an auto_reduce_dimensions=True registry with operand units that repeat a dimension. Round 7: 0-d and scalar-Quantity exponents, force_ndarray registries, bare boolean operands. Round 8: ndarray methods also compared with their function forms, on scaled dimensionless units too.",
        design="5/C16"),
    "C17": dict(
        technique="Hypothesis-generated signatures, unit specifications, call shapes and arguments for ureg.wraps / ureg.check, checked against an independent re-implementation of the documented contract with exact factors from an independent definition reader; enumeration of decoration-time errors",
        text="Random signatures (1-5 positional-or-keyword parameters, a suffix of defaults) receive per parameter a unit string, Unit object, None, an '=A' "
             "definition or a reference ('=A', '=A*B', '=A**2', '=A/B'); arguments are quantities in other compatible units, incompatible units, bare numbers or "
             "strings, passed positionally, by keyword in any order, or left to their default; strict on/off; ret None, unit, reference, tuple or list. A recorder "
             "function must see exactly the expected Fractions (None slots: the identical object), the return value must carry the declared or derived units, "
             "errors must be DimensionalityError / ValueError as documented. ureg.check is exercised the same way (dimension strings, units, containers, None). "
             "Count mismatches and wrong specification types must be rejected at decoration time (enumerated).",
        note="Keyword-only/variadic parameters are outside the documented contract. An undefined reference in a wraps specification is only detected at call time (observation; the statement promises decoration-time rejection for count mismatches only). Later additions: quotient and negative-power references in argument and return specs; one decorator object applied to two functions; every derived dimension name and SI special-name unit against an independent table of SI base exponents (oracle/dimtable.py).",
        design="5/C17"),
    "C18": dict(
        technique="Hypothesis round-trip testing (pickle protocols 0-5, copy, deepcopy, to_tuple/from_tuple) of quantities, units, measurements, unit containers, parser helpers and every pint exception class, with application-registry swaps between unpickles; enumeration-by-generation of cross-registry operator pairs; op-sequence testing of a deep-copied registry pair; differential of the lazy default registry against an explicit one in fresh interpreters",
        text="Objects over the whole registry (incl. prefixed units the receiving registry has never parsed; int/float/Fraction/Decimal/ndarray magnitudes) are sent "
             "through each transport; content (class family, magnitude type/dtype/value, unit items) must be identical, unpickled objects must belong to the freshly "
             "installed application registry and be usable there (format '~', to_root_units), also after the application registry has been swapped again. Exceptions "
             "must keep type, public fields and message. Every binary operator and ordering between Quantity/Unit objects of two registries (fresh, deep-copied, "
             "application) must raise ValueError. Edits on either side of a deep-copied pair (definitions, contexts, groups, systems, default system/format) must "
             "never change the other side's battery, and objects reached through the copy must belong to it. The lazily built default registry must answer like an explicit one.",
        note="Round-trip equality is judged on content, not with == (unpickled objects belong to the application registry by design). Unit ** Quantity and in-place operators on Units are not operations and are skipped. Later additions: Measurements in the ownership list of deep copies, both ways of replacing the application registry; the core of the cross-registry space is enumerated (operators x operand kinds incl. attribute-obtained units x fresh/copy/copy-of-copy x side); round trips in Fraction/Decimal registries with fractional exponents (exponent type compared). Round 7: the battery uses a prefix defined after the copy. Round 8: edits of the preprocessors list in the deep-copy histories.",
        design="5/C18"),
    "C19": dict(
        technique="Hypothesis over constructor forms x unit pairs x values/errors over 60 decades (oracle: the numbers supplied and the slope from an independent definition reader); Hypothesis expression trees over independent and repeated measurements against an own first-order propagation model (partial derivatives per source variable); notation and format round-trips",
        text="Every constructor form (Quantity pair incl. the error given in another unit, numbers+unit, ufloat+unit, plus_minus absolute/relative/Quantity) must report "
             "value/error/rel as supplied and negative errors must raise ValueError. to/ito over all compatible pairs and the temperature units must map the nominal "
             "value like a plain quantity and multiply the standard deviation by |slope| (rel unchanged for multiplicative pairs); a converted measurement stays "
             "correlated with its source. Expression trees over + - * / ** neg on three independent measurements (each also available re-expressed in another unit), "
             "a plain quantity and numbers are evaluated by pint and by a model that tracks the partial derivative with respect to each source; nominal value, "
             "dimension and standard deviation must agree (1e-7 of the uncancelled contributions), dimension mismatches must raise. All +/- and a(b) notations x sign "
             "x exponent must parse to the measurement built from the same numbers; all format specs must render without altering the object, plain-text ones parse back "
             "within the printed precision. Sampling only.",
        note="First-order propagation is the contract of the uncertainties package; higher-order effects are outside the model. Format round-trips are judged at the printed precision (1-2 significant digits of the uncertainty). Later additions: negative relative/Quantity errors, prefixed source units, unit-rewriting helpers on measurements compared with the plain quantity; two parses of one text are independent measurements. Round 7: uncertain zero is not the exact zero; nan on one side of an exponent notation. Round 8: measurements made through a deep-copied registry.",
        design="5/C19"),
    "C20": dict(
        technique="complete enumeration of an independently curated table of ~260 standard values x spellings x {Fraction, float} registries (differential oracle: the table)",
        text="Each entry of data/standards.txt (SI and binary prefixes, SI units, defining constants, yard/pound multiples, US/imperial capacity, avoirdupois/"
             "troy/apothecary, pressure/energy/power units, CGS, information, temperature probe points, CODATA 2022 values) is converted to an SI base-unit "
             "expression and compared with the tabulated value: == in the Fraction registry for exact entries, 1e-45 for pi-dependent ones, 10x CODATA "
             "uncertainty for derived constants, ulp tolerance in float; names, symbols and spellings are checked too. The table is finite and enumerated completely.",
        note="The table was written offline from memory of the standards and cross-checked by consistency relations; units without an international definition are left out. Later additions: prefix symbols on bar/bit/byte before and after first use, explicit-system queries interleaved with default-system ones (SI base units required); prefix symbol + unit symbol of standard units; defined names reading as prefix + unit; derived dimension names and coherence of the SI special-name units (oracle/dimtable.py). Round 6: standard values after refused redefinitions (on_redefinition='raise'). Round 7: table entries also with Fraction(1) / Decimal(1) magnitudes in the float registry.",
        design="5/C20"),
}

NOT_YET = "check not built yet in this session (work in progress, see DESIGN.md section 5)"


def main():
    checks = []
    for pid in ALL:
        if pid not in CHECKS:
            continue
        c = CHECKS[pid]
        checks.append({
            "property_id": pid,
            "quick_cmd": f"./check {pid} --tier quick",
            "thorough_cmd": f"./check {pid} --tier thorough",
            "evidence_file": f"/verif/evidence/{pid}.json",
            "replay_cmd_template": f"./check {pid} --replay {{path}}",
            "engine": "vf",
            "level_claimed": {"category": c.get("category", "exploration"), "text": c["text"], "design_ref": c["design"]},
            "level_note": c["note"],
            "technique": c["technique"],
        })
    manifest = {
        "version": 1,
        "setup_cmd": "./setup.sh",
        "hooks": {
            "guard": "PINT_VERIF",
            "enable": "no source hooks are needed: checks observe pint through its public API from a fresh interpreter with /repo first on PYTHONPATH (./check exports PINT_VERIF=1 for uniformity)",
            "baseline_off_cmd": "cd /repo && env -u PINT_VERIF /venv/bin/python -m pytest -ra -q -p no:cacheprovider --timeout=900 --continue-on-collection-errors",
            "source_commits": [],
            "add_only": True,
        },
        "engines": [
            {"name": "vf", "path": "/verif/vf", "serves_properties": sorted(CHECKS),
             "kind_free_text": "property-based testing: Hypothesis (random + op-sequence/stateful), bounded-exhaustive enumeration on 16 processes, "
                               "atheris coverage-guided fuzzing; explicit oracles (independent definition reader R, reference models, round-trips, metamorphic relations)"},
        ],
        "checks": checks,
        "notes": "Exit codes: 0 held, 1 VIOLATION (unknown finding), 2 harness problem. Known findings: /verif/known_findings.json. "
                 "VERIF_SEED selects the Hypothesis seed and enumeration strides; VERIF_REPO overrides the tree under test (default /repo).",
        "not_applicable": [{"property_id": p, "reason": NOT_YET} for p in ALL if p not in CHECKS],
    }
    with open(os.path.join(HERE, "MANIFEST.json"), "w") as fh:
        json.dump(manifest, fh, indent=1)
    print("wrote MANIFEST.json with", len(checks), "checks")


if __name__ == "__main__":
    main()
