#!/bin/bash
# usage: tools/keepseed.sh <Cnn> <k> <seed-id> "<caught by / missed note>"
# Copies a confirmed seeded change from /tmp/seed/out/<Cnn>/ to /verif/seeded/<seed-id>/.
set -eu
P=$1; K=$2; ID=$3; NOTE=$4
SRC=${SEEDSRC:-/tmp/seed/out}/$P; DST=/verif/seeded/$ID
[ -e $DST ] && { echo "refusing to overwrite $DST"; exit 1; }
mkdir -p $DST
cp $SRC/patch$K.diff $DST/patch.diff
cp $SRC/demo$K.py $DST/demo.py
/venv/bin/python - "$SRC/meta$K.json" "$DST/meta.json" "$P" "$NOTE" <<'PY'
import json, sys
src, dst, prop, note = sys.argv[1:5]
try:
    m = json.load(open(src))
except Exception:
    m = {}
out = {"property": prop, "breaks": m.get("what_changes", ""), "needs_to_manifest": m.get("needs_to_manifest", ""),
       "files": m.get("files", []), "seeder_tests_run": m.get("tests_run", ""),
       "confirmed": "applied with git apply to /repo (current HEAD incl. fix: commits); demo.py exits 1 with the change and 0 without; see DESIGN.md section 7 for the suite run",
       "check_result": note}
json.dump(out, open(dst, "w"), indent=1, ensure_ascii=False)
PY
echo kept $DST
