#!/bin/bash
# For every /verif/seeded/<id> without a recorded suite result: scratch worktree of /repo HEAD, apply patch, run the
# pinned suite, record the result line in meta.json, remove the worktree.
set -u
for d in /verif/seeded/*/; do
  id=$(basename $d)
  if grep -q '"suite_result"' $d/meta.json 2>/dev/null; then continue; fi
  wt=/tmp/seedconfirm_$id
  git -C /repo worktree add --detach $wt HEAD -q || continue
  if git -C $wt apply $d/patch.diff; then
    res=$(cd $wt && PYTHONPATH=$wt /venv/bin/python -m pytest -q -p no:cacheprovider -n 6 pint/testsuite 2>&1 | tail -1)
    demo=$(cd /tmp && PYTHONPATH=$wt /venv/bin/python $d/demo.py >/dev/null 2>&1; echo $?)
  else
    res="PATCH DOES NOT APPLY"; demo="-"
  fi
  git -C /repo worktree remove --force $wt
  /venv/bin/python - "$d/meta.json" "$res" "$demo" <<'PY'
import json, sys
p, res, demo = sys.argv[1:4]
m = json.load(open(p)); m["suite_result"] = res; m["demo_exit_with_change"] = demo
m["suite_cmd"] = "scratch worktree of /repo HEAD + patch: PYTHONPATH=<wt> /venv/bin/python -m pytest -q -p no:cacheprovider -n 6 pint/testsuite"
json.dump(m, open(p, "w"), indent=1, ensure_ascii=False)
PY
  echo "$id: $res (demo exit $demo)"
done
