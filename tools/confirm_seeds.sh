#!/bin/bash
# For every /verif/seeded/<id> (or the ids given): scratch worktree of /repo HEAD under /tmp, apply the patch, run the pinned
# suite serially (the suite has one test that is order-dependent under xdist), run the demo, record the results in meta.json,
# remove the worktree.  usage: tools/confirm_seeds.sh [--redo] [id ...]      (parallelism: CONFIRM_JOBS, default 3)
set -u
REDO=0; [ "${1:-}" = "--redo" ] && { REDO=1; shift; }
ids=("$@"); [ ${#ids[@]} -eq 0 ] && ids=($(ls /verif/seeded))
one() {
  id=$1; d=/verif/seeded/$id
  if [ "$REDO" = 0 ] && grep -q '"suite_cmd": "serial' $d/meta.json 2>/dev/null; then return; fi
  wt=/tmp/seedconfirm_$id
  git -C /repo worktree add --detach $wt HEAD -q || return
  if git -C $wt apply $d/patch.diff; then
    out=$(cd $wt && XDG_CACHE_HOME=$wt/.cache PYTHONPATH=$wt /venv/bin/python -m pytest -q -p no:cacheprovider -p no:xdist --benchmark-disable pint/testsuite 2>&1 | grep -E "^FAILED|^ERROR|^[0-9]+ (passed|failed)" | tail -5 | tr '\n' ';')
    demo=$(cd /tmp && XDG_CACHE_HOME=$wt/.cache PYTHONPATH=$wt /venv/bin/python $d/demo.py >/dev/null 2>&1; echo $?)
    git -C $wt checkout -- . ; clean=$(cd /tmp && XDG_CACHE_HOME=$wt/.cache PYTHONPATH=$wt /venv/bin/python $d/demo.py >/dev/null 2>&1; echo $?)
  else
    out="PATCH DOES NOT APPLY"; demo="-"; clean="-"
  fi
  git -C /repo worktree remove --force $wt
  /venv/bin/python - "$d/meta.json" "$out" "$demo" "$clean" <<'PY'
import json, sys
p, res, demo, clean = sys.argv[1:5]
m = json.load(open(p)); m["suite_result"] = res; m["demo_exit_with_change"] = demo; m["demo_exit_without_change"] = clean
m["suite_cmd"] = "serial: scratch worktree of /repo HEAD + patch: PYTHONPATH=<wt> /venv/bin/python -m pytest -q -p no:cacheprovider -p no:xdist --benchmark-disable pint/testsuite"
json.dump(m, open(p, "w"), indent=1, ensure_ascii=False)
PY
  echo "$id: $out demo=$demo clean=$clean"
}
export -f one; export REDO
printf '%s\n' "${ids[@]}" | xargs -P ${CONFIRM_JOBS:-3} -I{} bash -c 'one {}'
