#!/bin/bash
# Re-run every kept seeded change against the check of its property in a scratch worktree (never touches /repo's working tree).
# usage: tools/regress_seeds.sh [id ...]   -> prints CAUGHT / MISSED per seed; exit 1 if any is missed
set -u
WT=/tmp/seedreg_wt
git -C /repo worktree remove --force $WT 2>/dev/null; git -C /repo worktree add --detach $WT HEAD -q || exit 3
ids=("$@"); [ ${#ids[@]} -eq 0 ] && ids=($(ls /verif/seeded))
missed=0
for id in "${ids[@]}"; do
  p=${id%-*}
  # (a few seeded changes are by construction only visible to the check of another property: meta.json names it)
  alt=$(/venv/bin/python -c "import json,sys; print(json.load(open('/verif/seeded/$id/meta.json')).get('run_check',''))" 2>/dev/null); [ -n "$alt" ] && p=$alt
  git -C $WT checkout -q -- . ; git -C $WT clean -fdq
  if ! git -C $WT apply /verif/seeded/$id/patch.diff 2>/dev/null; then echo "$id: PATCH DOES NOT APPLY"; missed=1; continue; fi
  out=$(cd /verif && VERIF_REPO=$WT ./check $p 2>&1)
  if echo "$out" | grep -q "^VIOLATION property=$p"; then echo "$id: CAUGHT"; else echo "$id: MISSED ($(echo "$out" | grep -E 'tier=|HARNESS' | head -1 | cut -c1-120))"; missed=1; fi
done
git -C /repo worktree remove --force $WT
exit $missed
