#!/opt/veriftools/pyvenv/bin/python
"""Validate MANIFEST.json and evidence/*.json against the given schemas (uses jsonschema from the tooling venv)."""
import glob, json, sys
import jsonschema
ok = True
m = json.load(open('/verif/MANIFEST.json'))
jsonschema.validate(m, json.load(open('/root/.vp/MANIFEST.schema.json')))
es = json.load(open('/root/.vp/EVIDENCE.schema.json'))
props = [json.loads(l)['id'] for l in open('/verif/properties.jsonl')]
claimed = {c['property_id'] for c in m['checks']}
na = {c['property_id'] for c in m.get('not_applicable', [])}
for p in props:
    if p not in claimed and p not in na:
        print('neither claimed nor not_applicable:', p); ok = False
for f in sorted(glob.glob('/verif/evidence/C*.json')):
    if '.partial' in f: continue
    try:
        jsonschema.validate(json.load(open(f)), es)
    except Exception as e:
        print('INVALID', f, str(e)[:300]); ok = False
print('manifest ok; claimed', sorted(claimed), 'n/a', sorted(na))
sys.exit(0 if ok else 1)
