#!/bin/bash
# Offline setup: make sure the interpreter used by the checks has hypothesis; install atheris for the fuzz targets.
set -u
cd "$(dirname "$0")"
PY=/venv/bin/python
WH=/opt/veriftools/wheels
$PY -c "import hypothesis" 2>/dev/null || /venv/bin/pip install --no-index --find-links $WH hypothesis >/dev/null 2>&1
$PY -c "import hypothesis, numpy; print('hypothesis', hypothesis.__version__, 'numpy', numpy.__version__)" || exit 1
mkdir -p .deps evidence replays
if ! PYTHONPATH=.deps $PY -c "import atheris" 2>/dev/null; then
  /venv/bin/pip install --no-index --find-links $WH --target .deps atheris >/dev/null 2>&1 || echo "note: atheris not installed (fuzz targets fall back to Hypothesis-only)"
fi
PYTHONPATH=.deps $PY -c "import atheris; print('atheris ok')" 2>/dev/null || true
exit 0
